// Probe types for C18 / R18.1 (documented noexcept = declared noexcept, iterator and nested-type
// contract).  Every user-supplied operation is *declared and never defined*: the translation units
// that include this file are only type-checked (-fsyntax-only); nothing is linked or run.
#ifndef VERIF_PROBES_C18_TYPES_HPP
#define VERIF_PROBES_C18_TYPES_HPP

#include <gch/small_vector.hpp>

#include <cstddef>
#include <cstdint>
#include <iterator>
#include <limits>
#include <memory>
#include <new>
#include <type_traits>
#include <utility>
#include <version>

namespace c18
{

  // ---- element flavours: the three exception specifications the documented conditions read ----
  // MC: move constructor is noexcept; MA: move assignment is noexcept; SW: ADL swap is noexcept.
  // Copy operations and the default constructor may always throw.
  template <bool MC, bool MA, bool SW>
  struct E
  {
    E ();
    E (const E&);
    E (E&&) noexcept (MC);
    E& operator= (const E&);
    E& operator= (E&&) noexcept (MA);
    ~E ();
    int v;
  };

  template <bool MC, bool MA, bool SW>
  void swap (E<MC, MA, SW>&, E<MC, MA, SW>&) noexcept (SW);

  // ---- allocator: every trait the documented conditions read is an axis ----
  enum : unsigned
  {
    POCMA         = 1u,    // propagate_on_container_move_assignment
    POCS          = 2u,    // propagate_on_container_swap
    IAE_TRUE      = 4u,    // declares is_always_equal = true_type
    IAE_FALSE     = 8u,    // declares is_always_equal = false_type
                           // (neither: not declared, allocator_traits derives it from is_empty)
    STATE         = 16u,   // carries one word of state
    THROWING_DFLT = 32u,   // default constructor is noexcept (false)
    SMALL_SIZE    = 64u,   // size_type = unsigned short (difference_type stays ptrdiff_t)
    POCCA         = 128u   // propagate_on_container_copy_assignment
  };

  template <bool HasState> struct pa_state { void *word; };
  template <> struct pa_state<false> { };

  template <unsigned IAE> struct pa_iae { };
  template <> struct pa_iae<IAE_TRUE>  { using is_always_equal = std::true_type; };
  template <> struct pa_iae<IAE_FALSE> { using is_always_equal = std::false_type; };

  template <typename T, unsigned Bits>
  struct PA
    : pa_state<(Bits & STATE) != 0>,
      pa_iae<(Bits & (IAE_TRUE | IAE_FALSE))>
  {
    using value_type      = T;
    using size_type       = typename std::conditional<(Bits & SMALL_SIZE) != 0,
                                                      unsigned short, std::size_t>::type;
    using difference_type = std::ptrdiff_t;
    using propagate_on_container_copy_assignment = std::integral_constant<bool, (Bits & POCCA) != 0>;
    using propagate_on_container_move_assignment = std::integral_constant<bool, (Bits & POCMA) != 0>;
    using propagate_on_container_swap            = std::integral_constant<bool, (Bits & POCS) != 0>;
    template <typename U> struct rebind { using other = PA<U, Bits>; };

    PA () noexcept ((Bits & THROWING_DFLT) == 0);
    PA (const PA&) noexcept;
    PA (PA&&) noexcept;
    template <typename U> PA (const PA<U, Bits>&) noexcept;
    PA& operator= (const PA&) noexcept;
    PA& operator= (PA&&) noexcept;
    ~PA () = default;

    T *allocate (size_type n);
    void deallocate (T *p, size_type n) noexcept;
  };

  template <typename T, typename U, unsigned B>
  bool operator== (const PA<T, B>&, const PA<U, B>&) noexcept;
  template <typename T, typename U, unsigned B>
  bool operator!= (const PA<T, B>&, const PA<U, B>&) noexcept;
  template <typename T, unsigned B>
  void swap (PA<T, B>&, PA<T, B>&) noexcept;

  // ---- helpers for spelling call expressions in unevaluated operands ----
  template <typename T, unsigned N, typename A>
  using SV = gch::small_vector<T, N, A>;

  template <typename X> X&&      rv  () noexcept;   // an rvalue (xvalue) of type X
  template <typename X> X&       lv  () noexcept;   // an lvalue of type X
  template <typename X> const X& clv () noexcept;   // a const lvalue of type X
  void *                         vp  () noexcept;   // storage for placement new

  // ---- the standard's definitions used as oracles ----
  // difference_type as the brief words it: "min { signed size_type, alloc_traits::difference_type }"
  template <typename A>
  struct narrower_difference
  {
    using S = typename std::make_signed<typename std::allocator_traits<A>::size_type>::type;
    using D = typename std::allocator_traits<A>::difference_type;
    using type = typename std::conditional<
      ((std::numeric_limits<S>::max) () < (std::numeric_limits<D>::max) ()), S, D>::type;
  };

  // [swappable]: "is_nothrow_swappable" where the library does not provide it (before C++17)
  namespace adl_swap
  {
    using std::swap;
    template <typename T, typename = void>
    struct nothrow : std::false_type { };
    template <typename T>
    struct nothrow<T, decltype (static_cast<void> (swap (std::declval<T&> (), std::declval<T&> ())))>
      : std::integral_constant<bool, noexcept (swap (std::declval<T&> (), std::declval<T&> ()))> { };
  }

}

#endif
