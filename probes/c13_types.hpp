// Probe types for C13 / R13.1 (trait grid vs. conversion oracle).  Nothing here is ever run:
// the header's traits are evaluated by the compilers' type checkers (-fsyntax-only).
#ifndef VERIF_PROBES_C13_TYPES_HPP
#define VERIF_PROBES_C13_TYPES_HPP

#include <gch/small_vector.hpp>

#include <array>
#include <cstddef>
#include <deque>
#include <iterator>
#include <list>
#include <memory>
#include <string>
#include <type_traits>
#include <vector>

namespace c13
{

  // The traits are public members of the allocator interface instantiated for the destination
  // value type with the standard allocator (the configuration in which the fast paths are armed).
  template <typename To>
  using AI = gch::detail::allocator_interface<std::allocator<To>>;

  // ---- enumerations -----------------------------------------------------------------------
  enum UE_int    : int                { ue_int_a };
  enum UE_uint   : unsigned           { ue_uint_a };
  enum UE_short  : short              { ue_short_a };
  enum UE_uchar  : unsigned char      { ue_uchar_a };
  enum UE_ullong : unsigned long long { ue_ullong_a };
  enum UE_bool   : bool               { ue_bool_a };
  enum UE_plain                       { ue_plain_a, ue_plain_b };  // no fixed underlying type
  enum class SE_int    : int                { a };
  enum class SE_uint   : unsigned           { a };
  enum class SE_schar  : signed char        { a };
  enum class SE_ushort : unsigned short     { a };
  enum class SE_llong  : long long          { a };
  enum class SE_bool   : bool               { a };

  // ---- class hierarchies for the pointer cells --------------------------------------------
  // By construction under the Itanium C++ ABI (non-polymorphic, non-empty bases are laid out in
  // declaration order starting at offset 0):
  //   D  : B1 at offset 0, B2 at offset sizeof (B1) != 0
  //   DD : D at 0, hence B1 at 0 and B2 at a non-zero offset (two levels)
  //   DE : empty base EB at 0, B1 at 0 as well (empty-base optimisation)
  //   DP : polymorphic class with a non-polymorphic *first* base: the vptr takes offset 0 and B1
  //        follows it, so "first base" does not imply "offset 0"
  //   DV : virtual base; the conversion reads the vbase offset through the vptr at run time
  // The non-virtual layouts are cross-checked by `base_at_zero` below (a constant expression
  // over the address of a constexpr object; no container code is evaluated).
  struct B1 { int a; };
  struct B2 { int b; };
  struct D : B1, B2 { int c; };
  struct DD : D { int e; };
  struct EB { };
  struct DE : EB, B1 { };
  struct DP : B1 { virtual void f (); int c; constexpr DP () : B1 { 0 }, c (0) { } };
  struct VB { int v; };
  struct DV : virtual VB { int d; };

  template <typename Derived, typename Base>
  constexpr
  bool
  base_at_zero (const Derived& d)
  {
    return static_cast<const void *> (static_cast<const Base *> (&d))
       ==  static_cast<const void *> (&d);
  }

  constexpr D  d_obj  { };
  constexpr DD dd_obj { };
  constexpr DE de_obj { };
  constexpr DP dp_obj { };

  // ---- class value types ------------------------------------------------------------------
  struct TR { int x; int y; };                       // trivially copyable aggregate
  struct TD : TR { };                                // same size, derived: slicing conversion
  struct NT                                          // user-provided copy operations
  {
    int x;
    NT (const NT&);
    NT& operator= (const NT&);
    ~NT ();
  };
  struct NTA                                         // trivial copy ctor, user-provided assignment
  {
    int x;
    NTA (const NTA&) = default;
    NTA& operator= (const NTA&);
  };
  struct NTD                                         // trivial copies, user-provided destructor
  {
    int x;
    ~NTD ();
  };
  struct CONV { operator int () const; };            // class -> int by a conversion function
  struct FROMINT { int x; FROMINT (int); };          // int -> class by a converting constructor
  struct PTRCONV { operator int * () const; };       // class -> pointer by a conversion function

}

#endif
