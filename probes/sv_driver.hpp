// Driver: one function template that names every public member and non-member of the README
// brief for a (T, N, M, A) tuple.  It is explicitly instantiated by the generated TUs and never
// called; its only purpose is to make the compiler instantiate and emit the library's code.
#ifndef SVP_DRIVER_HPP
#define SVP_DRIVER_HPP

#include <gch/small_vector.hpp>
#include "sv_types.hpp"

#include <initializer_list>
#include <utility>

namespace svp
{
  using yes = std::true_type;
  using no = std::false_type;
  template <bool B> using tag = std::integral_constant<bool, B>;

  // Each operation lives in its own tiny function so that the analyser can name the entry point.
  template <typename V> struct ops
  {
    using T = typename V::value_type;
    using A = typename V::allocator_type;
    using S = typename V::size_type;
    using CI = typename V::const_iterator;

    // ---- copy-requiring operations
    static void copy_ops (V& v, const V& cv, const T& val, S n, CI pos, const A& a, yes)
    {
      { V c (cv); (void)c; }
      { V c (cv, a); (void)c; }
      { V c (n, val); (void)c; }
      { V c (n, val, a); (void)c; }
      v = cv;
      v.assign (cv);
      v.assign (n, val);
      v.push_back (val);
      v.emplace_back (val);
      v.insert (pos, val);
      v.insert (pos, n, val);
      v.emplace (pos, val);
      v.resize (n, val);
      v.append (cv);
    }
    static void copy_ops (V&, const V&, const T&, S, CI, const A&, no) { }

    static void ilist_ops (V& v, std::initializer_list<T> il, CI pos, const A& a, yes)
    {
      { V c (il); (void)c; }
      { V c (il, a); (void)c; }
      v = il;
      v.assign (il);
      v.insert (pos, il);
      v.append (il);
    }
    static void ilist_ops (V&, std::initializer_list<T>, CI, const A&, no) { }

    // ---- operations that only need moves
    static void move_ops (V& v, V& w, T& rv, CI pos, const A& a)
    {
      { V c (std::move (w)); (void)c; }
      { V c (std::move (w), a); (void)c; }
      v.push_back (std::move (rv));
      v.emplace_back (std::move (rv));
      v.insert (pos, std::move (rv));
      v.emplace (pos, std::move (rv));
      v.reserve (7);
      v.shrink_to_fit ();
      v.append (std::move (w));
    }
    static void move_assign_ops (V& v, V& w, yes)
    {
      v = std::move (w);
      v.assign (std::move (w));
      v.swap (w);
      swap (v, w);
    }
    static void move_assign_ops (V&, V&, no) { }

    static void erase_ops (V& v, CI pos, CI pos2, const T& val, yes)
    {
      v.erase (pos);
      v.erase (pos, pos2);
      gch::erase (v, val);
      gch::erase_if (v, [](const T&) { return true; });
    }
    static void erase_ops (V&, CI, CI, const T&, no) { }

    static void default_ops (V& v, S n, const A& a)
    {
      { V c; (void)c; }
      { V c (a); (void)c; }
      { V c (n); (void)c; }
      { V c (n, a); (void)c; }
      v.resize (n);
      v.pop_back ();
      v.clear ();
    }

    template <typename It>
    static void range_ops (V& v, It f, It l, CI pos, const A& a)
    {
      { V c (f, l); (void)c; }
      { V c (f, l, a); (void)c; }
      v.assign (f, l);
      v.insert (pos, f, l);
      v.append (f, l);
    }

    static void gen_ops (S n, Gen<T> g, const A& a)
    {
      { V c (n, g); (void)c; }
      { V c (n, g, a); (void)c; }
    }

    static void conv_ops (V& v, CI pos, yes)
    {
      v.emplace_back (1);
      v.emplace (pos, 2);
    }
    static void conv_ops (V&, CI, no) { }

    static void observers (V& v, const V& cv, S i)
    {
      (void)v.begin (); (void)cv.begin (); (void)v.cbegin ();
      (void)v.end (); (void)cv.end (); (void)v.cend ();
      (void)v.rbegin (); (void)cv.rbegin (); (void)v.crbegin ();
      (void)v.rend (); (void)cv.rend (); (void)v.crend ();
      (void)v.at (i); (void)cv.at (i); (void)v[i]; (void)cv[i];
      (void)v.front (); (void)cv.front (); (void)v.back (); (void)cv.back ();
      (void)v.data (); (void)cv.data ();
      (void)cv.size (); (void)cv.empty (); (void)cv.max_size (); (void)cv.capacity ();
      (void)cv.get_allocator (); (void)cv.inlined (); (void)cv.inlinable ();
      (void)V::inline_capacity ();
      (void)gch::begin (v); (void)gch::begin (cv); (void)gch::cbegin (cv);
      (void)gch::end (v); (void)gch::end (cv); (void)gch::cend (cv);
      (void)gch::rbegin (v); (void)gch::rbegin (cv); (void)gch::crbegin (cv);
      (void)gch::rend (v); (void)gch::rend (cv); (void)gch::crend (cv);
      (void)gch::size (cv); (void)gch::ssize (cv); (void)gch::empty (cv);
      (void)gch::data (v); (void)gch::data (cv);
    }

    static void compare (const V& a, const V& b)
    {
      (void)(a == b); (void)(a != b); (void)(a < b); (void)(a <= b); (void)(a > b); (void)(a >= b);
    }
  };

  // cross-capacity operations between small_vector<T,N,A> and small_vector<T,M,A>
  template <typename V, typename W> struct xops
  {
    using T = typename V::value_type;
    using A = typename V::allocator_type;
    static void copy_x (V& v, const W& cw, const A& a, yes)
    {
      { V c (cw); (void)c; }
      { V c (cw, a); (void)c; }
      v.assign (cw);
      v.append (cw);
    }
    static void copy_x (V&, const W&, const A&, no) { }
    static void move_x (V& v, W& w, const A& a)
    {
      { V c (std::move (w)); (void)c; }
      { V c (std::move (w), a); (void)c; }
      v.append (std::move (w));
    }
    static void move_assign_x (V& v, W& w, yes) { v.assign (std::move (w)); }
    static void move_assign_x (V&, W&, no) { }
    static void compare_x (const V& a, const W& b)
    {
      (void)(a == b); (void)(a != b); (void)(a < b); (void)(a <= b); (void)(a > b); (void)(a >= b);
    }
  };

  template <typename V, typename W, typename T, typename CI, typename A>
  void copy_ranges (V& v, W& x, InIt<T> ii, FwIt<T> fi, RaIt<T> ri, T *p, CI pos, const A& a, yes)
  {
    using O = ops<V>;
    O::template range_ops<InIt<T>> (v, ii, ii, pos, a);
    O::template range_ops<FwIt<T>> (v, fi, fi, pos, a);
    O::template range_ops<RaIt<T>> (v, ri, ri, pos, a);
    O::template range_ops<T *> (v, p, p, pos, a);
    O::template range_ops<const T *> (v, p, p, pos, a);
    O::template range_ops<typename W::iterator> (v, x.begin (), x.end (), pos, a);
    O::template range_ops<typename W::const_iterator> (v, x.cbegin (), x.cend (), pos, a);
  }
  template <typename V, typename W, typename T, typename CI, typename A>
  void copy_ranges (V&, W&, InIt<T>, FwIt<T>, RaIt<T>, T *, CI, const A&, no) { }

  template <typename T, unsigned N, unsigned M, typename A>
  void drive (gch::small_vector<T, N, A>& v, gch::small_vector<T, N, A>& w,
              gch::small_vector<T, M, A>& x, T& rv, const A& a, std::size_t n0,
              InIt<T> ii, FwIt<T> fi, RaIt<T> ri, T *p, Gen<T> g,
              std::initializer_list<T> il)
  {
    using V = gch::small_vector<T, N, A>;
    using W = gch::small_vector<T, M, A>;
    using O = ops<V>;
    const V& cv = w;
    const T& val = rv;
    typename V::size_type n = static_cast<typename V::size_type> (n0);
    typename V::const_iterator pos = v.cbegin ();
    typename V::const_iterator pos2 = v.cend ();

    O::default_ops (v, n, a);
    O::copy_ops (v, cv, val, n, pos, a, tag<caps<T>::copy && caps<T>::copy_assign> { });
    O::ilist_ops (v, il, pos, a, tag<caps<T>::copy && caps<T>::copy_assign> { });
    O::move_ops (v, w, rv, pos, a);
    O::move_assign_ops (v, w, tag<caps<T>::move_assign> { });
    O::erase_ops (v, pos, pos2, val, tag<caps<T>::move_assign> { });
    O::conv_ops (v, pos, tag<caps<T>::from_int> { });
    O::observers (v, cv, n);
    O::compare (cv, cv);
    O::gen_ops (n, g, a);
    copy_ranges<V, W> (v, x, ii, fi, ri, p, pos, a, tag<caps<T>::copy && caps<T>::copy_assign> { });
    O::template range_ops<std::move_iterator<T *>> (v, std::move_iterator<T *> (p),
                                                    std::move_iterator<T *> (p), pos, a);

    using X = xops<V, W>;
    X::copy_x (v, x, a, tag<caps<T>::copy && caps<T>::copy_assign> { });
    X::move_x (v, x, a);
    X::move_assign_x (v, x, tag<caps<T>::move_assign> { });
    X::compare_x (cv, x);
  }
}

#endif
