// Opaque operand types for the probe corpus (DESIGN section 3).
// Every user-supplied operation is *declared and never defined*: in LLVM IR it is an external
// declaration, i.e. an exact may-throw / no-throw source of a known kind.  Nothing here is ever
// linked or run.
#ifndef SVP_TYPES_HPP
#define SVP_TYPES_HPP

#include <cstddef>
#include <cstdint>
#include <iterator>
#include <memory>
#include <type_traits>

namespace svp
{
  // ---------------------------------------------------------------- element flavours
  // NM: nothrow move, throwing copy
  struct NM
  {
    NM ();
    NM (int);
    NM (const NM&);
    NM (NM&&) noexcept;
    NM& operator= (const NM&);
    NM& operator= (NM&&) noexcept;
    NM& operator= (int);
    ~NM ();
    int v;
  };
  void swap (NM&, NM&) noexcept;
  bool operator== (const NM&, const NM&);
  bool operator<  (const NM&, const NM&);

  // NA: nothrow move CONSTRUCTION but throwing move ASSIGNMENT and swap (a helper whose noexcept looks
  // at the move constructor only is wrong for this flavour)
  struct NA
  {
    NA ();
    NA (int);
    NA (const NA&);
    NA (NA&&) noexcept;
    NA& operator= (const NA&);
    NA& operator= (NA&&) noexcept (false);
    NA& operator= (int);
    ~NA ();
    int v;
  };
  void swap (NA&, NA&) noexcept (false);
  bool operator== (const NA&, const NA&);
  bool operator<  (const NA&, const NA&);

  // TM: throwing move (and move assignment, and swap), copyable
  struct TM
  {
    TM ();
    TM (int);
    TM (const TM&);
    TM (TM&&) noexcept (false);
    TM& operator= (const TM&);
    TM& operator= (TM&&) noexcept (false);
    TM& operator= (int);
    ~TM ();
    int v;
  };
  void swap (TM&, TM&) noexcept (false);
  bool operator== (const TM&, const TM&);
  bool operator<  (const TM&, const TM&);

  // MO: move-only, nothrow
  struct MO
  {
    MO ();
    MO (int);
    MO (const MO&) = delete;
    MO (MO&&) noexcept;
    MO& operator= (const MO&) = delete;
    MO& operator= (MO&&) noexcept;
    MO& operator= (int);
    ~MO ();
    int v;
  };
  void swap (MO&, MO&) noexcept;
  bool operator== (const MO&, const MO&);
  bool operator<  (const MO&, const MO&);

  // MOT: move-only, throwing move
  struct MOT
  {
    MOT ();
    MOT (int);
    MOT (const MOT&) = delete;
    MOT (MOT&&) noexcept (false);
    MOT& operator= (const MOT&) = delete;
    MOT& operator= (MOT&&) noexcept (false);
    MOT& operator= (int);
    ~MOT ();
    int v;
  };
  void swap (MOT&, MOT&) noexcept (false);
  bool operator== (const MOT&, const MOT&);
  bool operator<  (const MOT&, const MOT&);

  // CO: copy-only (no move operations declared: rvalues bind to the copy operations)
  struct CO
  {
    CO ();
    CO (int);
    CO (const CO&);
    CO& operator= (const CO&);
    CO& operator= (int);
    ~CO ();
    int v;
  };
  bool operator== (const CO&, const CO&);
  bool operator<  (const CO&, const CO&);

  // TR: trivially copyable aggregate
  struct TR
  {
    int a;
    int b;
  };
  inline bool operator== (const TR& l, const TR& r) { return l.a == r.a && l.b == r.b; }
  inline bool operator<  (const TR& l, const TR& r) { return l.a < r.a; }

  // ---------------------------------------------------------------- allocator
  // Bits: 1 = POCCA, 2 = POCMA, 4 = POCS, 8 = is_always_equal (then stateless)
  template <bool HasState> struct pa_state { int id; };
  template <> struct pa_state<false> { };

  template <typename T, unsigned Bits, typename SizeT = std::size_t>
  struct PA : pa_state<(Bits & 8u) == 0>
  {
    using value_type = T;
    using size_type = SizeT;
    using difference_type = std::ptrdiff_t;
    using propagate_on_container_copy_assignment = std::integral_constant<bool, (Bits & 1u) != 0>;
    using propagate_on_container_move_assignment = std::integral_constant<bool, (Bits & 2u) != 0>;
    using propagate_on_container_swap            = std::integral_constant<bool, (Bits & 4u) != 0>;
    using is_always_equal                        = std::integral_constant<bool, (Bits & 8u) != 0>;
    template <typename U> struct rebind { using other = PA<U, Bits, SizeT>; };

    PA () noexcept;
    PA (const PA&) noexcept;
    PA (PA&&) noexcept;
    template <typename U> PA (const PA<U, Bits, SizeT>&) noexcept;
    PA& operator= (const PA&) noexcept;
    PA& operator= (PA&&) noexcept;
    ~PA () = default;

    T *allocate (size_type n);
    void deallocate (T *p, size_type n) noexcept;
    size_type max_size () const noexcept;
    PA select_on_container_copy_construction () const;
  };
  template <typename T, typename U, unsigned B, typename S>
  bool operator== (const PA<T, B, S>&, const PA<U, B, S>&) noexcept;
  template <typename T, typename U, unsigned B, typename S>
  bool operator!= (const PA<T, B, S>&, const PA<U, B, S>&) noexcept;
  template <typename T, unsigned B, typename S>
  void swap (PA<T, B, S>&, PA<T, B, S>&) noexcept;

  // ---------------------------------------------------------------- iterators
  template <typename T>
  struct InIt
  {
    using iterator_category = std::input_iterator_tag;
    using value_type = T;
    using difference_type = std::ptrdiff_t;
    using pointer = const T *;
    using reference = const T&;
    InIt ();
    InIt (const InIt&);
    InIt& operator= (const InIt&);
    reference operator* () const;
    InIt& operator++ ();
    InIt operator++ (int);
  };
  template <typename T> bool operator== (const InIt<T>&, const InIt<T>&);
  template <typename T> bool operator!= (const InIt<T>&, const InIt<T>&);

  template <typename T>
  struct FwIt
  {
    using iterator_category = std::forward_iterator_tag;
    using value_type = T;
    using difference_type = std::ptrdiff_t;
    using pointer = const T *;
    using reference = const T&;
    FwIt ();
    FwIt (const FwIt&);
    FwIt& operator= (const FwIt&);
    reference operator* () const;
    FwIt& operator++ ();
    FwIt operator++ (int);
  };
  template <typename T> bool operator== (const FwIt<T>&, const FwIt<T>&);
  template <typename T> bool operator!= (const FwIt<T>&, const FwIt<T>&);

  template <typename T>
  struct RaIt
  {
    using iterator_category = std::random_access_iterator_tag;
    using value_type = T;
    using difference_type = std::ptrdiff_t;
    using pointer = const T *;
    using reference = const T&;
    RaIt ();
    RaIt (const RaIt&);
    RaIt& operator= (const RaIt&);
    reference operator* () const;
    reference operator[] (difference_type) const;
    RaIt& operator++ ();
    RaIt operator++ (int);
    RaIt& operator-- ();
    RaIt operator-- (int);
    RaIt& operator+= (difference_type);
    RaIt& operator-= (difference_type);
  };
  template <typename T> RaIt<T> operator+ (const RaIt<T>&, std::ptrdiff_t);
  template <typename T> RaIt<T> operator+ (std::ptrdiff_t, const RaIt<T>&);
  template <typename T> RaIt<T> operator- (const RaIt<T>&, std::ptrdiff_t);
  template <typename T> std::ptrdiff_t operator- (const RaIt<T>&, const RaIt<T>&);
  template <typename T> bool operator== (const RaIt<T>&, const RaIt<T>&);
  template <typename T> bool operator!= (const RaIt<T>&, const RaIt<T>&);
  template <typename T> bool operator<  (const RaIt<T>&, const RaIt<T>&);
  template <typename T> bool operator>  (const RaIt<T>&, const RaIt<T>&);
  template <typename T> bool operator<= (const RaIt<T>&, const RaIt<T>&);
  template <typename T> bool operator>= (const RaIt<T>&, const RaIt<T>&);

  // generator for the (count, generator) constructor
  template <typename T>
  struct Gen
  {
    Gen (const Gen&);
    T operator() ();
  };

  // flavour capabilities used by the driver (C++11-compatible tag dispatch)
  template <typename T> struct caps
  {
    static constexpr bool copy = std::is_copy_constructible<T>::value;
    static constexpr bool copy_assign = std::is_copy_assignable<T>::value;
    static constexpr bool move_assign = std::is_move_assignable<T>::value;
    static constexpr bool from_int = std::is_constructible<T, int>::value
                                     && ! std::is_pointer<T>::value;
  };
}

#endif
