// Probe allocators for R07.1 / R07.4 (overload selection is the trait; copy construction goes
// through select_on_container_copy_construction).  Nothing here is ever linked or run: every
// operation is declared and never defined, except the *traps*, whose bodies exist only to make
// their instantiation (= their odr-use by the header) a compile error with a recognisable text.
//
// One family of class templates, all with the same shape
//
//     NAME<T, Bits, State = !(Bits & 8), Salt = 0>
//
//   Bits  1 = propagate_on_container_copy_assignment      2 = propagate_on_container_move_assignment
//         4 = propagate_on_container_swap                 8 = is_always_equal
//   State one `int` of state iff true (default: stateful exactly when not always-equal, so that
//         is_always_equal = false is honest and is_always_equal = true is an empty class)
//   Salt  makes otherwise identical allocators distinct types, so that every ill-formedness witness
//         owns its instantiations (a compiler reports a failing instantiation only once per TU)
//
// and these members of the family (what the Allocator requirements ask for is always *declared*,
// with the exception specifications the requirements give):
//
//   PA      everything present and opaque: copy/move assignment, swap, ==, !=, s_o_c_c_c
//   PAx     copy assignment, move assignment ("C07_ASSIGN_USED") and swap ("C07_SWAP_USED") are traps
//   PAeq    `==` and `!=` are traps ("C07_EQ_USED")
//   PAsel   select_on_container_copy_construction is a trap ("C07_SOCCC_USED")
//
// A trap is well-formed to declare, name, take `noexcept`/`decltype` of and to select in overload
// resolution; it is a compile error exactly when a function body that calls it is instantiated.
// Why traps and not `= delete`: a deleted operation changes overload resolution and SFINAE (a
// deleted `==` fails the header's C++20 `concepts::Allocator`, which only asks for the type of the
// expression; std::allocator_traits silently falls back to a plain copy when s_o_c_c_c is
// deleted; a defaulted move assignment that is deleted because the allocator's is, is ignored
// and the copy assignment is taken instead), and the compilers' explanations of implicitly
// deleted functions are not attributable to one witness.  A trap leaves every declaration intact.
#ifndef C07_ALLOC_HPP
#define C07_ALLOC_HPP

#include <cstddef>
#include <memory>
#include <type_traits>
#include <utility>

// clang instantiates a non-constexpr function that is first used inside a constexpr function
// (everything in the header is constexpr from C++20 on) at the end of the TU, without the chain of
// "requested here" notes that leads back to the witness; a constexpr trap is instantiated at the
// point of use.  C++11 constexpr functions cannot have such bodies, and need no such help.
#if defined (__cpp_constexpr) && __cpp_constexpr >= 201304L
#  define C07_TRAP_CONSTEXPR constexpr
#else
#  define C07_TRAP_CONSTEXPR
#endif

namespace c07
{
  template <bool HasState> struct pa_state { int id; };
  template <> struct pa_state<false> { };

  // dependent `false`
  template <typename T> struct never : std::integral_constant<bool, sizeof (T) == 0> { };

  // ASSIGN_HEAD / ASSIGN_BODY: how the two assignment operators are introduced / what follows the declarator
  // SWAP_*, EQ_*, SEL_*: the same for swap, ==/!=, select_on_container_copy_construction
#define C07_DEFINE_ALLOCATOR(NAME, ASSIGN_HEAD, ASSIGN_BODY, SWAP_HEAD, SWAP_BODY,                \
                             EQ_HEAD, EQ_BODY, SEL_HEAD, SEL_BODY)                                \
  template <typename T, unsigned Bits, bool State = (Bits & 8u) == 0, unsigned Salt = 0>          \
  struct NAME : pa_state<State>                                                                   \
  {                                                                                               \
    using value_type = T;                                                                         \
    using size_type = std::size_t;                                                                \
    using difference_type = std::ptrdiff_t;                                                       \
    using propagate_on_container_copy_assignment = std::integral_constant<bool, (Bits & 1u) != 0>;\
    using propagate_on_container_move_assignment = std::integral_constant<bool, (Bits & 2u) != 0>;\
    using propagate_on_container_swap            = std::integral_constant<bool, (Bits & 4u) != 0>;\
    using is_always_equal                        = std::integral_constant<bool, (Bits & 8u) != 0>;\
    template <typename U> struct rebind { using other = NAME<U, Bits, State, Salt>; };            \
                                                                                                  \
    NAME () noexcept;                                                                             \
    NAME (const NAME&) noexcept;                                                                  \
    NAME (NAME&&) noexcept;                                                                       \
    template <typename U> NAME (const NAME<U, Bits, State, Salt>&) noexcept;                      \
    ASSIGN_HEAD NAME& operator= (const NAME&) noexcept ASSIGN_BODY                                \
    ASSIGN_HEAD NAME& operator= (NAME&&) noexcept ASSIGN_BODY                                     \
    ~NAME () = default;                                                                           \
                                                                                                  \
    T *allocate (std::size_t n);                                                                  \
    void deallocate (T *p, std::size_t n) noexcept;                                               \
    SEL_HEAD NAME select_on_container_copy_construction () const SEL_BODY                         \
  };                                                                                              \
  template <typename T, typename U, unsigned B, bool S, unsigned X>                               \
  EQ_HEAD bool operator== (const NAME<T, B, S, X>&, const NAME<U, B, S, X>&) noexcept EQ_BODY     \
  template <typename T, typename U, unsigned B, bool S, unsigned X>                               \
  EQ_HEAD bool operator!= (const NAME<T, B, S, X>&, const NAME<U, B, S, X>&) noexcept EQ_BODY     \
  template <typename T, unsigned B, bool S, unsigned X>                                           \
  SWAP_HEAD void swap (NAME<T, B, S, X>&, NAME<T, B, S, X>&) noexcept SWAP_BODY

#define C07_NONE
#define C07_DECL_ONLY ;
#define C07_ASSIGN_TRAP { static_assert (never<T>::value, "C07_ASSIGN_USED"); return *this; }
#define C07_SWAP_TRAP   { static_assert (never<T>::value, "C07_SWAP_USED"); }
#define C07_EQ_TRAP     { static_assert (never<T>::value, "C07_EQ_USED"); return false; }
#define C07_SEL_TRAP    { static_assert (never<T>::value, "C07_SOCCC_USED"); return *this; }

  C07_DEFINE_ALLOCATOR (PA,    C07_NONE, C07_DECL_ONLY, C07_NONE, C07_DECL_ONLY,
                               C07_NONE, C07_DECL_ONLY, C07_NONE, C07_DECL_ONLY)
  C07_DEFINE_ALLOCATOR (PAx,   C07_TRAP_CONSTEXPR, C07_ASSIGN_TRAP, C07_TRAP_CONSTEXPR, C07_SWAP_TRAP,
                               C07_NONE, C07_DECL_ONLY, C07_NONE, C07_DECL_ONLY)
  C07_DEFINE_ALLOCATOR (PAeq,  C07_NONE, C07_DECL_ONLY, C07_NONE, C07_DECL_ONLY,
                               C07_TRAP_CONSTEXPR, C07_EQ_TRAP, C07_NONE, C07_DECL_ONLY)
  C07_DEFINE_ALLOCATOR (PAsel, C07_NONE, C07_DECL_ONLY, C07_NONE, C07_DECL_ONLY,
                               C07_NONE, C07_DECL_ONLY, C07_TRAP_CONSTEXPR, C07_SEL_TRAP)

#undef C07_DEFINE_ALLOCATOR
#undef C07_NONE
#undef C07_DECL_ONLY
#undef C07_ASSIGN_TRAP
#undef C07_SWAP_TRAP
#undef C07_EQ_TRAP
#undef C07_SEL_TRAP

  // The oracle's view of the traits: straight from std::allocator_traits, never from the header.
  template <typename A> struct traits_of
  {
    using at = std::allocator_traits<A>;
    static constexpr bool is_std   = std::is_same<A, std::allocator<typename at::value_type>>::value;
    static constexpr bool pocca    = at::propagate_on_container_copy_assignment::value;
    static constexpr bool pocma    = at::propagate_on_container_move_assignment::value;
    static constexpr bool pocs     = at::propagate_on_container_swap::value;
    // `is_always_equal` exists in the library from the feature-test macro on; without it the
    // statement tolerates that it is not consulted (DESIGN R17.2).
#if defined (__cpp_lib_allocator_traits_is_always_equal) \
    && __cpp_lib_allocator_traits_is_always_equal >= 201411L
    static constexpr bool has_iae  = true;
    static constexpr bool iae      = at::is_always_equal::value;
#else
    static constexpr bool has_iae  = false;
    static constexpr bool iae      = false;
#endif
    // README: `operator= (small_vector&&)`, `assign (small_vector&&)`, `swap`
    static constexpr bool move_without_comparing = is_std || pocma || iae;
    static constexpr bool swap_without_comparing = is_std || pocs  || iae;
    // property statement / allocator-aware container rules: only a propagating, not-always-equal
    // allocator can make `*this`'s old storage unusable, so only then are the instances compared
    static constexpr bool copy_compares          = pocca && ! iae;
  };
}

#endif
