// Probe types for C13 / R13.2 (twin agreement over minimal-requirement archetypes, converting
// ranges).  Every user-supplied operation is declared and never defined; the witnesses are
// compiled with -fsyntax-only, nothing is linked or run.
#ifndef VERIF_PROBES_C13_ARCHETYPES_HPP
#define VERIF_PROBES_C13_ARCHETYPES_HPP

#include <gch/small_vector.hpp>

#include <array>
#include <cstddef>
#include <deque>
#include <initializer_list>
#include <iterator>
#include <list>
#include <memory>
#include <type_traits>
#include <utility>
#include <vector>

namespace c13t
{

  // A value of any type, without requiring any constructor (never called).
  template <typename U>
  U
  any (void) noexcept;

  // ---- twins ------------------------------------------------------------------------------
  // Each archetype is written once as a macro; `DEF` is empty for the non-trivial twin
  // (user-provided special members, declared only) and `= default` for the trivially copyable
  // twin, so the two classes have the same members, the same deleted functions and the same
  // exception specifications and differ in triviality only.  `Tag` makes the element type of
  // every witness unique: a diagnostic inside an instantiation shared by two witnesses would
  // otherwise be emitted once only.
#define C13_NOTHING

#define C13_DEFAULT_ONLY(NAME, DEF)                                                            \
  template <int Tag> struct NAME {                                                             \
    int x;                                                                                     \
    NAME (void) noexcept DEF;                                                                  \
    NAME (const NAME&)            = delete;                                                    \
    NAME& operator= (const NAME&) = delete;                                                    \
    ~NAME (void) DEF;                                                                          \
  };

#define C13_MOVE_ONLY(NAME, DEF, NOEX)                                                         \
  template <int Tag> struct NAME {                                                             \
    int x;                                                                                     \
    NAME (NAME&&) NOEX DEF;                                                                    \
    NAME& operator= (NAME&&) NOEX DEF;                                                         \
    ~NAME (void) DEF;                                                                          \
  };

#define C13_MOVE_CONSTRUCT_ONLY(NAME, DEF)                                                     \
  template <int Tag> struct NAME {                                                             \
    int x;                                                                                     \
    NAME (NAME&&) noexcept DEF;                                                                \
    NAME& operator= (NAME&&) = delete;                                                         \
    ~NAME (void) DEF;                                                                          \
  };

#define C13_COPY_CONSTRUCT_ONLY(NAME, DEF)                                                     \
  template <int Tag> struct NAME {                                                             \
    int x;                                                                                     \
    NAME (const NAME&) noexcept DEF;                                                           \
    NAME& operator= (const NAME&) = delete;                                                    \
    ~NAME (void) DEF;                                                                          \
  };

#define C13_DEFAULT_COPY_NO_ASSIGN(NAME, DEF)                                                  \
  template <int Tag> struct NAME {                                                             \
    int x;                                                                                     \
    NAME (void) noexcept DEF;                                                                  \
    NAME (const NAME&) noexcept DEF;                                                           \
    NAME& operator= (const NAME&) = delete;                                                    \
    ~NAME (void) DEF;                                                                          \
  };

#define C13_CONST_MEMBER(NAME, DEF)                                                            \
  template <int Tag> struct NAME {                                                             \
    const int x;                                                                               \
    NAME (const NAME&) noexcept DEF;                                                           \
    ~NAME (void) DEF;                                                                          \
  };

#define C13_DEFAULT_MOVE_ONLY(NAME, DEF, NOEX)                                                 \
  template <int Tag> struct NAME {                                                             \
    int x;                                                                                     \
    NAME (void) noexcept DEF;                                                                  \
    NAME (NAME&&) NOEX DEF;                                                                    \
    NAME& operator= (NAME&&) NOEX DEF;                                                         \
    ~NAME (void) DEF;                                                                          \
  };

#define C13_DEFAULT_MOVE_CONSTRUCT(NAME, DEF)                                                  \
  template <int Tag> struct NAME {                                                             \
    int x;                                                                                     \
    NAME (void) noexcept DEF;                                                                  \
    NAME (NAME&&) noexcept DEF;                                                                \
    NAME& operator= (NAME&&) = delete;                                                         \
    ~NAME (void) DEF;                                                                          \
  };

#define C13_COPY_ONLY(NAME, DEF)                                                               \
  template <int Tag> struct NAME {                                                             \
    int x;                                                                                     \
    NAME (const NAME&) noexcept DEF;                                                           \
    NAME& operator= (const NAME&) noexcept DEF;                                                \
    ~NAME (void) DEF;                                                                          \
  };

#define C13_REGULAR(NAME, DEF, NOEX)                                                           \
  template <int Tag> struct NAME {                                                             \
    int x;                                                                                     \
    NAME (void) noexcept DEF;                                                                  \
    NAME (const NAME&) noexcept DEF;                                                           \
    NAME (NAME&&) NOEX DEF;                                                                    \
    NAME& operator= (const NAME&) noexcept DEF;                                                \
    NAME& operator= (NAME&&) NOEX DEF;                                                         \
    ~NAME (void) DEF;                                                                          \
  };

  C13_DEFAULT_ONLY           (default_only_nt,            C13_NOTHING)
  C13_DEFAULT_ONLY           (default_only_tr,            = default)
  C13_MOVE_ONLY              (move_only_nt,               C13_NOTHING, noexcept)
  C13_MOVE_ONLY              (move_only_tr,               = default,   noexcept)
  C13_MOVE_ONLY              (move_only_throwing_nt,      C13_NOTHING, noexcept (false))
  C13_MOVE_ONLY              (move_only_throwing_tr,      = default,   noexcept (false))
  C13_MOVE_CONSTRUCT_ONLY    (move_construct_only_nt,     C13_NOTHING)
  C13_MOVE_CONSTRUCT_ONLY    (move_construct_only_tr,     = default)
  C13_COPY_CONSTRUCT_ONLY    (copy_construct_only_nt,     C13_NOTHING)
  C13_COPY_CONSTRUCT_ONLY    (copy_construct_only_tr,     = default)
  C13_DEFAULT_COPY_NO_ASSIGN (default_copy_no_assign_nt,  C13_NOTHING)
  C13_DEFAULT_COPY_NO_ASSIGN (default_copy_no_assign_tr,  = default)
  C13_CONST_MEMBER           (const_member_nt,            C13_NOTHING)
  C13_CONST_MEMBER           (const_member_tr,            = default)
  C13_DEFAULT_MOVE_ONLY      (default_move_only_nt,       C13_NOTHING, noexcept)
  C13_DEFAULT_MOVE_ONLY      (default_move_only_tr,       = default,   noexcept)
  C13_DEFAULT_MOVE_ONLY      (default_move_only_throwing_nt, C13_NOTHING, noexcept (false))
  C13_DEFAULT_MOVE_ONLY      (default_move_only_throwing_tr, = default,   noexcept (false))
  C13_DEFAULT_MOVE_CONSTRUCT (default_move_construct_nt,  C13_NOTHING)
  C13_DEFAULT_MOVE_CONSTRUCT (default_move_construct_tr,  = default)
  C13_COPY_ONLY              (copy_only_nt,               C13_NOTHING)
  C13_COPY_ONLY              (copy_only_tr,               = default)
  C13_REGULAR                (regular_nt,                 C13_NOTHING, noexcept)
  C13_REGULAR                (regular_tr,                 = default,   noexcept)
  C13_REGULAR                (regular_throwing_move_nt,   C13_NOTHING, noexcept (false))
  C13_REGULAR                (regular_throwing_move_tr,   = default,   noexcept (false))

  // ---- opaque iterators -------------------------------------------------------------------
  template <typename T>
  struct input_it
  {
    using iterator_category = std::input_iterator_tag;
    using value_type        = T;
    using difference_type   = std::ptrdiff_t;
    using pointer           = T *;
    using reference         = T&;
    reference operator* (void) const;
    input_it& operator++ (void);
    input_it operator++ (int);
    friend bool operator== (const input_it&, const input_it&);
    friend bool operator!= (const input_it&, const input_it&);
  };

  template <typename T>
  struct forward_it
  {
    using iterator_category = std::forward_iterator_tag;
    using value_type        = T;
    using difference_type   = std::ptrdiff_t;
    using pointer           = T *;
    using reference         = T&;
    forward_it (void);
    reference operator* (void) const;
    forward_it& operator++ (void);
    forward_it operator++ (int);
    friend bool operator== (const forward_it&, const forward_it&);
    friend bool operator!= (const forward_it&, const forward_it&);
  };

  // ---- converting ranges --------------------------------------------------------------------
  // Minimal allocator without construct/destroy members (so the header's byte-copy paths are armed
  // exactly as for std::allocator); `Tag` makes allocator_interface<TA<T, Tag>> unique per witness.
  template <typename T, int Tag>
  struct TA
  {
    using value_type = T;
    TA (void) = default;
    template <typename U> TA (const TA<U, Tag>&) noexcept { }
    template <typename U> struct rebind { using other = TA<U, Tag>; };
    T *allocate (std::size_t);
    void deallocate (T *, std::size_t) noexcept;
  };

  template <typename T, typename U, int Tag>
  bool
  operator== (const TA<T, Tag>&, const TA<U, Tag>&) noexcept { return true; }

  template <typename T, typename U, int Tag>
  bool
  operator!= (const TA<T, Tag>&, const TA<U, Tag>&) noexcept { return false; }

  enum UE_int : int { ue_int_a };
  struct B1 { int a; };
  struct B2 { int b; };
  struct D : B1, B2 { int c; };
  struct NTI { int x; NTI (int); NTI (const NTI&); NTI& operator= (const NTI&); NTI& operator= (int); ~NTI (); };
  struct TRI { int x; TRI (int); TRI& operator= (int); };   // trivially copyable, converting from int

}

#endif
