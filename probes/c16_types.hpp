// Operand types for R16.4 (existence / unambiguity / result types of the comparison operators and
// the non-member functions).  Everything is declared and never defined; nothing is linked or run.
#ifndef C16_TYPES_HPP
#define C16_TYPES_HPP

#include <cstddef>
#include <cstdint>
#include <iterator>
#include <memory>
#include <type_traits>
#include <utility>

#if defined (__cpp_impl_three_way_comparison) && __cpp_impl_three_way_comparison >= 201907L
#  if defined (__has_include)
#    if __has_include (<compare>)
#      include <compare>
#    endif
#  endif
#endif

// What the oracle may expect (the statement's availability items, from the standard's macros).
#if defined (__cpp_impl_three_way_comparison) && __cpp_impl_three_way_comparison >= 201907L \
    && defined (__cpp_lib_three_way_comparison) && __cpp_lib_three_way_comparison >= 201907L
#  define C16_THREE_WAY 1
#else
#  define C16_THREE_WAY 0
#endif

#if defined (__cpp_deduction_guides) && __cpp_deduction_guides >= 201703L
#  define C16_CTAD 1
#else
#  define C16_CTAD 0
#endif

namespace c16
{
  // ------------------------------------------------------------------ comparison flavours
  // only `==` and `<`
  struct EqLt { int v; };
  bool operator== (const EqLt&, const EqLt&);
  bool operator<  (const EqLt&, const EqLt&);

#if C16_THREE_WAY
  // defaulted three-way comparison (and with it a defaulted ==)
  struct Spaceship
  {
    int v;
    friend auto operator<=> (const Spaceship&, const Spaceship&) = default;
  };
#endif

  // ------------------------------------------------------------------ swap flavours
  // NT: nothrow move construction / assignment / swap
  struct NT
  {
    NT ();
    NT (const NT&);
    NT (NT&&) noexcept;
    NT& operator= (const NT&);
    NT& operator= (NT&&) noexcept;
    ~NT ();
  };
  void swap (NT&, NT&) noexcept;

  // TH: all three may throw
  struct TH
  {
    TH ();
    TH (const TH&);
    TH (TH&&) noexcept (false);
    TH& operator= (const TH&);
    TH& operator= (TH&&) noexcept (false);
    ~TH ();
  };
  void swap (TH&, TH&) noexcept (false);

  // NoMove: neither copy- nor move-constructible (hence not MoveInsertable, not Swappable)
  struct NoMove
  {
    NoMove ();
    NoMove (const NoMove&) = delete;
    NoMove (NoMove&&) = delete;
    NoMove& operator= (const NoMove&) = delete;
    NoMove& operator= (NoMove&&) = delete;
    ~NoMove ();
  };

  // NoAssign: move-constructible, not assignable, no swap of its own (hence not Swappable)
  struct NoAssign
  {
    NoAssign ();
    NoAssign (const NoAssign&);
    NoAssign (NoAssign&&) noexcept;
    NoAssign& operator= (const NoAssign&) = delete;
    NoAssign& operator= (NoAssign&&) = delete;
    ~NoAssign ();
  };

  // ------------------------------------------------------------------ allocator
  // A minimal allocator outside namespace std (so that ADL on small_vector<T, N, SA<..>> cannot
  // reach std::swap / std::begin / ...) with a selectable size_type.
  template <typename T, typename SizeT = std::size_t>
  struct SA
  {
    using value_type = T;
    using size_type = SizeT;
    using difference_type = std::ptrdiff_t;
    template <typename U> struct rebind { using other = SA<U, SizeT>; };
    SA () noexcept;
    SA (const SA&) noexcept;
    template <typename U> SA (const SA<U, SizeT>&) noexcept;
    T *allocate (std::size_t);
    void deallocate (T *, std::size_t) noexcept;
  };
  template <typename T, typename U, typename S>
  bool operator== (const SA<T, S>&, const SA<U, S>&) noexcept;
  template <typename T, typename U, typename S>
  bool operator!= (const SA<T, S>&, const SA<U, S>&) noexcept;

  // ------------------------------------------------------------------ helpers
  struct Pred { bool operator() (int) const; };

  // a value that is comparable with int but not convertible to it: std::erase (c, const U&) takes
  // any U for which `element == value` is valid
  struct Key { };
  bool operator== (int, const Key&);
  bool operator== (const Key&, int);

  // forward iterator over `long` for CTAD
  struct FwdLong
  {
    using iterator_category = std::forward_iterator_tag;
    using value_type = long;
    using difference_type = std::ptrdiff_t;
    using pointer = const long *;
    using reference = const long&;
    FwdLong ();
    FwdLong (const FwdLong&);
    FwdLong& operator= (const FwdLong&);
    reference operator* () const;
    pointer operator-> () const;
    FwdLong& operator++ ();
    FwdLong operator++ (int);
  };
  bool operator== (const FwdLong&, const FwdLong&);
  bool operator!= (const FwdLong&, const FwdLong&);

  // detection idiom (C++11)
  template <typename...> struct voider { using type = void; };
}

#endif
