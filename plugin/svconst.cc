// svconst — clang 14 frontend plugin: constant-evaluation hygiene facts (DESIGN section 6, C08).
//
// For every *instantiated* function definition located in gch/small_vector.hpp (and for every
// function definition of the main file, which is where probe drivers and canaries live) it emits
// one JSON record with
//   * identity: qualified name, Itanium mangled name, template arguments, line range, constexpr,
//     noreturn, kind (function/method/ctor/dtor/lambda), enclosing class;
//   * "nc": the non-constant constructs in the body (libc calls memcpy/memmove/memset/fprintf/
//     abort, placement new, explicit casts from (cv) void* to an object pointer, reinterpret_cast,
//     calls to non-constexpr functions that are not defined in the header), each with
//       ce      — reachable when std::is_constant_evaluated () is true,
//       exempt  — "throw" when it is (part of) the operand of a throw-expression;
//   * "calls": every direct callee (explicit calls, constructors, implicit destructors of locals
//     and temporaries, base/member destructors, lambda call operators, and header functions that
//     are reached *through* a non-header callee such as std::copy), each call site with ce /
//     ce_only / exempt / in_catch, the if-arms enclosing it and a structural description of the
//     arguments (casts, parentheses and implicit nodes stripped);
//   * "assigns" / "stores": assignments to locals and to data members (structural right-hand sides);
//   * "guards": the `if (std::is_constant_evaluated ())` statements with their shape;
//   * "ce_literal": the literal a call folds to under constant evaluation when the body starts
//     with `if (std::is_constant_evaluated ()) return <bool literal>;` (computed from the AST).
//
// Reachability under constant evaluation (R08.1): inside a compound statement everything after a
// statement that terminates whenever is_constant_evaluated () is true is unreachable; the arm of
// an `if` whose condition folds to the other value is unreachable; `if constexpr` contributes only
// its non-discarded arm.  A condition folds when it is is_constant_evaluated (), a call to a
// function with a "ce_literal", a bool literal, or !, &&, || over those.
//
// Usage:
//   clang++ -std=c++20 -fsyntax-only -fplugin=svconst.so \
//           -Xclang -plugin-arg-svconst -Xclang out=FILE  tu.cpp
// The plugin only reads the AST; nothing of the library is executed.

#include "clang/AST/ASTConsumer.h"
#include "clang/AST/ASTContext.h"
#include "clang/AST/DeclCXX.h"
#include "clang/AST/DeclTemplate.h"
#include "clang/AST/ExprCXX.h"
#include "clang/AST/ExprConcepts.h"
#include "clang/AST/Mangle.h"
#include "clang/AST/RecursiveASTVisitor.h"
#include "clang/AST/StmtCXX.h"
#include "clang/Basic/Builtins.h"
#include "clang/Basic/SourceManager.h"
#include "clang/Frontend/CompilerInstance.h"
#include "clang/Frontend/FrontendPluginRegistry.h"
#include "llvm/ADT/DenseMap.h"
#include "llvm/ADT/DenseSet.h"
#include "llvm/ADT/StringExtras.h"
#include "llvm/Support/FileSystem.h"
#include "llvm/Support/raw_ostream.h"

#include <map>
#include <memory>
#include <set>
#include <string>
#include <vector>

using namespace clang;

namespace
{

  enum Tri { TFalse = 0, TTrue = 1, TUnknown = 2 };

  static Tri triNot (Tri t) { return t == TUnknown ? TUnknown : (t == TTrue ? TFalse : TTrue); }

  static std::string jstr (llvm::StringRef s)
  {
    std::string o = "\"";
    for (unsigned char c : s)
    {
      switch (c)
      {
        case '"':  o += "\\\""; break;
        case '\\': o += "\\\\"; break;
        case '\n': o += "\\n"; break;
        case '\t': o += "\\t"; break;
        case '\r': o += "\\r"; break;
        default:
          if (c < 0x20)
          {
            char b[8];
            snprintf (b, sizeof b, "\\u%04x", c);
            o += b;
          }
          else
            o += static_cast<char> (c);
      }
    }
    o += "\"";
    return o;
  }

  struct WalkCtx
  {
    bool ce = true;        // reachable when is_constant_evaluated () is true
    bool ceOnly = false;   // reachable only when is_constant_evaluated () is true
    bool inThrow = false;  // inside the operand of a throw-expression
    bool inCatch = false;  // inside a catch handler
    std::vector<std::pair<int, int>> arms;  // (if id, 0 = then / 1 = else) enclosing the point
  };

  struct FnOut
  {
    std::string head;   // identity fields (JSON fragment, no braces)
    std::vector<std::string> nc, calls, assigns, stores, guards;
    int ceLiteral = -1;
  };

  class Engine
  {
  public:
    Engine (ASTContext& ctx)
      : Ctx (ctx),
        SM (ctx.getSourceManager ()),
        MC (ctx.createMangleContext ()),
        PP (ctx.getLangOpts ())
    {
      PP.SuppressTagKeyword = true;
      PP.Bool = true;
    }

    ASTContext& Ctx;
    SourceManager& SM;
    std::unique_ptr<MangleContext> MC;
    PrintingPolicy PP;

    std::vector<const FunctionDecl *> Order;
    llvm::DenseSet<const FunctionDecl *> Seen;
    std::vector<const FunctionDecl *> Work;
    llvm::DenseMap<const FunctionDecl *, int> LiteralMemo;
    std::map<const FunctionDecl *, std::vector<const FunctionDecl *>> ThroughMemo;
    std::set<const FunctionDecl *> ThroughBusy;

    // ---- per-function state while walking
    FnOut *Out = nullptr;
    const FunctionDecl *Cur = nullptr;
    llvm::DenseMap<const VarDecl *, int> LocalIds;
    llvm::DenseMap<const CallExpr *, int> CallIds;
    llvm::DenseMap<const Expr *, int> CtorIds;
    int NextIf = 0, NextOrd = 0;

    // ------------------------------------------------------------------------------------------
    // locations

    std::string fileOf (SourceLocation L) const
    {
      if (L.isInvalid ())
        return "";
      PresumedLoc P = SM.getPresumedLoc (SM.getExpansionLoc (L));
      if (P.isInvalid ())
        return "";
      return P.getFilename ();
    }

    unsigned lineOf (SourceLocation L) const
    {
      if (L.isInvalid ())
        return 0;
      PresumedLoc P = SM.getPresumedLoc (SM.getExpansionLoc (L));
      return P.isInvalid () ? 0 : P.getLine ();
    }

    unsigned colOf (SourceLocation L) const
    {
      if (L.isInvalid ())
        return 0;
      PresumedLoc P = SM.getPresumedLoc (SM.getExpansionLoc (L));
      return P.isInvalid () ? 0 : P.getColumn ();
    }

    bool inHeader (SourceLocation L) const
    {
      const std::string f = fileOf (L);
      return llvm::StringRef (f).endswith ("gch/small_vector.hpp");
    }

    bool inMain (SourceLocation L) const
    {
      return L.isValid () && SM.isInMainFile (SM.getExpansionLoc (L));
    }

    bool inHeader (const FunctionDecl *FD) const { return inHeader (FD->getLocation ()); }
    bool inMain (const FunctionDecl *FD) const { return inMain (FD->getLocation ()); }
    bool ours (const FunctionDecl *FD) const { return inHeader (FD) || inMain (FD); }

    // ------------------------------------------------------------------------------------------
    // names

    std::string qualName (const NamedDecl *D) const
    {
      std::string s;
      llvm::raw_string_ostream os (s);
      D->printQualifiedName (os, PP);
      return os.str ();
    }

    std::string mangled (const FunctionDecl *FD) const
    {
      std::string s;
      llvm::raw_string_ostream os (s);
      if (FD->isDependentContext ())
        return qualName (FD);
      if (const auto *CD = dyn_cast<CXXConstructorDecl> (FD))
        MC->mangleName (GlobalDecl (CD, Ctor_Base), os);
      else if (const auto *DD = dyn_cast<CXXDestructorDecl> (FD))
        MC->mangleName (GlobalDecl (DD, Dtor_Base), os);
      else if (MC->shouldMangleDeclName (FD))
        MC->mangleName (GlobalDecl (FD), os);
      else
        os << FD->getNameAsString ();
      return os.str ();
    }

    std::string targs (const FunctionDecl *FD) const
    {
      std::string s;
      llvm::raw_string_ostream os (s);
      if (const TemplateArgumentList *L = FD->getTemplateSpecializationArgs ())
        printTemplateArgumentList (os, L->asArray (), PP);
      return os.str ();
    }

    std::string classOf (const FunctionDecl *FD) const
    {
      if (const auto *MD = dyn_cast<CXXMethodDecl> (FD))
      {
        std::string s;
        llvm::raw_string_ostream os (s);
        MD->getParent ()->getNameForDiagnostic (os, PP, true);
        return os.str ();
      }
      return "";
    }

    // ------------------------------------------------------------------------------------------
    // expression helpers

    static const Expr *strip (const Expr *E)
    {
      while (E)
      {
        // (not Expr::IgnoreParenImpCasts: that one also looks through the template-parameter
        // substitution node, which is exactly what R08.2 compares)
        if (const auto *X = dyn_cast<ParenExpr> (E)) { E = X->getSubExpr (); continue; }
        if (const auto *X = dyn_cast<ImplicitCastExpr> (E)) { E = X->getSubExpr (); continue; }
        if (const auto *X = dyn_cast<FullExpr> (E)) { E = X->getSubExpr (); continue; }
        if (const auto *X = dyn_cast<MaterializeTemporaryExpr> (E)) { E = X->getSubExpr (); continue; }
        if (const auto *X = dyn_cast<CXXBindTemporaryExpr> (E)) { E = X->getSubExpr (); continue; }
        if (const auto *X = dyn_cast<ExplicitCastExpr> (E)) { E = X->getSubExpr (); continue; }
        if (const auto *X = dyn_cast<CXXDefaultArgExpr> (E)) { E = X->getExpr (); continue; }
        if (const auto *X = dyn_cast<CXXConstructExpr> (E))
        {
          // elidable / copy-or-move construction from a single argument: look through
          if (X->getNumArgs () == 1 && X->getConstructor ()->isCopyOrMoveConstructor ())
          {
            E = X->getArg (0);
            continue;
          }
        }
        break;
      }
      return E;
    }

    static bool isICECall (const Expr *E)
    {
      const auto *CE = dyn_cast_or_null<CallExpr> (E);
      if (! CE)
        return false;
      const FunctionDecl *FD = CE->getDirectCallee ();
      if (! FD)
        return false;
      if (FD->getBuiltinID () == Builtin::BI__builtin_is_constant_evaluated)
        return true;
      if (FD->getDeclName ().isIdentifier () && FD->getName () == "is_constant_evaluated"
          && FD->isInStdNamespace ())
        return true;
      return false;
    }

    // Does the condition mention is_constant_evaluated () directly (possibly under !, &&, ||)?
    static bool mentionsICE (const Expr *E)
    {
      E = strip (E);
      if (! E)
        return false;
      if (isICECall (E))
        return true;
      if (const auto *U = dyn_cast<UnaryOperator> (E))
        return U->getOpcode () == UO_LNot && mentionsICE (U->getSubExpr ());
      if (const auto *B = dyn_cast<BinaryOperator> (E))
        return (B->getOpcode () == BO_LAnd || B->getOpcode () == BO_LOr)
            && (mentionsICE (B->getLHS ()) || mentionsICE (B->getRHS ()));
      return false;
    }

    // The literal a call to FD folds to under constant evaluation: the body's first statement is
    // `if (std::is_constant_evaluated ()) return <bool literal>;`.  -1 when there is none.
    int ceLiteralOf (const FunctionDecl *FD)
    {
      const FunctionDecl *Def = nullptr;
      if (! FD || ! FD->hasBody (Def) || ! Def)
        return -1;
      auto it = LiteralMemo.find (Def);
      if (it != LiteralMemo.end ())
        return it->second;
      int r = -1;
      if (const auto *CS = dyn_cast_or_null<CompoundStmt> (Def->getBody ()))
      {
        if (! CS->body_empty ())
        {
          if (const auto *IS = dyn_cast<IfStmt> (CS->body_front ()))
          {
            if (! IS->isConstexpr () && ! IS->getInit () && ! IS->getConditionVariable ()
                && isICECall (strip (IS->getCond ())))
            {
              const Stmt *T = IS->getThen ();
              while (const auto *TC = dyn_cast_or_null<CompoundStmt> (T))
                T = TC->size () == 1 ? TC->body_front () : nullptr;
              if (const auto *RS = dyn_cast_or_null<ReturnStmt> (T))
                if (const auto *BL = dyn_cast_or_null<CXXBoolLiteralExpr> (strip (RS->getRetValue ())))
                  r = BL->getValue () ? 1 : 0;
            }
          }
        }
      }
      LiteralMemo[Def] = r;
      return r;
    }

    Tri ceVal (const Expr *E)
    {
      E = strip (E);
      if (! E)
        return TUnknown;
      if (isICECall (E))
        return TTrue;
      if (const auto *BL = dyn_cast<CXXBoolLiteralExpr> (E))
        return BL->getValue () ? TTrue : TFalse;
      if (const auto *U = dyn_cast<UnaryOperator> (E))
      {
        if (U->getOpcode () == UO_LNot)
          return triNot (ceVal (U->getSubExpr ()));
        return TUnknown;
      }
      if (const auto *B = dyn_cast<BinaryOperator> (E))
      {
        if (B->getOpcode () == BO_LAnd)
        {
          Tri l = ceVal (B->getLHS ()), r = ceVal (B->getRHS ());
          if (l == TFalse || r == TFalse) return TFalse;
          if (l == TTrue && r == TTrue) return TTrue;
          return TUnknown;
        }
        if (B->getOpcode () == BO_LOr)
        {
          Tri l = ceVal (B->getLHS ()), r = ceVal (B->getRHS ());
          if (l == TTrue || r == TTrue) return TTrue;
          if (l == TFalse && r == TFalse) return TFalse;
          return TUnknown;
        }
        return TUnknown;
      }
      if (const auto *CE = dyn_cast<CallExpr> (E))
      {
        int lit = ceLiteralOf (CE->getDirectCallee ());
        if (lit >= 0)
          return lit ? TTrue : TFalse;
      }
      return TUnknown;
    }

    static bool callIsNoReturn (const Stmt *S)
    {
      const auto *E = dyn_cast_or_null<Expr> (S);
      if (! E)
        return false;
      const auto *CE = dyn_cast_or_null<CallExpr> (strip (E));
      if (! CE)
        return false;
      const FunctionDecl *FD = CE->getDirectCallee ();
      return FD && FD->isNoReturn ();
    }

    // every path through S ends in return / throw / a noreturn call
    bool alwaysTerminates (const Stmt *S)
    {
      if (! S)
        return false;
      if (isa<ReturnStmt> (S))
        return true;
      if (const auto *E = dyn_cast<Expr> (S))
      {
        if (isa<CXXThrowExpr> (strip (E)))
          return true;
        return callIsNoReturn (S);
      }
      if (const auto *A = dyn_cast<AttributedStmt> (S))
        return alwaysTerminates (A->getSubStmt ());
      if (const auto *CS = dyn_cast<CompoundStmt> (S))
      {
        for (const Stmt *C : CS->body ())
          if (alwaysTerminates (C))
            return true;
        return false;
      }
      if (const auto *IS = dyn_cast<IfStmt> (S))
      {
        if (IS->isConstexpr ())
        {
          if (auto nd = IS->getNondiscardedCase (Ctx))
            return *nd && alwaysTerminates (*nd);
        }
        return IS->getElse () && alwaysTerminates (IS->getThen ()) && alwaysTerminates (IS->getElse ());
      }
      return false;
    }

    // every path through S taken when is_constant_evaluated () is true ends in return / throw
    bool ceTerminates (const Stmt *S)
    {
      if (! S)
        return false;
      if (alwaysTerminates (S))
        return true;
      if (const auto *A = dyn_cast<AttributedStmt> (S))
        return ceTerminates (A->getSubStmt ());
      if (const auto *CS = dyn_cast<CompoundStmt> (S))
      {
        for (const Stmt *C : CS->body ())
          if (ceTerminates (C))
            return true;
        return false;
      }
      if (const auto *IS = dyn_cast<IfStmt> (S))
      {
        if (IS->isConstexpr ())
        {
          if (auto nd = IS->getNondiscardedCase (Ctx))
            return *nd && ceTerminates (*nd);
          return IS->getElse () && ceTerminates (IS->getThen ()) && ceTerminates (IS->getElse ());
        }
        Tri t = ceVal (IS->getCond ());
        if (t == TTrue)
          return ceTerminates (IS->getThen ());
        if (t == TFalse)
          return IS->getElse () && ceTerminates (IS->getElse ());
        return IS->getElse () && ceTerminates (IS->getThen ()) && ceTerminates (IS->getElse ());
      }
      return false;
    }

    // every path through S taken when is_constant_evaluated () is *false* ends in return / throw,
    // decided only for the guard idioms: `if (! guard) { ...; return; }` and
    // `if (guard) ... else { ...; return; }` (what follows runs only under constant evaluation)
    bool runtimeTerminates (const Stmt *S)
    {
      const auto *IS = dyn_cast_or_null<IfStmt> (S);
      if (! IS || IS->isConstexpr () || ! mentionsICE (IS->getCond ()))
        return false;
      Tri t = ceVal (IS->getCond ());
      if (t == TFalse)
        return alwaysTerminates (IS->getThen ());
      if (t == TTrue)
        return IS->getElse () && alwaysTerminates (IS->getElse ());
      return false;
    }

    // ------------------------------------------------------------------------------------------
    // structural expression descriptions (casts / parentheses / implicit nodes stripped)

    int localId (const VarDecl *VD)
    {
      auto it = LocalIds.find (VD);
      if (it != LocalIds.end ())
        return it->second;
      int id = static_cast<int> (LocalIds.size ());
      LocalIds[VD] = id;
      return id;
    }

    std::string typeStr (QualType T) const
    {
      return T.getCanonicalType ().getAsString (PP);
    }

    std::string xdesc (const Expr *E, int depth = 0)
    {
      E = strip (E);
      if (! E)
        return "{\"k\":\"none\"}";
      if (depth > 6)
        return "{\"k\":\"deep\"}";
      if (const auto *S = dyn_cast<SubstNonTypeTemplateParmExpr> (E))
      {
        const NonTypeTemplateParmDecl *P = S->getParameter ();
        std::string val;
        Expr::EvalResult R;
        if (! S->getReplacement ()->isValueDependent ()
            && S->getReplacement ()->EvaluateAsInt (R, Ctx))
          val = llvm::toString (R.Val.getInt (), 10);
        return "{\"k\":\"tparm\",\"name\":" + jstr (P->getName ()) + ",\"depth\":"
             + std::to_string (P->getDepth ()) + ",\"index\":" + std::to_string (P->getIndex ())
             + ",\"val\":" + jstr (val) + "}";
      }
      if (const auto *D = dyn_cast<DeclRefExpr> (E))
      {
        const ValueDecl *VD = D->getDecl ();
        if (const auto *PV = dyn_cast<ParmVarDecl> (VD))
        {
          if (PV->getDeclContext () == Cur)
            return "{\"k\":\"param\",\"i\":" + std::to_string (PV->getFunctionScopeIndex ())
                 + ",\"name\":" + jstr (PV->getName ()) + "}";
        }
        if (const auto *V = dyn_cast<VarDecl> (VD))
        {
          if (V->isLocalVarDecl ())
            return "{\"k\":\"local\",\"id\":" + std::to_string (localId (V)) + ",\"name\":"
                 + jstr (V->getName ()) + "}";
        }
        return "{\"k\":\"ref\",\"name\":" + jstr (qualName (VD)) + "}";
      }
      if (isa<CXXThisExpr> (E))
        return "{\"k\":\"this\"}";
      if (const auto *M = dyn_cast<MemberExpr> (E))
      {
        if (isa<FieldDecl> (M->getMemberDecl ()))
          return "{\"k\":\"member\",\"name\":" + jstr (M->getMemberDecl ()->getName ())
               + ",\"base\":" + xdesc (M->getBase (), depth + 1) + "}";
        return "{\"k\":\"memberfn\",\"name\":" + jstr (qualName (M->getMemberDecl ())) + "}";
      }
      if (const auto *I = dyn_cast<IntegerLiteral> (E))
        return "{\"k\":\"int\",\"v\":" + jstr (llvm::toString (I->getValue (), 10, false)) + "}";
      if (const auto *B = dyn_cast<CXXBoolLiteralExpr> (E))
        return std::string ("{\"k\":\"bool\",\"v\":") + (B->getValue () ? "true" : "false") + "}";
      if (isa<CXXNullPtrLiteralExpr> (E))
        return "{\"k\":\"nullptr\"}";
      if (const auto *U = dyn_cast<UnaryExprOrTypeTraitExpr> (E))
      {
        std::string kind = U->getKind () == UETT_SizeOf ? "sizeof"
                         : U->getKind () == UETT_AlignOf ? "alignof" : "uett";
        QualType T = U->isArgumentType () ? U->getArgumentType () : U->getArgumentExpr ()->getType ();
        return "{\"k\":" + jstr (kind) + ",\"type\":" + jstr (typeStr (T)) + "}";
      }
      if (const auto *U = dyn_cast<UnaryOperator> (E))
        return "{\"k\":\"un\",\"op\":" + jstr (UnaryOperator::getOpcodeStr (U->getOpcode ()))
             + ",\"e\":" + xdesc (U->getSubExpr (), depth + 1) + "}";
      if (const auto *B = dyn_cast<BinaryOperator> (E))
        return "{\"k\":\"bin\",\"op\":" + jstr (B->getOpcodeStr ()) + ",\"l\":"
             + xdesc (B->getLHS (), depth + 1) + ",\"r\":" + xdesc (B->getRHS (), depth + 1) + "}";
      if (const auto *CE = dyn_cast<CallExpr> (E))
      {
        const FunctionDecl *FD = CE->getDirectCallee ();
        std::string s = "{\"k\":\"call\",\"callee\":" + jstr (FD ? mangled (FD) : "")
                      + ",\"name\":" + jstr (FD ? qualName (FD) : "");
        auto it = CallIds.find (CE);
        if (it != CallIds.end ())
          s += ",\"id\":" + std::to_string (it->second);
        else
        {
          // not walked yet: reserve the id now so that the record and the reference agree
          int id = NextOrd++;
          CallIds[CE] = id;
          s += ",\"id\":" + std::to_string (id);
        }
        if (const auto *MC2 = dyn_cast<CXXMemberCallExpr> (CE))
          s += ",\"obj\":" + xdesc (MC2->getImplicitObjectArgument (), depth + 1);
        s += ",\"args\":[";
        unsigned first = (isa<CXXOperatorCallExpr> (CE) && FD && isa<CXXMethodDecl> (FD)
                          && ! cast<CXXMethodDecl> (FD)->isStatic ()) ? 1 : 0;
        for (unsigned i = first; i < CE->getNumArgs (); ++i)
        {
          if (i != first)
            s += ",";
          s += xdesc (CE->getArg (i), depth + 1);
        }
        s += "]}";
        return s;
      }
      if (const auto *C = dyn_cast<CXXConstructExpr> (E))
      {
        std::string s = "{\"k\":\"construct\",\"type\":" + jstr (typeStr (C->getType ())) + ",\"args\":[";
        for (unsigned i = 0; i < C->getNumArgs (); ++i)
        {
          if (i)
            s += ",";
          s += xdesc (C->getArg (i), depth + 1);
        }
        s += "]}";
        return s;
      }
      return "{\"k\":\"other\",\"cls\":" + jstr (E->getStmtClassName ()) + "}";
    }

    // ------------------------------------------------------------------------------------------
    // header functions reached through a non-header callee (std::copy → iterator operators, …)

    struct CalleeCollector : RecursiveASTVisitor<CalleeCollector>
    {
      std::vector<const FunctionDecl *> Found;
      bool VisitCallExpr (CallExpr *CE)
      {
        if (const FunctionDecl *FD = CE->getDirectCallee ())
          Found.push_back (FD);
        return true;
      }
      bool VisitCXXConstructExpr (CXXConstructExpr *C)
      {
        Found.push_back (C->getConstructor ());
        return true;
      }
      bool VisitCXXBindTemporaryExpr (CXXBindTemporaryExpr *B)
      {
        if (const CXXDestructorDecl *D = B->getTemporary ()->getDestructor ())
          Found.push_back (D);
        return true;
      }
    };

    const std::vector<const FunctionDecl *>& through (const FunctionDecl *FD)
    {
      static const std::vector<const FunctionDecl *> Empty;
      const FunctionDecl *Def = nullptr;
      if (! FD->hasBody (Def) || ! Def || Def->isDependentContext ())
        return Empty;
      auto it = ThroughMemo.find (Def);
      if (it != ThroughMemo.end ())
        return it->second;
      if (ThroughBusy.count (Def))
        return Empty;
      ThroughBusy.insert (Def);
      CalleeCollector CC;
      CC.TraverseStmt (Def->getBody ());
      if (const auto *CD = dyn_cast<CXXConstructorDecl> (Def))
        for (const CXXCtorInitializer *I : CD->inits ())
          CC.TraverseStmt (I->getInit ());
      std::set<const FunctionDecl *> acc;
      for (const FunctionDecl *C : CC.Found)
      {
        if (ours (C))
        {
          const FunctionDecl *CDf = nullptr;
          acc.insert (C->hasBody (CDf) && CDf ? CDf : C);
        }
        else
          for (const FunctionDecl *T : through (C))
            acc.insert (T);
      }
      ThroughBusy.erase (Def);
      auto& slot = ThroughMemo[Def];
      slot.assign (acc.begin (), acc.end ());
      return slot;
    }

    // ------------------------------------------------------------------------------------------
    // emission of constructs

    std::string ctxJson (const WalkCtx& c) const
    {
      std::string s = std::string (",\"ce\":") + (c.ce ? "true" : "false") + ",\"ce_only\":"
                    + (c.ceOnly ? "true" : "false") + ",\"exempt\":"
                    + (c.inThrow ? "\"throw\"" : "null") + ",\"in_catch\":"
                    + (c.inCatch ? "true" : "false") + ",\"arms\":[";
      for (size_t i = 0; i < c.arms.size (); ++i)
      {
        if (i)
          s += ",";
        s += "[" + std::to_string (c.arms[i].first) + "," + std::to_string (c.arms[i].second) + "]";
      }
      s += "]";
      return s;
    }

    void emitNC (llvm::StringRef kind, llvm::StringRef what, SourceLocation L, const WalkCtx& c)
    {
      Out->nc.push_back ("{\"kind\":" + jstr (kind) + ",\"what\":" + jstr (what) + ",\"file\":"
                         + jstr (fileOf (L)) + ",\"line\":" + std::to_string (lineOf (L))
                         + ",\"col\":" + std::to_string (colOf (L)) + ctxJson (c) + "}");
    }

    void noteCallee (const FunctionDecl *FD)
    {
      const FunctionDecl *Def = nullptr;
      if (FD->hasBody (Def) && Def && ours (Def) && ! Def->isDependentContext ())
        if (Seen.insert (Def).second)
          Work.push_back (Def);
    }

    static bool trivialSpecial (const FunctionDecl *FD)
    {
      if (const auto *MD = dyn_cast<CXXMethodDecl> (FD))
        return MD->isTrivial ();
      return false;
    }

    // One call edge.  `how` says what kind of site it is.
    void emitCall (const FunctionDecl *FD, llvm::StringRef how, SourceLocation L, const WalkCtx& c,
                   int id, const std::string& args, const std::string& obj, llvm::StringRef via)
    {
      const FunctionDecl *Def = nullptr;
      bool hasBody = FD->hasBody (Def) && Def;
      const FunctionDecl *T = hasBody ? Def : FD;
      noteCallee (FD);
      std::string s = "{\"callee\":" + jstr (mangled (T)) + ",\"name\":" + jstr (qualName (T))
                    + ",\"how\":" + jstr (how) + ",\"id\":" + std::to_string (id)
                    + ",\"file\":" + jstr (fileOf (L)) + ",\"line\":" + std::to_string (lineOf (L))
                    + ",\"in_header\":" + (inHeader (T) ? "true" : "false")
                    + ",\"in_main\":" + (inMain (T) ? "true" : "false")
                    + ",\"has_body\":" + (hasBody ? "true" : "false")
                    + ",\"callee_constexpr\":" + (T->isConstexpr () ? "true" : "false")
                    + ",\"callee_noreturn\":" + (T->isNoReturn () ? "true" : "false")
                    + ",\"callee_trivial\":" + (trivialSpecial (T) ? "true" : "false");
      if (! via.empty ())
        s += ",\"via\":" + jstr (via);
      if (! obj.empty ())
        s += ",\"obj\":" + obj;
      s += ",\"args\":[" + args + "]" + ctxJson (c) + "}";
      Out->calls.push_back (s);
    }

    static llvm::StringRef libcName (const FunctionDecl *FD)
    {
      if (! FD->getDeclName ().isIdentifier ())
        return "";
      const DeclContext *DC = FD->getDeclContext ()->getRedeclContext ();
      if (! (DC->isTranslationUnit () || FD->isInStdNamespace ()))
        return "";
      llvm::StringRef n = FD->getName ();
      n.consume_front ("__builtin_");
      if (n == "memcpy" || n == "memmove" || n == "memset" || n == "fprintf" || n == "abort")
        return n;
      return "";
    }

    // A resolved callee at a site: classify as libc / non-constexpr leaf / edge.
    void handleCallee (const FunctionDecl *FD, llvm::StringRef how, SourceLocation L,
                       const WalkCtx& c, int id, const std::string& args, const std::string& obj)
    {
      if (! FD)
        return;
      llvm::StringRef lc = libcName (FD);
      if (! lc.empty ())
      {
        emitNC ("libc", lc, L, c);
        return;
      }
      if (ours (FD))
      {
        emitCall (FD, how, L, c, id, args, obj, "");
        return;
      }
      // not defined in the header nor in the probe: a leaf
      emitCall (FD, how, L, c, id, args, obj, "");
      if (FD->getBuiltinID () == 0 && ! FD->isConstexpr () && ! trivialSpecial (FD)
          && ! isa<CXXDeductionGuideDecl> (FD))
        emitNC ("nonconstexpr-call", qualName (FD), L, c);
      for (const FunctionDecl *T : through (FD))
        emitCall (T, "through", L, c, -1, "", "", qualName (FD));
    }

    void implicitDtor (QualType T, llvm::StringRef how, SourceLocation L, const WalkCtx& c)
    {
      T = T.getCanonicalType ();
      while (const auto *AT = dyn_cast<ArrayType> (T.getTypePtr ()))
        T = AT->getElementType ().getCanonicalType ();
      const CXXRecordDecl *RD = T->getAsCXXRecordDecl ();
      if (! RD || ! RD->hasDefinition () || RD->hasTrivialDestructor ())
        return;
      if (const CXXDestructorDecl *DD = RD->getDestructor ())
        handleCallee (DD, how, L, c, -1, "", "");
    }

    // ------------------------------------------------------------------------------------------
    // the walk

    int callId (const CallExpr *CE)
    {
      auto it = CallIds.find (CE);
      if (it != CallIds.end ())
        return it->second;
      int id = NextOrd++;
      CallIds[CE] = id;
      return id;
    }

    void walkChildren (const Stmt *S, const WalkCtx& c)
    {
      for (const Stmt *C : S->children ())
        if (C)
          walk (C, c);
    }

    void recordAssign (const VarDecl *VD, const Expr *RHS, const WalkCtx& c, bool decl, SourceLocation L)
    {
      int ord = NextOrd++;
      Out->assigns.push_back ("{\"var\":" + std::to_string (localId (VD)) + ",\"name\":"
                              + jstr (VD->getName ()) + ",\"decl\":" + (decl ? "true" : "false")
                              + ",\"ord\":" + std::to_string (ord) + ",\"line\":"
                              + std::to_string (lineOf (L)) + ",\"rhs\":" + xdesc (RHS)
                              + ctxJson (c) + "}");
    }

    void recordStore (const FieldDecl *F, const Expr *RHS, const WalkCtx& c, bool init, SourceLocation L)
    {
      int ord = NextOrd++;
      Out->stores.push_back ("{\"field\":" + jstr (F->getName ()) + ",\"init\":"
                             + (init ? "true" : "false") + ",\"ord\":" + std::to_string (ord)
                             + ",\"line\":" + std::to_string (lineOf (L)) + ",\"rhs\":" + xdesc (RHS)
                             + ctxJson (c) + "}");
    }

    void walk (const Stmt *S, WalkCtx c)
    {
      if (! S)
        return;

      if (const auto *CS = dyn_cast<CompoundStmt> (S))
      {
        for (const Stmt *C : CS->body ())
        {
          walk (C, c);
          if (c.ce && ceTerminates (C))
            c.ce = false;
          if (! c.ceOnly && runtimeTerminates (C))
            c.ceOnly = true;
        }
        return;
      }

      if (const auto *IS = dyn_cast<IfStmt> (S))
      {
        if (IS->isConstexpr ())
        {
          if (auto nd = IS->getNondiscardedCase (Ctx))
          {
            if (IS->getInit ())
              walk (IS->getInit (), c);
            if (*nd)
              walk (*nd, c);
            return;
          }
          walkChildren (S, c);
          return;
        }
        int id = NextIf++;
        Tri t = ceVal (IS->getCond ());
        bool guard = mentionsICE (IS->getCond ());
        if (guard)
        {
          const char *shape = "other";
          if (t == TTrue && ! IS->getElse () && alwaysTerminates (IS->getThen ()))
            shape = "early-return";
          else if (t == TTrue && IS->getElse ())
            shape = "if-else";
          else if (t == TTrue)
            shape = "then-falls-through";
          else if (t == TFalse)
            shape = "negated";
          Out->guards.push_back ("{\"file\":" + jstr (fileOf (IS->getIfLoc ())) + ",\"line\":"
                                 + std::to_string (lineOf (IS->getIfLoc ())) + ",\"shape\":"
                                 + jstr (shape) + ",\"if\":" + std::to_string (id) + ctxJson (c) + "}");
        }
        if (IS->getInit ())
          walk (IS->getInit (), c);
        if (const DeclStmt *DS = IS->getConditionVariableDeclStmt ())
          walk (DS, c);
        else
          walk (IS->getCond (), c);
        WalkCtx ct = c, cf = c;
        ct.ce = c.ce && t != TFalse;
        cf.ce = c.ce && t != TTrue;
        if (guard && t == TTrue)
          ct.ceOnly = true;
        if (guard && t == TFalse)
          cf.ceOnly = true;
        ct.arms.push_back ({ id, 0 });
        cf.arms.push_back ({ id, 1 });
        walk (IS->getThen (), ct);
        if (IS->getElse ())
          walk (IS->getElse (), cf);
        return;
      }

      if (const auto *CO = dyn_cast<ConditionalOperator> (S))
      {
        // `is_constant_evaluated () ? a : b` selects like the if statement does: each operand is
        // reachable only under its value of the condition
        Tri t = ceVal (CO->getCond ());
        bool guard = mentionsICE (CO->getCond ());
        walk (CO->getCond (), c);
        WalkCtx ct = c, cf = c;
        ct.ce = c.ce && t != TFalse;
        cf.ce = c.ce && t != TTrue;
        if (guard && t == TTrue)
          ct.ceOnly = true;
        if (guard && t == TFalse)
          cf.ceOnly = true;
        walk (CO->getTrueExpr (), ct);
        walk (CO->getFalseExpr (), cf);
        return;
      }

      if (const auto *TS = dyn_cast<CXXTryStmt> (S))
      {
        walk (TS->getTryBlock (), c);
        for (unsigned i = 0; i < TS->getNumHandlers (); ++i)
        {
          WalkCtx ch = c;
          ch.inCatch = true;
          walk (TS->getHandler (i)->getHandlerBlock (), ch);
        }
        return;
      }

      if (const auto *DS = dyn_cast<DeclStmt> (S))
      {
        for (const Decl *D : DS->decls ())
        {
          const auto *VD = dyn_cast<VarDecl> (D);
          if (! VD)
            continue;
          if (VD->hasInit ())
          {
            walk (VD->getInit (), c);
            if (VD->isLocalVarDecl ())
              recordAssign (VD, VD->getInit (), c, true, VD->getLocation ());
          }
          if (VD->hasLocalStorage () && ! VD->getType ()->isReferenceType ())
            implicitDtor (VD->getType (), "local-dtor", VD->getLocation (), c);
        }
        return;
      }

      const auto *E = dyn_cast<Expr> (S);
      if (! E)
      {
        walkChildren (S, c);
        return;
      }

      // unevaluated operands and already-evaluated constant expressions contribute nothing
      if (isa<CXXNoexceptExpr> (E) || isa<UnaryExprOrTypeTraitExpr> (E) || isa<RequiresExpr> (E)
          || isa<ConceptSpecializationExpr> (E) || isa<TypeTraitExpr> (E) || isa<ConstantExpr> (E))
        return;
      if (const auto *TI = dyn_cast<CXXTypeidExpr> (E))
      {
        if (TI->isTypeOperand () || ! TI->isPotentiallyEvaluated ())
          return;
      }

      if (const auto *TE = dyn_cast<CXXThrowExpr> (E))
      {
        WalkCtx ct = c;
        ct.inThrow = true;
        if (TE->getSubExpr ())
          walk (TE->getSubExpr (), ct);
        return;
      }

      if (const auto *DA = dyn_cast<CXXDefaultArgExpr> (E))
      {
        walk (DA->getExpr (), c);
        return;
      }
      if (const auto *DI = dyn_cast<CXXDefaultInitExpr> (E))
      {
        walk (DI->getExpr (), c);
        return;
      }

      if (const auto *LE = dyn_cast<LambdaExpr> (E))
      {
        if (const CXXMethodDecl *Op = LE->getCallOperator ())
          if (! Op->isDependentContext ())
            handleCallee (Op, "lambda", LE->getBeginLoc (), c, -1, "", "");
        for (const Expr *I : LE->capture_inits ())
          if (I)
            walk (I, c);
        return;
      }

      if (const auto *CE = dyn_cast<CallExpr> (E))
      {
        const FunctionDecl *FD = CE->getDirectCallee ();
        int id = callId (CE);
        if (FD)
        {
          std::string args, obj;
          unsigned first = (isa<CXXOperatorCallExpr> (CE) && isa<CXXMethodDecl> (FD)
                            && ! cast<CXXMethodDecl> (FD)->isStatic ()) ? 1 : 0;
          for (unsigned i = first; i < CE->getNumArgs (); ++i)
          {
            if (i != first)
              args += ",";
            args += xdesc (CE->getArg (i));
          }
          if (const auto *MCE = dyn_cast<CXXMemberCallExpr> (CE))
            obj = xdesc (MCE->getImplicitObjectArgument ());
          if (! isICECall (CE))
            handleCallee (FD, isa<CXXDestructorDecl> (FD) ? "explicit-dtor" : "call",
                          CE->getExprLoc (), c, id, args, obj);
        }
        else if (! isa<CXXPseudoDestructorExpr> (CE->getCallee ()->IgnoreParenImpCasts ()))
          emitNC ("indirect-call", "call through a pointer / unresolved callee", CE->getExprLoc (), c);
        walkChildren (S, c);
        return;
      }

      if (const auto *C = dyn_cast<CXXConstructExpr> (E))
      {
        std::string args;
        for (unsigned i = 0; i < C->getNumArgs (); ++i)
        {
          if (i)
            args += ",";
          args += xdesc (C->getArg (i));
        }
        handleCallee (C->getConstructor (), "construct", C->getExprLoc (), c, NextOrd++, args, "");
        walkChildren (S, c);
        return;
      }

      if (const auto *IC = dyn_cast<CXXInheritedCtorInitExpr> (E))
      {
        handleCallee (IC->getConstructor (), "construct", IC->getExprLoc (), c, NextOrd++, "", "");
        return;
      }

      if (const auto *BT = dyn_cast<CXXBindTemporaryExpr> (E))
      {
        if (const CXXDestructorDecl *DD = BT->getTemporary ()->getDestructor ())
          if (! DD->isTrivial ())
            handleCallee (DD, "temp-dtor", BT->getExprLoc (), c, -1, "", "");
        walkChildren (S, c);
        return;
      }

      if (const auto *NE = dyn_cast<CXXNewExpr> (E))
      {
        if (NE->getNumPlacementArgs () > 0)
          emitNC ("placement-new", "placement new-expression", NE->getBeginLoc (), c);
        walkChildren (S, c);
        return;
      }

      if (const auto *DE = dyn_cast<CXXDeleteExpr> (E))
      {
        QualType T = DE->getDestroyedType ();
        if (! T.isNull ())
          implicitDtor (T, "delete-dtor", DE->getBeginLoc (), c);
        walkChildren (S, c);
        return;
      }

      if (isa<CXXReinterpretCastExpr> (E))
      {
        emitNC ("reinterpret_cast", "reinterpret_cast", E->getExprLoc (), c);
        walkChildren (S, c);
        return;
      }

      if (const auto *XC = dyn_cast<ExplicitCastExpr> (E))
      {
        if (isa<CXXStaticCastExpr> (XC) || isa<CStyleCastExpr> (XC) || isa<CXXFunctionalCastExpr> (XC))
        {
          QualType From = XC->getSubExprAsWritten ()->getType ().getCanonicalType ();
          QualType To = XC->getType ().getCanonicalType ();
          if (From->isPointerType () && From->getPointeeType ()->isVoidType ()
              && To->isPointerType () && ! To->getPointeeType ()->isVoidType ()
              && ! To->getPointeeType ()->isFunctionType ())
            emitNC ("void*-cast", "cast from " + typeStr (From) + " to " + typeStr (To),
                    E->getExprLoc (), c);
        }
        walkChildren (S, c);
        return;
      }

      if (const auto *BO = dyn_cast<BinaryOperator> (E))
      {
        if (BO->getOpcode () == BO_Assign)
        {
          const Expr *L = BO->getLHS ()->IgnoreParenImpCasts ();
          if (const auto *DR = dyn_cast<DeclRefExpr> (L))
          {
            if (const auto *VD = dyn_cast<VarDecl> (DR->getDecl ()))
              if (VD->isLocalVarDecl ())
              {
                walkChildren (S, c);
                recordAssign (VD, BO->getRHS (), c, false, BO->getExprLoc ());
                return;
              }
          }
          else if (const auto *ME = dyn_cast<MemberExpr> (L))
          {
            if (const auto *F = dyn_cast<FieldDecl> (ME->getMemberDecl ()))
              if (isa<CXXThisExpr> (ME->getBase ()->IgnoreParenImpCasts ()))
              {
                walkChildren (S, c);
                recordStore (F, BO->getRHS (), c, false, BO->getExprLoc ());
                return;
              }
          }
        }
        walkChildren (S, c);
        return;
      }

      walkChildren (S, c);
    }

    // ------------------------------------------------------------------------------------------

    void analyse (const FunctionDecl *FD, FnOut& O)
    {
      Out = &O;
      Cur = FD;
      LocalIds.clear ();
      CallIds.clear ();
      NextIf = 0;
      NextOrd = 0;

      const char *kind = "function";
      if (isa<CXXConstructorDecl> (FD)) kind = "ctor";
      else if (isa<CXXDestructorDecl> (FD)) kind = "dtor";
      else if (const auto *MD = dyn_cast<CXXMethodDecl> (FD))
        kind = MD->getParent ()->isLambda () ? "lambda" : (MD->isStatic () ? "static-method" : "method");

      std::string nsname;
      {
        const DeclContext *DC = FD->getDeclContext ();
        while (DC && ! DC->isNamespace () && ! DC->isTranslationUnit ())
          DC = DC->getParent ();
        if (DC && DC->isNamespace ())
          nsname = qualName (cast<NamespaceDecl> (DC));
      }
      std::string params;
      for (unsigned i = 0; i < FD->getNumParams (); ++i)
      {
        if (i)
          params += ",";
        params += jstr (typeStr (FD->getParamDecl (i)->getType ()));
      }

      O.head = "\"name\":" + jstr (qualName (FD)) + ",\"base\":" + jstr (FD->getNameAsString ())
             + ",\"mangled\":" + jstr (mangled (FD)) + ",\"targs\":" + jstr (targs (FD))
             + ",\"kind\":" + jstr (kind) + ",\"class\":" + jstr (classOf (FD))
             + ",\"namespace\":" + jstr (nsname)
             + ",\"params\":[" + params + "]"
             + ",\"file\":" + jstr (fileOf (FD->getLocation ()))
             + ",\"begin\":" + std::to_string (lineOf (FD->getBeginLoc ()))
             + ",\"end\":" + std::to_string (lineOf (FD->getEndLoc ()))
             + ",\"in_header\":" + (inHeader (FD) ? "true" : "false")
             + ",\"main\":" + (inMain (FD) ? "true" : "false")
             + ",\"constexpr\":" + (FD->isConstexpr () ? "true" : "false")
             + ",\"noreturn\":" + (FD->isNoReturn () ? "true" : "false")
             + ",\"defaulted\":" + (FD->isDefaulted () ? "true" : "false")
             + ",\"implicit\":" + (FD->isImplicit () ? "true" : "false");
      O.ceLiteral = ceLiteralOf (FD);

      WalkCtx c;
      if (const auto *CD = dyn_cast<CXXConstructorDecl> (FD))
      {
        for (const CXXCtorInitializer *I : CD->inits ())
        {
          if (I->getInit ())
            walk (I->getInit (), c);
          if (I->isMemberInitializer () && I->getInit ())
            recordStore (I->getMember (), I->getInit (), c, true, I->getSourceLocation ());
        }
      }
      walk (FD->getBody (), c);
      if (const auto *DD = dyn_cast<CXXDestructorDecl> (FD))
      {
        const CXXRecordDecl *RD = DD->getParent ();
        for (const FieldDecl *F : RD->fields ())
          implicitDtor (F->getType (), "member-dtor", DD->getLocation (), c);
        for (const CXXBaseSpecifier& B : RD->bases ())
          implicitDtor (B.getType (), "base-dtor", DD->getLocation (), c);
      }
      Out = nullptr;
      Cur = nullptr;
    }
  };

  class Finder : public RecursiveASTVisitor<Finder>
  {
  public:
    explicit Finder (Engine& e) : E (e) { }
    bool shouldVisitTemplateInstantiations () const { return true; }
    bool shouldVisitImplicitCode () const { return true; }

    bool VisitFunctionDecl (FunctionDecl *FD)
    {
      if (! FD->doesThisDeclarationHaveABody () || FD->isDependentContext ())
        return true;
      if (FD->getTemplatedKind () == FunctionDecl::TK_FunctionTemplate)
        return true;
      if (! E.ours (FD))
        return true;
      if (E.Seen.insert (FD).second)
        E.Work.push_back (FD);
      return true;
    }

  private:
    Engine& E;
  };

  class Consumer : public ASTConsumer
  {
  public:
    explicit Consumer (std::string out) : OutPath (std::move (out)) { }

    void HandleTranslationUnit (ASTContext& Ctx) override
    {
      if (Ctx.getDiagnostics ().hasErrorOccurred ())
        return;
      Engine E (Ctx);
      Finder F (E);
      F.TraverseDecl (Ctx.getTranslationUnitDecl ());

      std::string body;
      unsigned n = 0;
      while (! E.Work.empty ())
      {
        const FunctionDecl *FD = E.Work.back ();
        E.Work.pop_back ();
        FnOut O;
        E.analyse (FD, O);
        if (n++)
          body += ",\n";
        body += "{" + O.head + ",\"ce_literal\":"
              + (O.ceLiteral < 0 ? std::string ("null") : std::string (O.ceLiteral ? "true" : "false"));
        auto list = [&] (const char *name, const std::vector<std::string>& v) {
          body += std::string (",\"") + name + "\":[";
          for (size_t i = 0; i < v.size (); ++i)
          {
            if (i)
              body += ",";
            body += v[i];
          }
          body += "]";
        };
        list ("nc", O.nc);
        list ("calls", O.calls);
        list ("assigns", O.assigns);
        list ("stores", O.stores);
        list ("guards", O.guards);
        body += "}";
      }

      std::string mainFile;
      if (const FileEntry *FE = Ctx.getSourceManager ().getFileEntryForID (
            Ctx.getSourceManager ().getMainFileID ()))
        mainFile = FE->getName ().str ();

      std::string all = "{\"plugin\":\"svconst\",\"version\":1,\"tu\":" + jstr (mainFile)
                      + ",\"cplusplus\":" + std::to_string (Ctx.getLangOpts ().CPlusPlus20 ? 20 : 17)
                      + ",\"cxx2b\":" + (Ctx.getLangOpts ().CPlusPlus2b ? "true" : "false")
                      + ",\"nfunctions\":" + std::to_string (n) + ",\"functions\":[\n" + body + "\n]}\n";
      if (OutPath.empty () || OutPath == "-")
      {
        llvm::outs () << all;
        return;
      }
      std::error_code EC;
      llvm::raw_fd_ostream os (OutPath, EC, llvm::sys::fs::OF_Text);
      if (EC)
      {
        llvm::errs () << "svconst: cannot write " << OutPath << ": " << EC.message () << "\n";
        return;
      }
      os << all;
    }

  private:
    std::string OutPath;
  };

  class Action : public PluginASTAction
  {
  protected:
    std::unique_ptr<ASTConsumer> CreateASTConsumer (CompilerInstance&, llvm::StringRef) override
    {
      return std::make_unique<Consumer> (OutPath);
    }

    bool ParseArgs (const CompilerInstance&, const std::vector<std::string>& args) override
    {
      for (const std::string& a : args)
      {
        if (a.rfind ("out=", 0) == 0)
          OutPath = a.substr (4);
      }
      return true;
    }

    ActionType getActionType () override { return AddAfterMainAction; }

  private:
    std::string OutPath;
  };

}

static FrontendPluginRegistry::Add<Action> X ("svconst", "constant-evaluation hygiene facts (C08)");
