// C08 canary: deliberately wrong (and a few right) constexpr functions next to the real header.
// svlib/rules/c08.py runs the svconst plugin on this TU on every run and requires
//   * every function whose name starts with `c08_bad_`   to be classified NC (R08.1),
//   * every function whose name starts with `c08_good_`  not to be,
//   * every function / class whose name starts with `c08_r2bad_`  to be reported by R08.2,
//   * every function / class whose name starts with `c08_r2good_` not to be,
// otherwise the run is analysis-broken.  Nothing here is ever executed (‑fsyntax-only).
// Compiled with -std=c++20 -DNDEBUG.  All functions are templates so that
// the compiler does not reject them up front ("never produces a constant expression").

#include <gch/small_vector.hpp>

#include <cstddef>
#include <cstring>
#include <memory>
#include <new>
#include <stdexcept>
#include <type_traits>

namespace gch
{
  namespace detail
  {
    // ---------------------------------------------------------------------------- R08.1, wrong

    // memcpy with no guard at all
    template <typename T>
    constexpr
    T *
    c08_bad_unguarded_memcpy (T *d, const T *s, std::size_t n)
    {
      std::memcpy (d, s, n * sizeof (T));
      return d + n;
    }

    // placement new outside std::construct_at
    template <typename T>
    constexpr
    T *
    c08_bad_placement_new (T *p, const T& v)
    {
      return ::new (static_cast<void *> (p)) T (v);
    }

    // the guard is there but its then-branch does not return: memcpy is still reached
    template <typename T>
    constexpr
    T *
    c08_bad_guard_falls_through (T *d, const T *s, std::size_t n)
    {
      if (std::is_constant_evaluated ())
      {
        for (std::size_t i = 0; i < n; ++i)
          d[i] = s[i];
      }
      std::memcpy (d, s, n * sizeof (T));
      return d + n;
    }

    // the guard returns only on one of its inner paths
    template <typename T>
    constexpr
    T *
    c08_bad_guard_returns_sometimes (T *d, const T *s, std::size_t n)
    {
      if (std::is_constant_evaluated ())
      {
        if (n == 0)
          return d;
      }
      std::memmove (d, s, n * sizeof (T));
      return d + n;
    }

    // cast from void* to an object pointer
    template <typename T>
    constexpr
    T *
    c08_bad_void_cast (void *p)
    {
      return static_cast<T *> (p);
    }

    // reinterpret_cast
    template <typename T>
    constexpr
    const unsigned char *
    c08_bad_reinterpret (const T *p)
    {
      return reinterpret_cast<const unsigned char *> (p);
    }

    // NC by propagation: a call, reachable under constant evaluation, to an NC function
    template <typename T>
    constexpr
    T *
    c08_bad_caller (T *d, const T *s, std::size_t n)
    {
      if (n == 0)
        return d;
      return c08_bad_unguarded_memcpy (d, s, n);
    }

    // the memcpy sits in the *then* arm of the guard
    template <typename T>
    constexpr
    T *
    c08_bad_inverted_arms (T *d, const T *s, std::size_t n)
    {
      if (std::is_constant_evaluated ())
        std::memcpy (d, s, n * sizeof (T));
      else
        for (std::size_t i = 0; i < n; ++i)
          d[i] = s[i];
      return d + n;
    }

    // not constexpr at all
    template <typename T>
    T *
    c08_bad_not_constexpr (T *d)
    {
      return d;
    }

    // ---------------------------------------------------------------------------- R08.1, right

    // shape 1: early return under the guard
    template <typename T>
    constexpr
    T *
    c08_good_early_return (T *d, const T *s, std::size_t n)
    {
      if (std::is_constant_evaluated ())
      {
        for (std::size_t i = 0; i < n; ++i)
          d[i] = s[i];
        return d + n;
      }
      std::memcpy (d, s, n * sizeof (T));
      return d + n;
    }

    // shape 2: the non-constant construct is in the else arm
    template <typename T>
    constexpr
    T *
    c08_good_else_arm (T *d, const T *s, std::size_t n)
    {
      if (std::is_constant_evaluated ())
        for (std::size_t i = 0; i < n; ++i)
          d[i] = s[i];
      else
        std::memcpy (d, s, n * sizeof (T));
      return d + n;
    }

    // shape 3: `if constexpr (...) if (guard) return ...;`
    template <typename T>
    constexpr
    T *
    c08_good_constexpr_if (T *d, const T *s, std::size_t n)
    {
      if constexpr (std::is_trivially_copyable<T>::value)
      {
        if (std::is_constant_evaluated ())
          return d + n;
      }
      if constexpr (std::is_trivially_copyable<T>::value)
        std::memcpy (d, s, n * sizeof (T));
      return d + n;
    }

    // literal fold: a predicate that is `true` under the guard makes the else arm unreachable
    struct c08_flag_holder
    {
      unsigned cap;

      constexpr
      bool
      flag (void) const noexcept
      {
        if (std::is_constant_evaluated ())
          return true;
        return 4 < cap;
      }
    };

    template <typename T>
    constexpr
    T *
    c08_good_literal_fold (const c08_flag_holder& h, T *d, const T *s, std::size_t n)
    {
      if (h.flag ())
      {
        for (std::size_t i = 0; i < n; ++i)
          d[i] = s[i];
      }
      else if (n != 0)
        std::memcpy (d, s, n * sizeof (T));
      return d + n;
    }

    // failure arm: a non-constexpr constructor as the operand of `throw` is exempt
    template <typename T>
    constexpr
    T *
    c08_good_throw_operand (T *d, std::size_t n)
    {
      if (1000 < n)
        throw std::length_error ("too long");
      return d + n;
    }

    // calls an NC function, but only on the arm the evaluator cannot take
    template <typename T>
    constexpr
    T *
    c08_good_guarded_caller (T *d, const T *s, std::size_t n)
    {
      if (! std::is_constant_evaluated ())
        return c08_bad_unguarded_memcpy (d, s, n);
      for (std::size_t i = 0; i < n; ++i)
        d[i] = s[i];
      return d + n;
    }

    template int *c08_bad_unguarded_memcpy<int> (int *, const int *, std::size_t);
    template int *c08_bad_placement_new<int> (int *, const int&);
    template int *c08_bad_guard_falls_through<int> (int *, const int *, std::size_t);
    template int *c08_bad_guard_returns_sometimes<int> (int *, const int *, std::size_t);
    template int *c08_bad_void_cast<int> (void *);
    template const unsigned char *c08_bad_reinterpret<int> (const int *);
    template int *c08_bad_caller<int> (int *, const int *, std::size_t);
    template int *c08_bad_inverted_arms<int> (int *, const int *, std::size_t);
    template int *c08_bad_not_constexpr<int> (int *);
    template int *c08_good_early_return<int> (int *, const int *, std::size_t);
    template int *c08_good_else_arm<int> (int *, const int *, std::size_t);
    template int *c08_good_constexpr_if<int> (int *, const int *, std::size_t);
    template int *c08_good_literal_fold<int> (const c08_flag_holder&, int *, const int *, std::size_t);
    template int *c08_good_throw_operand<int> (int *, std::size_t);
    template int *c08_good_guarded_caller<int> (int *, const int *, std::size_t);

    // -------------------------------------------------------------------------------- R08.2 (a)
    // Self-contained (no private primitive of the header is named, so a rename in the header
    // cannot break the canary): a miniature vector with the three state words under the names
    // the debugger visualisers use, and primitives that reach std::allocator_traits directly.
    // The rule must discover the roles (who allocates, who writes m_data_ptr / m_capacity) from
    // what these functions do.

    template <typename T, unsigned N>
    struct c08_canary_vec
    {
      using alloc_ty  = std::allocator<T>;
      using traits_ty = std::allocator_traits<alloc_ty>;
      using size_ty   = std::size_t;
      using ptr       = T *;

      constexpr ptr  grab (size_ty n) { return traits_ty::allocate (m_alloc, n); }
      constexpr ptr  grab_checked (size_ty n) { return grab (static_cast<size_ty> (n)); }
      constexpr void drop (ptr p, size_ty n) { traits_ty::deallocate (m_alloc, p, n); }
      constexpr void put_ptr_impl (ptr p) noexcept { m_data_ptr = p; }
      constexpr void put_ptr (ptr p) noexcept { put_ptr_impl (p); }
      constexpr void put_cap (size_ty c) noexcept { m_capacity = c; }
      constexpr size_ty count (void) const noexcept { return m_size; }
      constexpr ptr  buf (void) noexcept { return static_cast<ptr> (static_cast<void *> (m_buf)); }

      // allocates N under the guard, commits another capacity
      constexpr
      void
      c08_r2bad_capacity_mismatch (void)
      {
        ptr p;
        if (std::is_constant_evaluated ())
          p = grab (N);
        else
          p = buf ();
        put_ptr (p);
        put_cap (count ());
      }

      // same, the wrong capacity travels through a local
      constexpr
      void
      c08_r2bad_capacity_mismatch_local (void)
      {
        size_ty c = count ();
        ptr p;
        if (std::is_constant_evaluated ())
          p = grab (N);
        else
          p = buf ();
        put_ptr (p);
        put_cap (c);
      }

      // allocates N under the guard and never commits the block
      constexpr
      void
      c08_r2bad_not_committed (void)
      {
        if (std::is_constant_evaluated ())
        {
          ptr p = grab (N);
          static_cast<void> (p);
        }
      }

      // commits the block but writes no capacity at all
      constexpr
      void
      c08_r2bad_no_capacity_write (void)
      {
        if (std::is_constant_evaluated ())
          return put_ptr (grab_checked (N));
        put_ptr (buf ());
      }

      // the allocation follows `if (! guard) { ...; return; }`: still only under the guard
      constexpr
      void
      c08_r2bad_after_negated_guard (void)
      {
        if (! std::is_constant_evaluated ())
        {
          put_ptr (buf ());
          put_cap (N);
          return;
        }
        put_ptr (grab (N));
        put_cap (count ());
      }

      // same shape, paired; the run-time arm commits something else and returns
      constexpr
      void
      c08_r2good_after_negated_guard (ptr q)
      {
        if (! std::is_constant_evaluated ())
        {
          put_ptr (q);
          put_cap (count ());
          return;
        }
        put_ptr (grab (N));
        put_cap (N);
      }

      // the three shapes the header uses, all paired
      constexpr
      void
      c08_r2good_if_else (void)
      {
        ptr p;
        if (std::is_constant_evaluated ())
          p = grab (N);
        else
          p = buf ();
        put_ptr (p);
        put_cap (N);
      }

      constexpr
      void
      c08_r2good_early_return (void)
      {
        put_cap (N);
        if (std::is_constant_evaluated ())
          return put_ptr (grab_checked (N));
        put_ptr (buf ());
      }

      constexpr
      void
      c08_r2good_through_local (bool big)
      {
        size_ty c;
        ptr p;
        if (big)
        {
          c = count ();
          p = grab (c);
        }
        else
        {
          c = N;
          if (std::is_constant_evaluated ())
            p = grab (N);
          else
            p = buf ();
        }
        put_ptr (p);
        put_cap (static_cast<size_ty> (c));
      }

      ptr      m_data_ptr;
      size_ty  m_capacity;
      size_ty  m_size;
      alloc_ty m_alloc;
      alignas (T) unsigned char m_buf[(N == 0 ? 1 : N) * sizeof (T)];
    };

    template struct c08_canary_vec<int, 4>;

    // -------------------------------------------------------------------------------- R08.2 (b)

    template <typename T>
    struct c08_r2bad_temp
    {
      using owner = c08_canary_vec<T, 4>;

      constexpr explicit
      c08_r2bad_temp (owner& o, const T& v)
        : m_owner    (o),
          m_data_ptr (o.grab (sizeof (T)))
      {
        try
        {
          std::construct_at (m_data_ptr, v);
        }
        catch (...)
        {
          m_owner.drop (m_data_ptr, sizeof (T));
          throw;
        }
      }

      constexpr
      ~c08_r2bad_temp (void)
      {
        std::destroy_at (m_data_ptr);
        m_owner.drop (m_data_ptr, 1);
      }

      owner& m_owner;
      T     *m_data_ptr;
    };

    template <typename T>
    struct c08_r2good_temp
    {
      using owner = c08_canary_vec<T, 4>;

      constexpr explicit
      c08_r2good_temp (owner& o, const T& v)
        : m_owner    (o),
          m_data_ptr (o.grab (sizeof (T)))
      {
        try
        {
          std::construct_at (m_data_ptr, v);
        }
        catch (...)
        {
          m_owner.drop (m_data_ptr, sizeof (T));
          throw;
        }
      }

      constexpr
      ~c08_r2good_temp (void)
      {
        std::destroy_at (m_data_ptr);
        m_owner.drop (m_data_ptr, sizeof (T));
      }

      owner& m_owner;
      T     *m_data_ptr;
    };

    template struct c08_r2bad_temp<int>;
    template struct c08_r2good_temp<int>;
  }
}
