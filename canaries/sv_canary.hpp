// Positive examples for the IR path rules (DESIGN section 5): deliberately wrong member-like
// functions written against the real header's private primitives (compiled with
// -fno-access-control, never linked or run).  Every rule whose expected count on /repo is zero
// must report its canary on every run; the "ok" twins must stay silent.
#ifndef SV_CANARY_HPP
#define SV_CANARY_HPP

#include <gch/small_vector.hpp>
#include "sv_types.hpp"

namespace svcanary
{
  template <typename A, unsigned N>
  struct wrong : gch::detail::small_vector_base<A, N>
  {
    using base = gch::detail::small_vector_base<A, N>;
    using ptr = typename base::ptr;
    using size_ty = typename base::size_ty;
    using value_ty = typename base::value_ty;

    // R04.1 / R06.1: the new block is leaked when filling throws
    void canary_leak_on_throw (size_ty n, const value_ty& val)
    {
      ptr p = this->unchecked_allocate (n);
      this->uninitialized_fill (p, this->unchecked_next (p, n), val);
      this->reset_data (p, n, n);
    }

    // the correct twin: must be silent
    void canary_ok_alloc (size_ty n, const value_ty& val)
    {
      ptr p = this->unchecked_allocate (n);
      try
      {
        this->uninitialized_fill (p, this->unchecked_next (p, n), val);
      }
      catch (...)
      {
        this->deallocate (p, n);
        throw;
      }
      this->reset_data (p, n, n);
    }

    // R02.1: data pointer replaced, capacity forgotten
    void canary_unpaired (size_ty n)
    {
      this->wipe ();
      this->set_data_ptr (this->unchecked_allocate (n));
      this->set_size (0);
    }

    // R02.2: adopts a buffer without checking that it is larger than the inline capacity
    void canary_steal_unguarded (wrong& other)
    {
      this->wipe ();
      this->set_data (other.data_ptr (), other.get_capacity (), other.get_size ());
      other.set_default ();
    }

    // R02.7: commits a block from the allocator without knowing that its capacity exceeds the
    // inline capacity (the container would look inlined and never release it)
    void canary_fresh_unproved (size_ty n)
    {
      this->wipe ();
      this->set_data (this->allocate (n), n, 0);
    }

    // R18.2: allocation failure under noexcept
    void canary_noexcept_alloc (size_ty n) noexcept
    {
      ptr p = this->unchecked_allocate (n);
      this->deallocate (p, n);
    }

    // R06.4: a handler that swallows
    bool canary_swallow (size_ty n)
    {
      try
      {
        ptr p = this->unchecked_allocate (n);
        this->deallocate (p, n);
        return true;
      }
      catch (...)
      {
        return false;
      }
    }

    // R12.1: unbounded request (and the bounded twin)
    void canary_unbounded (size_ty n)
    {
      if (this->get_capacity () < n)
      {
        ptr p = this->unchecked_allocate (n);
        this->reset_data (p, n, 0);
      }
    }

    void canary_ok_bounded (size_ty n)
    {
      if (this->get_capacity () < n)
      {
        ptr p = this->checked_allocate (n);
        this->reset_data (p, n, 0);
      }
    }

    // R04.5: hands the inline buffer to the allocator
    void canary_free_inline (void)
    {
      this->deallocate (this->storage_ptr (), N);
    }

    // R10.1: reallocates although the contents fit exactly (<= instead of <)
    void canary_realloc_when_fits (size_ty n, const value_ty& val)
    {
      if (this->get_capacity () <= n)
      {
        size_ty c = this->checked_calculate_new_capacity (n + 1);
        ptr p = this->unchecked_allocate (c);
        try
        {
          this->uninitialized_fill (p, this->unchecked_next (p, n), val);
        }
        catch (...)
        {
          this->deallocate (p, c);
          throw;
        }
        this->reset_data (p, c, n);
      }
    }

    // R10.2: grows in place without knowing that it fits
    void canary_grow_unchecked (size_ty k, const value_ty& val)
    {
      if (this->get_size () < this->get_capacity ())
      {
        this->uninitialized_fill (this->end_ptr (), this->unchecked_next (this->end_ptr (), k), val);
        this->increase_size (k);
      }
    }

    // R14.1: exact (non-geometric) growth
    void canary_exact_growth (size_ty n, const value_ty& val)
    {
      if (this->get_capacity () < n)
      {
        if (this->get_max_size () < n)
          this->throw_allocation_size_error ();
        ptr p = this->unchecked_allocate (n);
        try
        {
          this->uninitialized_fill (p, this->unchecked_next (p, n), val);
        }
        catch (...)
        {
          this->deallocate (p, n);
          throw;
        }
        this->reset_data (p, n, n);
      }
    }

    // R11.1: reads the (possibly aliasing) argument after the elements were moved away
    void canary_use_after_move (const value_ty& val)
    {
      size_ty c = this->checked_calculate_new_capacity (this->get_size () + 1);
      ptr p = this->unchecked_allocate (c);
      this->uninitialized_move (this->begin_ptr (), this->end_ptr (), p);
      this->construct (this->unchecked_next (p, this->get_size ()), val);
      this->reset_data (p, c, this->get_size () + 1);
    }

    // R09.1: adopts the buffer and then touches its elements
    void canary_steal_then_touch (wrong& other)
    {
      if (N < other.get_capacity ())
      {
        this->wipe ();
        this->set_data (other.data_ptr (), other.get_capacity (), other.get_size ());
        std::move (other.begin_ptr (), other.end_ptr (), other.begin_ptr ());
        other.set_default ();
      }
    }

    // R15.1: dereferences an input iterator twice at one position
    void canary_double_deref (svp::InIt<value_ty> first, svp::InIt<value_ty> last)
    {
      for (; ! (first == last); ++first)
      {
        if (std::addressof (*first) != nullptr)
          this->append_element (*first);
      }
    }

    // R06.3: size advanced over raw storage
    void canary_size_first (const value_ty& val)
    {
      this->increase_size (1);
      this->construct (this->unchecked_prev (this->end_ptr ()), val);
    }
  };
}

#endif
