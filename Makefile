# setup: build the (small) native parts of the framework from files on disk only.
PLUGIN_SRC := $(wildcard plugin/*.cc)
PLUGIN_SO  := $(PLUGIN_SRC:.cc=.so)

setup: $(PLUGIN_SO)
	@python3 -c "import sys; assert sys.version_info >= (3,8)"
	@which clang++ g++ opt-14 > /dev/null
	@echo setup ok

plugin/%.so: plugin/%.cc
	clang++ $$(llvm-config-14 --cxxflags) -fno-rtti -fPIC -shared $< -o $@

manifest:
	python3 tools/mkmanifest.py

.PHONY: setup manifest
