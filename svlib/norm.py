"""E4 `svnorm`: observer normal forms (DESIGN section 2, E4) and record layouts.

Tiny `extern "C"` wrappers around loop-free observers of `gch::small_vector<T,N,A>` are compiled
(never linked, never run) with `clang++ -O2 -S -emit-llvm -DNDEBUG`; LLVM's optimiser reduces each
to a closed form over the words of the object.  This module

* parses those few-instruction bodies (typed-pointer LLVM 14 IR) and evaluates them symbolically
  into expressions over the leaves `FIELD(arg_k, byte_offset, width)` (a load of `width` bytes at
  `arg_k + byte_offset`), integer arguments and constants.  Struct-indexed `getelementptr`s are
  converted to byte offsets with an own implementation of LLVM's struct layout for the module's
  `type` definitions (cross-checked against `dereferenceable(n)` and the debug-info sizes);
* provides the small algebra those expressions live in: linear forms over leaves (`Lin`),
  integer comparisons in one normal form (`Pred`: `a < b+1` == `a <= b`, `!(a < b)` == `b <= a`,
  `x <= 0` == `x == 0` for a non-negative `x`), `(p + S*n - p) / S` == `n` by exact division,
  `Select`, `Guarded` (value on the returning edge of a two-way branch whose other arm traps);
* obtains record layouts *independently of the normal forms*: from the debug info clang emits
  for the same instantiation (`DICompositeType` / `DW_TAG_member` / `DW_TAG_inheritance`:
  names, offsets, sizes, DWARF field order, static members) and, as a cross-check, from the
  text of `clang++ -Xclang -fdump-record-layouts`.

A body or a layout that cannot be normalised raises `common.AnalysisBroken` (exit 2).
Nothing here knows a member name of the header; callers pass the names they look up.
"""
import math
import re

from . import common

AnalysisBroken = common.AnalysisBroken

# ==================================================================================================
# 1. expression algebra
# ==================================================================================================
# atoms (hashable tuples):
#   ('arg', k, bits)              the k-th parameter of the wrapper (integer or pointer value)
#   ('mem', addr_key, nbytes)     the nbytes loaded from address `addr` (a Lin) in the initial memory
# A `Lin` denotes the mathematical integer  sum(coeff * atom) + c ;  an IR value of width w holds
# that integer modulo 2**w.  Width changes (zext/sext) and comparisons are only translated when an
# interval argument shows that the modular and the mathematical reading coincide.


def _akey(a):
    return repr(a)


class Lin(object):
    __slots__ = ('t', 'c')

    def __init__(self, t=None, c=0):
        self.t = dict((a, k) for a, k in (t or {}).items() if k != 0)
        self.c = c

    # -- construction
    @staticmethod
    def const(c):
        return Lin({}, c)

    @staticmethod
    def atom(a):
        return Lin({a: 1}, 0)

    def key(self):
        return (tuple(sorted(self.t.items(), key=lambda it: _akey(it[0]))), self.c)

    def __eq__(self, o):
        return isinstance(o, Lin) and self.key() == o.key()

    def __ne__(self, o):
        return not self.__eq__(o)

    def __hash__(self):
        return hash(self.key())

    def _coerce(self, o):
        if isinstance(o, Lin):
            return o
        if isinstance(o, int):
            return Lin.const(o)
        raise AnalysisBroken('svnorm: arithmetic on a non-linear operand (%r)' % (o,))

    def __add__(self, o):
        o = self._coerce(o)
        t = dict(self.t)
        for a, k in o.t.items():
            t[a] = t.get(a, 0) + k
        return Lin(t, self.c + o.c)

    __radd__ = __add__

    def __neg__(self):
        return Lin(dict((a, -k) for a, k in self.t.items()), -self.c)

    def __sub__(self, o):
        return self + (-self._coerce(o))

    def __rsub__(self, o):
        return self._coerce(o) - self

    def __mul__(self, k):
        if isinstance(k, Lin):
            if k.is_const():
                k = k.c
            elif self.is_const():
                return k * self.c
            else:
                raise AnalysisBroken('svnorm: product of two non-constant terms')
        return Lin(dict((a, c * k) for a, c in self.t.items()), self.c * k)

    __rmul__ = __mul__

    def is_const(self):
        return not self.t

    def exact_div(self, d):
        if d == 0 or self.c % d or any(k % d for k in self.t.values()):
            return None
        return Lin(dict((a, k // d) for a, k in self.t.items()), self.c // d)

    def single_atom(self):
        """The atom if this is exactly 1*atom + 0, else None."""
        if self.c == 0 and len(self.t) == 1:
            (a, k), = self.t.items()
            if k == 1:
                return a
        return None

    def atoms(self):
        return list(self.t)

    # -- intervals
    def interval(self, tight=False, ranges=None):
        lo = hi = self.c
        for a, k in self.t.items():
            alo, ahi = atom_interval(a, tight, ranges)
            if k > 0:
                lo = None if (lo is None or alo is None) else lo + k * alo
                hi = None if (hi is None or ahi is None) else hi + k * ahi
            else:
                lo = None if (lo is None or ahi is None) else lo + k * ahi
                hi = None if (hi is None or alo is None) else hi + k * alo
        return lo, hi

    def __repr__(self):
        return show(self)


def atom_bits(a):
    return a[2] if a[0] == 'arg' else 8 * a[2]


def atom_interval(a, tight=False, ranges=None):
    """Natural interval: what the bit width allows (unsigned reading).  Tight interval: the
    value does not exceed the maximum of the *signed* type of the same width (the header's
    max_size() bound on every size_type quantity, C12); only used with a recorded side condition.
    Pointer-sized atoms are never tightened."""
    if ranges and a in ranges:
        lo, hi = ranges[a]
        nlo, nhi = atom_interval(a, tight, None)
        return (nlo if lo is None else max(lo, nlo), nhi if hi is None else min(hi, nhi))
    bits = atom_bits(a)
    if tight and bits < 64:
        return 0, (1 << (bits - 1)) - 1
    return 0, (1 << bits) - 1


def field(k, off, nbytes, arg_bits=64):
    """FIELD(arg_k, off, nbytes): the value loaded from (pointer argument k) + off."""
    return Lin.atom(('mem', (Lin.atom(('arg', k, arg_bits)) + off).key(), nbytes))


def load(addr, nbytes):
    return Lin.atom(('mem', addr.key(), nbytes))


def arg(k, bits=64):
    return Lin.atom(('arg', k, bits))


def lin_from_key(key):
    return Lin(dict(key[0]), key[1])


def field_of_atom(a):
    """(k, off, nbytes) if the atom is FIELD(arg_k, off, nbytes), else None."""
    if a[0] != 'mem':
        return None
    addr = lin_from_key(a[1])
    if len(addr.t) != 1:
        return None
    (b, k), = addr.t.items()
    if b[0] != 'arg' or k != 1:
        return None
    return (b[1], addr.c, a[2])


class Pred(object):
    """Integer predicate in normal form: ('le', L) = L <= 0, ('eq', L) = L == 0, ('ne', L),
    ('true',), ('false',)."""
    __slots__ = ('kind', 'lin')

    def __init__(self, kind, lin=None):
        self.kind = kind
        self.lin = lin

    def key(self):
        return (self.kind, self.lin.key() if self.lin is not None else None)

    def __eq__(self, o):
        return isinstance(o, Pred) and self.key() == o.key()

    def __ne__(self, o):
        return not self.__eq__(o)

    def __hash__(self):
        return hash(self.key())

    def __repr__(self):
        return show(self)


TRUE = Pred('true')
FALSE = Pred('false')


def _gcd_all(vals):
    g = 0
    for v in vals:
        g = math.gcd(g, abs(v))
    return g


def le0(L, ranges=None):
    """L <= 0."""
    if L.is_const():
        return TRUE if L.c <= 0 else FALSE
    g = _gcd_all(L.t.values())
    if g > 1:  # g*X + c <= 0  <=>  X + ceil(c/g) <= 0
        L = Lin(dict((a, k // g) for a, k in L.t.items()), -((-L.c) // g))
    lo, hi = L.interval(False, ranges)
    if hi is not None and hi <= 0:
        return TRUE
    if lo is not None and lo > 0:
        return FALSE
    if lo == 0:
        return eq0(L, ranges=ranges)
    return Pred('le', L)


def eq0(L, neg=False, ranges=None):
    """L == 0 (neg: L != 0)."""
    if L.is_const():
        return TRUE if ((L.c == 0) != neg) else FALSE
    g = _gcd_all(L.t.values())
    if g > 1:
        if L.c % g:
            return TRUE if neg else FALSE
        L = L.exact_div(g)
    first = sorted(L.t.items(), key=lambda it: _akey(it[0]))[0]
    if first[1] < 0:
        L = -L
    lo, hi = L.interval(False, ranges)
    if (lo is not None and lo > 0) or (hi is not None and hi < 0):
        return TRUE if neg else FALSE
    if neg:
        if lo == 0:        # L != 0 and L >= 0  <=>  1 - L <= 0
            return le0(1 - L, ranges)
        if hi == 0:
            return le0(L + 1, ranges)
        return Pred('ne', L)
    return Pred('eq', L)


def _L(x):
    return x if isinstance(x, Lin) else Lin.const(x)


def le(a, b, ranges=None):
    return le0(_L(a) - b, ranges)


def lt(a, b, ranges=None):
    return le0(_L(a) - b + 1, ranges)


def eq(a, b, ranges=None):
    return eq0(_L(a) - b, False, ranges)


def ne(a, b, ranges=None):
    return eq0(_L(a) - b, True, ranges)


def not_(p, ranges=None):
    if p.kind == 'true':
        return FALSE
    if p.kind == 'false':
        return TRUE
    if p.kind == 'le':
        return le0(1 - p.lin, ranges)
    if p.kind == 'eq':
        return eq0(p.lin, True, ranges)
    if p.kind == 'ne':
        return eq0(p.lin, False, ranges)
    raise AnalysisBroken('svnorm: cannot negate %r' % (p,))


def renorm(p, ranges):
    """Re-normalise a predicate under extra interval facts (e.g. the invariant N <= capacity)."""
    if p.kind == 'le':
        return le0(p.lin, ranges)
    if p.kind == 'eq':
        return eq0(p.lin, False, ranges)
    if p.kind == 'ne':
        return eq0(p.lin, True, ranges)
    return p


class Select(object):
    __slots__ = ('cond', 'a', 'b')

    def __init__(self, cond, a, b):
        self.cond, self.a, self.b = cond, a, b

    def key(self):
        return ('select', self.cond.key(), self.a.key(), self.b.key())

    def __eq__(self, o):
        return isinstance(o, Select) and self.key() == o.key()

    def __ne__(self, o):
        return not self.__eq__(o)

    def __hash__(self):
        return hash(self.key())

    def __repr__(self):
        return show(self)


def select(cond, a, b):
    if cond.kind == 'true':
        return a
    if cond.kind == 'false':
        return b
    if a == b:
        return a
    return Select(cond, a, b)


class Guarded(object):
    """`value` is returned on the edge where `cond` holds; otherwise the noreturn function
    `trap` is called."""
    __slots__ = ('cond', 'value', 'trap')

    def __init__(self, cond, value, trap):
        self.cond, self.value, self.trap = cond, value, trap

    def key(self):
        return ('guarded', self.cond.key(), self.value.key(), self.trap)

    def __eq__(self, o):
        return isinstance(o, Guarded) and self.key() == o.key()

    def __ne__(self, o):
        return not self.__eq__(o)

    def __hash__(self):
        return hash(self.key())

    def __repr__(self):
        return show(self)


def show(e, names=None):
    """Readable rendering; `names` maps (k, off, nbytes) -> a label such as 'SIZE'."""
    names = names or {}

    def atom(a):
        if a[0] == 'arg':
            return 'arg%d' % a[1]
        f = field_of_atom(a)
        if f is not None:
            if f in names:
                return names[f]
            return 'FIELD(arg%d,+%d,%d)' % f
        return 'LOAD(%s,%d)' % (show(lin_from_key(a[1]), names), a[2])

    if isinstance(e, Lin):
        parts = []
        for a, k in sorted(e.t.items(), key=lambda it: _akey(it[0])):
            s = atom(a)
            if k == 1:
                parts.append('+ ' + s)
            elif k == -1:
                parts.append('- ' + s)
            elif k < 0:
                parts.append('- %d*%s' % (-k, s))
            else:
                parts.append('+ %d*%s' % (k, s))
        if e.c or not parts:
            parts.append(('+ %d' % e.c) if e.c >= 0 else ('- %d' % -e.c))
        s = ' '.join(parts)
        return s[2:] if s.startswith('+ ') else s
    if isinstance(e, Pred):
        if e.kind in ('true', 'false'):
            return e.kind
        op = {'le': '<=', 'eq': '==', 'ne': '!='}[e.kind]
        # move the constant to the right-hand side for readability
        L = Lin(e.lin.t, 0)
        return '%s %s %d' % (show(L, names), op, -e.lin.c)
    if isinstance(e, Select):
        return '(%s ? %s : %s)' % (show(e.cond, names), show(e.a, names), show(e.b, names))
    if isinstance(e, Guarded):
        return '[%s] -> %s ; else trap %s' % (show(e.cond, names), show(e.value, names), e.trap)
    return repr(e)


# ==================================================================================================
# 2. LLVM types and their layout (x86-64 data layout as printed in the module header)
# ==================================================================================================

_ID = r'(?:"(?:[^"\\]|\\.)*"|[-a-zA-Z$._0-9]+)'
_re_named = re.compile(r'%' + _ID)


def parse_type(s, i=0):
    """Parse one LLVM type starting at s[i]; returns (type, next_index)."""
    n = len(s)
    while i < n and s[i] == ' ':
        i += 1
    if i >= n:
        raise AnalysisBroken('svnorm: type expected in %r' % s)
    ch = s[i]
    if ch == '%':
        m = _re_named.match(s, i)
        if not m:
            raise AnalysisBroken('svnorm: bad named type in %r' % s[i:i + 60])
        t = ('named', m.group(0)[1:])
        i = m.end()
    elif ch == '{' or s.startswith('<{', i):
        packed = ch == '<'
        i += 2 if packed else 1
        elems = []
        while True:
            while s[i] == ' ':
                i += 1
            if s[i] == '}':
                i += 1
                break
            t1, i = parse_type(s, i)
            elems.append(t1)
            while s[i] == ' ':
                i += 1
            if s[i] == ',':
                i += 1
        if packed:
            if s[i] != '>':
                raise AnalysisBroken('svnorm: packed struct not closed in %r' % s)
            i += 1
        t = ('struct', tuple(elems), packed)
    elif ch == '[' or ch == '<':
        close = ']' if ch == '[' else '>'
        m = re.compile(r'\s*(\d+)\s*x\s*').match(s, i + 1)
        if not m:
            raise AnalysisBroken('svnorm: bad array type in %r' % s[i:i + 60])
        t1, i = parse_type(s, m.end())
        while s[i] == ' ':
            i += 1
        if s[i] != close:
            raise AnalysisBroken('svnorm: array type not closed in %r' % s)
        i += 1
        t = ('array' if ch == '[' else 'vector', int(m.group(1)), t1)
    else:
        m = re.compile(r'i(\d+)\b|void\b|float\b|double\b|half\b|x86_fp80\b|fp128\b|ptr\b|'
                       r'label\b|metadata\b|opaque\b').match(s, i)
        if not m:
            raise AnalysisBroken('svnorm: unknown type at %r' % s[i:i + 60])
        w = m.group(0)
        if m.group(1):
            t = ('int', int(m.group(1)))
        elif w == 'ptr':
            t = ('ptr', None)
        else:
            t = (w,)
        i = m.end()
    # suffixes: pointers and function types
    while True:
        j = i
        while j < n and s[j] == ' ':
            j += 1
        if j < n and s[j] == '*':
            t = ('ptr', t)
            i = j + 1
            continue
        if j < n and s[j] == '(' and t[0] != 'label':
            # function type: skip the balanced parameter list
            depth = 0
            k = j
            while k < n:
                if s[k] == '(':
                    depth += 1
                elif s[k] == ')':
                    depth -= 1
                    if depth == 0:
                        break
                k += 1
            t = ('func', t)
            i = k + 1
            continue
        break
    return t, i


class Layout(object):
    def __init__(self, typedefs):
        self.typedefs = typedefs
        self._memo = {}

    def resolve(self, t):
        seen = 0
        while t[0] == 'named':
            if t[1] not in self.typedefs:
                raise AnalysisBroken('svnorm: IR type %%%s is not defined in the module' % t[1])
            t = self.typedefs[t[1]]
            seen += 1
            if seen > 50:
                raise AnalysisBroken('svnorm: cyclic IR type')
        return t

    def size_align(self, t):
        k = repr(t)
        if k in self._memo:
            return self._memo[k]
        r = self._size_align(t)
        self._memo[k] = r
        return r

    def _size_align(self, t):
        t = self.resolve(t)
        kind = t[0]
        if kind == 'int':
            b = t[1]
            size = (b + 7) // 8
            p = 1
            while p < size:
                p *= 2
            return p, min(p, 8) if b <= 64 else 16
        if kind == 'ptr':
            return 8, 8
        if kind == 'float':
            return 4, 4
        if kind == 'double':
            return 8, 8
        if kind == 'half':
            return 2, 2
        if kind in ('x86_fp80', 'fp128'):
            return 16, 16
        if kind == 'array':
            s, a = self.size_align(t[2])
            return s * t[1], a
        if kind == 'struct':
            offs, size, align = self.struct_offsets(t)
            return size, align
        raise AnalysisBroken('svnorm: no layout for IR type %r' % (t,))

    def struct_offsets(self, t):
        t = self.resolve(t)
        if t[0] != 'struct':
            raise AnalysisBroken('svnorm: struct index into non-struct IR type %r' % (t,))
        packed = t[2]
        off = 0
        align = 1
        offs = []
        for e in t[1]:
            s, a = self.size_align(e)
            if packed:
                a = 1
            off = (off + a - 1) // a * a
            offs.append(off)
            off += s
            align = max(align, a)
        size = (off + align - 1) // align * align
        return offs, size, align


# ==================================================================================================
# 3. module parser
# ==================================================================================================

_re_meta_suffix = re.compile(r'(?:,\s*![A-Za-z_.][\w.]*\s+![\w.]+)+\s*$')
_PARAM_ATTR = re.compile(
    r'\b(?:noundef|nonnull|nocapture|readonly|readnone|writeonly|noalias|zeroext|signext|inreg|'
    r'returned|nofree|nest|immarg|swiftself|swifterror|'
    r'align\s+\d+|dereferenceable(?:_or_null)?\(\d+\)|'
    r'(?:sret|byval|byref|inalloca|preallocated|elementtype)\([^()]*(?:\([^()]*\)[^()]*)*\))')


def split_top(s, sep=','):
    """Split at top-level separators; (), [], {} and double-quoted strings protect their content."""
    out, depth, cur, q = [], 0, [], False
    i = 0
    while i < len(s):
        ch = s[i]
        if q:
            cur.append(ch)
            if ch == '\\':
                i += 1
                if i < len(s):
                    cur.append(s[i])
            elif ch == '"':
                q = False
        elif ch == '"':
            q = True
            cur.append(ch)
        elif ch in '([{':
            depth += 1
            cur.append(ch)
        elif ch in ')]}':
            depth -= 1
            cur.append(ch)
        elif ch == sep and depth == 0:
            out.append(''.join(cur).strip())
            cur = []
        else:
            cur.append(ch)
        i += 1
    if ''.join(cur).strip():
        out.append(''.join(cur).strip())
    return out


class Param(object):
    __slots__ = ('type', 'name', 'attrs', 'deref')


class Function(object):
    def __init__(self, name):
        self.name = name
        self.ret_type = None
        self.ret_attrs = ''
        self.params = []
        self.blocks = []   # [(label, [instruction strings])]
        self.dbg = None
        self.attr_group = None
        self.raw_sig = None


class Module(object):
    def __init__(self, text, origin=''):
        self.origin = origin
        self.typedefs = {}
        self.functions = {}
        self.declares = {}
        self.attr_groups = {}
        self.meta = {}
        self._parse(text)
        self.layout = Layout(self.typedefs)
        self._di = None

    # ---- parsing -----------------------------------------------------------------------------
    def _parse(self, text):
        lines = text.split('\n')
        i = 0
        n = len(lines)
        re_type = re.compile(r'^(%' + _ID + r') = type (.*)$')
        re_def = re.compile(r'^define\b(.*?)@(' + _ID + r')\((.*)$')
        re_decl = re.compile(r'^declare\b(.*?)@(' + _ID + r')\(')
        while i < n:
            ln = lines[i]
            if ln.startswith('%'):
                m = re_type.match(ln)
                if m:
                    body = m.group(2).strip()
                    if body == 'opaque':
                        self.typedefs[m.group(1)[1:]] = ('opaque',)
                    else:
                        t, _ = parse_type(body)
                        self.typedefs[m.group(1)[1:]] = t
            elif ln.startswith('define'):
                m = re_def.match(ln)
                if not m:
                    raise AnalysisBroken('svnorm: cannot parse define line: ' + ln[:200])
                f = Function(m.group(2).strip('"'))
                f.raw_sig = (m.group(1), m.group(3))
                mm = re.search(r'!dbg (!\d+)\s*\{\s*$', ln)
                f.dbg = mm.group(1) if mm else None
                i += 1
                label = 'entry'
                cur = []
                while i < n and lines[i] != '}':
                    s = lines[i]
                    mm = re.match(r'^(' + _ID + r'):', s)
                    if mm and not s.startswith(' '):
                        f.blocks.append((label, cur))
                        label, cur = mm.group(1).strip('"'), []
                    else:
                        if ';' in s and '"' not in s:
                            s = s.split(';')[0]
                        s = s.strip()
                        if s and not s.startswith(';'):
                            # invoke continuation lines
                            if cur and (s.startswith('to label') or s.startswith('catch ')
                                        or s.startswith('cleanup') or s.startswith('filter ')):
                                cur[-1] += ' ' + s
                            else:
                                cur.append(s)
                    i += 1
                f.blocks.append((label, cur))
                self.functions[f.name] = f
            elif ln.startswith('declare'):
                m = re_decl.match(ln)
                if m:
                    g = re.search(r'#(\d+)\s*$', ln)
                    self.declares[m.group(2).strip('"')] = g.group(1) if g else None
            elif ln.startswith('attributes #'):
                m = re.match(r'^attributes #(\d+) = \{(.*)\}\s*$', ln)
                if m:
                    self.attr_groups[m.group(1)] = m.group(2)
            elif ln.startswith('!') and ' = ' in ln:
                k, _, v = ln.partition(' = ')
                self.meta[k.strip()] = v.strip()
            i += 1

    def _parse_signature(self, f, before, after):
        # return type: what is left of `before` after dropping linkage words and return attributes
        b = before
        f.ret_attrs = ' '.join(re.findall(r'\b(zeroext|signext)\b', b))
        b = re.sub(r'\b(?:align\s+\d+|dereferenceable(?:_or_null)?\(\d+\))', ' ', b)
        b = re.sub(r'\b(?:dso_local|dso_preemptable|linkonce_odr|linkonce|weak_odr|weak|internal|private|'
                   r'external|available_externally|hidden|protected|default|unnamed_addr|local_unnamed_addr|'
                   r'fastcc|ccc|coldcc|noundef|nonnull|zeroext|signext|noalias)\b', ' ', b).strip()
        f.ret_type, j = parse_type(b)
        if b[j:].strip():
            raise AnalysisBroken('svnorm: unparsed return type remainder %r in %s' % (b[j:], f.name))
        # parameter list: up to the matching ')'
        depth = 1
        k = 0
        q = False
        while k < len(after):
            ch = after[k]
            if q:
                if ch == '"':
                    q = False
            elif ch == '"':
                q = True
            elif ch == '(':
                depth += 1
            elif ch == ')':
                depth -= 1
                if depth == 0:
                    break
            k += 1
        plist = after[:k]
        rest = after[k + 1:]
        for ps in split_top(plist):
            if ps == '...':
                continue
            p = Param()
            p.type, j = parse_type(ps)
            tail = ps[j:]
            m = re.search(r'(%' + _ID + r')\s*$', tail)
            p.name = m.group(1) if m else None
            p.attrs = tail[:m.start()] if m else tail
            d = re.search(r'dereferenceable\((\d+)\)', p.attrs)
            p.deref = int(d.group(1)) if d else None
            f.params.append(p)
        f.raw_sig = None
        m = re.search(r'#(\d+)', re.sub(r'"[^"]*"', '', rest))
        f.attr_group = m.group(1) if m else None

    # ---- queries ------------------------------------------------------------------------------
    def is_noreturn(self, callee, call_group=None):
        for g in (call_group, self.declares.get(callee),
                  self.function(callee).attr_group if callee in self.functions else None):
            if g is not None and re.search(r'\bnoreturn\b', self.attr_groups.get(g, '')):
                return True
        return False

    @property
    def di(self):
        if self._di is None:
            self._di = DebugInfo(self.meta)
        return self._di

    def normal_form(self, fn_name):
        if fn_name not in self.functions:
            raise AnalysisBroken('svnorm: wrapper %s was not emitted in %s' % (fn_name, self.origin))
        return Evaluator(self, self.function(fn_name)).run()

    def function(self, fn_name):
        f = self.functions[fn_name]
        if f.raw_sig is not None:
            self._parse_signature(f, f.raw_sig[0], f.raw_sig[1])
        return f

    def param_record(self, fn_name, k):
        """Debug-info record type of the object the k-th parameter of fn_name refers to."""
        f = self.functions.get(fn_name)
        if f is None or f.dbg is None:
            raise AnalysisBroken('svnorm: no debug info for wrapper %s in %s' % (fn_name, self.origin))
        rec = self.di.subprogram_param_record(f.dbg, k)
        if rec.declaration:
            raise AnalysisBroken('svnorm: debug info of %s has only a forward declaration of %s'
                                 % (self.origin, rec.qualified))
        return rec


# ==================================================================================================
# 4. symbolic evaluation of a wrapper body
# ==================================================================================================

class NormalForm(object):
    """Result of normalising one wrapper.
    expr     Lin | Pred | Select | Guarded | None (void)
    bits     width of the returned IR value (0 for void), is_ptr, ret_ext ('zeroext'/'signext'/'')
    conds    side conditions under which the modular IR arithmetic was read as integer arithmetic
    effects  {address key: (nbytes, Lin)} final stores (for `void` wrappers such as swap)
    calls    [(callee, [argument Lin])] calls left in the body
    params   [(bits, is_ptr, dereferenceable)]"""

    def __init__(self):
        self.expr = None
        self.bits = 0
        self.is_ptr = False
        self.ret_ext = ''
        self.conds = []
        self.effects = {}
        self.calls = []
        self.params = []
        self.ninstr = 0

    def same_value(self, other):
        return (self.expr == other.expr and self.bits == other.bits and self.is_ptr == other.is_ptr
                and self.effects == other.effects and self.calls == other.calls)


_SKIP_CALLS = ('llvm.dbg.', 'llvm.lifetime.', 'llvm.assume', 'llvm.experimental.noalias.scope.decl',
               'llvm.donothing')
_re_call = re.compile(r'^(?:(%' + _ID + r') = )?(?:tail |musttail |notail )?(call|invoke)\b(.*)$')


class Evaluator(object):
    MAX_INSTR = 64

    def __init__(self, module, fn):
        self.m = module
        self.f = fn
        self.env = {}
        self.nf = NormalForm()
        self.mem = {}      # addr key -> (nbytes, Lin)
        self.store_bases = set()

    def broken(self, why, ins=None):
        raise AnalysisBroken('svnorm: cannot normalise wrapper %s (%s)%s [%s]'
                             % (self.f.name, why, (': `%s`' % ins[:160]) if ins else '', self.m.origin))

    # ---- values -------------------------------------------------------------------------------
    # env maps SSA name -> (kind, bits, sym): kind in 'int','ptr','bool'; sym Lin | Pred | Select
    def bits_of(self, t):
        t = self.m.layout.resolve(t)
        if t[0] == 'int':
            return ('bool' if t[1] == 1 else 'int'), t[1]
        if t[0] == 'ptr':
            return 'ptr', 64
        self.broken('value of unsupported IR type %r' % (t,))

    def operand(self, ty, tok):
        kind, bits = self.bits_of(ty)
        tok = tok.strip()
        if tok.startswith('%'):
            if tok not in self.env:
                self.broken('use of an undefined or unsupported value ' + tok)
            return self.env[tok]
        if kind == 'bool':
            if tok in ('true', 'false'):
                return (kind, 1, TRUE if tok == 'true' else FALSE)
            if tok in ('0', '1'):
                return (kind, 1, TRUE if tok == '1' else FALSE)
        if re.match(r'^-?\d+$', tok):
            return (kind, bits, Lin.const(int(tok)))
        if tok == 'null':
            return ('ptr', 64, Lin.const(0))
        self.broken('unsupported operand `%s`' % tok)

    def typed_operand(self, s):
        ty, j = parse_type(s)
        rest = _PARAM_ATTR.sub(' ', s[j:]).strip()
        return ty, self.operand(ty, rest)

    def fits(self, L, lo, hi, what):
        """True if L is known to lie in [lo,hi]; records a side condition when only the tight
        (size_type <= difference_type max) reading shows it."""
        a, b = L.interval(False)
        if a is not None and b is not None and lo <= a and b <= hi:
            return True
        a, b = L.interval(True)
        if a is not None and b is not None and lo <= a and b <= hi:
            c = ('%s: read as integer arithmetic assuming every size_type quantity in it is <= '
                 'numeric_limits<difference_type>::max() [%s]' % (what, show(L)))
            if c not in self.nf.conds:
                self.nf.conds.append(c)
            return True
        return False

    # ---- driver -------------------------------------------------------------------------------
    def run(self):
        f = self.f
        nf = self.nf
        for k, p in enumerate(f.params):
            kind, bits = self.bits_of(p.type)
            if kind == 'bool':
                self.broken('i1 parameter')
            self.env[p.name] = (kind, bits, Lin.atom(('arg', k, bits)))
            nf.params.append((bits, kind == 'ptr', p.deref))
            # cross-check of the own struct layout: dereferenceable(n) == sizeof (pointee)
            if kind == 'ptr' and p.deref is not None and p.type[1] is not None:
                pt = self.m.layout.resolve(p.type[1])
                if pt[0] == 'struct':
                    size, _ = self.m.layout.size_align(pt)
                    if size != p.deref:
                        self.broken('own IR struct layout gives sizeof %d for parameter %d but the '
                                    'front end says dereferenceable(%d)' % (size, k, p.deref))
        nf.ret_ext = f.ret_attrs
        blocks = dict(f.blocks)
        order = [b for b, _ in f.blocks]
        res = self.block(order[0], blocks, 0)
        kind, payload = res
        if kind == 'ret':
            self.finish_ret(payload)
        elif kind == 'guard':
            cond, tlabel, flabel = payload
            rt = self.peek_terminal(blocks, tlabel)
            rf = self.peek_terminal(blocks, flabel)
            if rt[0] == 'trap' and rf[0] != 'trap':
                cond, good, trap = not_(cond), flabel, rt[1]
            elif rf[0] == 'trap' and rt[0] != 'trap':
                good, trap = tlabel, rf[1]
            else:
                self.broken('two-way branch whose arms are not (return, trap)')
            r2 = self.block(good, blocks, 1)
            if r2[0] != 'ret':
                self.broken('nested control flow')
            self.finish_ret(r2[1])
            if self.nf.expr is None:
                self.broken('guarded void body')
            self.nf.expr = Guarded(cond, self.nf.expr, trap)
        else:
            self.broken('body does not end in ret')
        nf.effects = dict(self.mem)
        return nf

    def finish_ret(self, v):
        if v is None:
            return
        kind, bits, sym = v
        self.nf.bits = bits
        self.nf.is_ptr = kind == 'ptr'
        self.nf.expr = sym

    def peek_terminal(self, blocks, label):
        """('trap', callee) if the block is {call noreturn; unreachable}, else ('other',)."""
        ins = [_re_meta_suffix.sub('', s) for s in blocks.get(label, [])]
        ins = [s for s in ins if not self.is_skipped(s)]
        if len(ins) == 2 and ins[1] == 'unreachable':
            m = _re_call.match(ins[0])
            if m:
                cm = re.search(r'@(' + _ID + r')\(', m.group(3))
                if cm:
                    return ('trap', cm.group(1).strip('"'))
        return ('other',)

    def is_skipped(self, s):
        m = _re_call.match(s)
        if m:
            cm = re.search(r'@(' + _ID + r')\s*\(', m.group(3))
            if cm and cm.group(1).strip('"').startswith(_SKIP_CALLS):
                return True
        return False

    def block(self, label, blocks, depth):
        if label not in blocks:
            self.broken('branch to unknown block %s' % label)
        for s in blocks[label]:
            s = _re_meta_suffix.sub('', s)
            if self.is_skipped(s):
                continue
            self.nf.ninstr += 1
            if self.nf.ninstr > self.MAX_INSTR:
                self.broken('more than %d instructions: not a loop-free observer closed form' % self.MAX_INSTR)
            r = self.instr(s)
            if r is not None:
                return r
        self.broken('block %s has no terminator' % label)

    # ---- instructions ---------------------------------------------------------------------------
    def instr(self, s):
        if s.startswith('ret '):
            body = s[4:].strip()
            if body == 'void':
                return ('ret', None)
            ty, v = self.typed_operand(body)
            return ('ret', v)
        if s.startswith('br '):
            m = re.match(r'^br i1 (\S+), label %(' + _ID + r'), label %(' + _ID + r')$', s)
            if m:
                c = self.operand(('int', 1), m.group(1))
                if not isinstance(c[2], Pred):
                    self.broken('branch on a non-comparison', s)
                return ('guard', (c[2], m.group(2).strip('"'), m.group(3).strip('"')))
            self.broken('unconditional branch / control flow', s)
        if s == 'unreachable':
            self.broken('unreachable on the main path', s)
        if s.startswith('store '):
            return self.do_store(s)
        m = _re_call.match(s)
        if m:
            return self.do_call(s, m)
        m = re.match(r'^(%' + _ID + r') = (\w+)\s*(.*)$', s)
        if not m:
            self.broken('unrecognised instruction', s)
        dst, op, rest = m.group(1), m.group(2), m.group(3)
        h = getattr(self, 'op_' + op, None)
        if h is None:
            self.broken('unsupported instruction `%s`' % op, s)
        self.env[dst] = h(rest, s)
        return None

    def op_getelementptr(self, rest, s):
        rest = re.sub(r'^inbounds\s+', '', rest)
        parts = split_top(rest)
        if len(parts) < 2:
            self.broken('malformed getelementptr', s)
        ety, j = parse_type(parts[0])
        if parts[0][j:].strip():
            self.broken('malformed getelementptr element type', s)
        pty, base = self.typed_operand(parts[1])
        if base[0] != 'ptr':
            self.broken('getelementptr on a non-pointer', s)
        addr = base[2]
        cur = ety
        for n, ps in enumerate(parts[2:]):
            ity, idx = self.typed_operand(ps)
            if n == 0:
                size, _ = self.m.layout.size_align(cur)
                addr = addr + self.index64(idx, s) * size
                continue
            t = self.m.layout.resolve(cur)
            if t[0] == 'struct':
                if not (isinstance(idx[2], Lin) and idx[2].is_const()):
                    self.broken('variable struct index', s)
                offs, _, _ = self.m.layout.struct_offsets(t)
                k = idx[2].c
                if not 0 <= k < len(offs):
                    self.broken('struct index out of range', s)
                addr = addr + offs[k]
                cur = t[1][k]
            elif t[0] == 'array':
                size, _ = self.m.layout.size_align(t[2])
                addr = addr + self.index64(idx, s) * size
                cur = t[2]
            else:
                self.broken('getelementptr index into %r' % (t[0],), s)
        return ('ptr', 64, addr)

    def index64(self, idx, s):
        kind, bits, sym = idx
        if not isinstance(sym, Lin):
            self.broken('non-linear getelementptr index', s)
        if bits == 64:
            return sym
        # an index narrower than the pointer is sign-extended
        if self.fits(sym, -(1 << (bits - 1)), (1 << (bits - 1)) - 1, 'getelementptr index sext i%d' % bits):
            return sym
        self.broken('getelementptr index i%d may not be sign-extended value-preservingly' % bits, s)

    def op_load(self, rest, s):
        if re.match(r'^(volatile|atomic)\b', rest):
            self.broken('volatile/atomic load', s)
        parts = split_top(rest)
        ty, j = parse_type(parts[0])
        kind, bits = self.bits_of(ty)
        pty, p = self.typed_operand(parts[1])
        if p[0] != 'ptr':
            self.broken('load through a non-pointer', s)
        if self.nf.calls:
            self.broken('load after an opaque call', s)
        nbytes, _ = self.m.layout.size_align(ty)
        key = p[2].key()
        if key in self.mem:
            sb, val = self.mem[key]
            if sb != nbytes:
                self.broken('load of %d bytes from a location stored with %d bytes' % (nbytes, sb), s)
            return (kind, bits, val)
        self.check_no_overlap(p[2], nbytes, s)
        if kind == 'bool':
            self.broken('i1 load', s)
        return (kind, bits, Lin.atom(('mem', key, nbytes)))

    def check_no_overlap(self, addr, nbytes, s):
        """A load from initial memory must not overlap an earlier store (different key)."""
        for k, (sb, _) in self.mem.items():
            o = lin_from_key(k)
            d = addr - o
            if d.is_const():
                if -nbytes < d.c < sb:
                    self.broken('partially overlapping load/store', s)
            else:
                c = 'distinct pointer arguments refer to non-overlapping objects'
                if c not in self.nf.conds:
                    self.nf.conds.append(c)

    def do_store(self, s):
        rest = s[len('store '):]
        if re.match(r'^(volatile|atomic)\b', rest):
            self.broken('volatile/atomic store', s)
        parts = split_top(rest)
        ty, v = self.typed_operand(parts[0])
        pty, p = self.typed_operand(parts[1])
        if not isinstance(v[2], Lin) or p[0] != 'ptr':
            self.broken('unsupported store', s)
        if self.nf.calls:
            self.broken('store after an opaque call', s)
        nbytes, _ = self.m.layout.size_align(ty)
        key = p[2].key()
        for k, (sb, _) in list(self.mem.items()):
            if k == key:
                continue
            d = p[2] - lin_from_key(k)
            if d.is_const() and -nbytes < d.c < sb:
                self.broken('partially overlapping stores', s)
            if not d.is_const():
                c = 'distinct pointer arguments refer to non-overlapping objects'
                if c not in self.nf.conds:
                    self.nf.conds.append(c)
        self.mem[key] = (nbytes, v[2])
        return None

    def do_call(self, s, m):
        body = m.group(3)
        cm = re.search(r'@(' + _ID + r')\s*\(', body)
        if not cm:
            self.broken('indirect call', s)
        callee = cm.group(1).strip('"')
        # arguments
        depth = 0
        k = cm.end() - 1
        start = k + 1
        q = False
        while k < len(body):
            ch = body[k]
            if q:
                if ch == '"':
                    q = False
            elif ch == '"':
                q = True
            elif ch == '(':
                depth += 1
            elif ch == ')':
                depth -= 1
                if depth == 0:
                    break
            k += 1
        args = []
        for a in split_top(body[start:k]):
            ty, v = self.typed_operand(a)
            if not isinstance(v[2], Lin):
                self.broken('non-linear call argument', s)
            args.append(v[2])
        if m.group(2) == 'invoke':
            self.broken('invoke in an observer wrapper', s)
        if m.group(1) is not None:
            self.broken('value-returning call left in the body: the observer was not reduced '
                        'to a closed form (callee %s)' % callee, s)
        self.nf.calls.append((callee, args))
        return None

    def op_bitcast(self, rest, s):
        m = re.match(r'^(.*)\s+to\s+(.*)$', rest)
        ty, v = self.typed_operand(m.group(1))
        ty2, _ = parse_type(m.group(2))
        k2, b2 = self.bits_of(ty2)
        if v[0] != k2:
            self.broken('bitcast between value kinds', s)
        return v

    def op_freeze(self, rest, s):
        ty, v = self.typed_operand(rest)
        return v

    def op_ptrtoint(self, rest, s):
        m = re.match(r'^(.*)\s+to\s+(.*)$', rest)
        ty, v = self.typed_operand(m.group(1))
        ty2, _ = parse_type(m.group(2))
        k2, b2 = self.bits_of(ty2)
        if b2 != 64:
            self.broken('ptrtoint to a narrower integer', s)
        return ('int', 64, v[2])

    def op_inttoptr(self, rest, s):
        m = re.match(r'^(.*)\s+to\s+(.*)$', rest)
        ty, v = self.typed_operand(m.group(1))
        if v[1] != 64 or not isinstance(v[2], Lin):
            self.broken('inttoptr from a narrower integer', s)
        return ('ptr', 64, v[2])

    def _binop(self, rest, s):
        rest = re.sub(r'^(?:(?:nuw|nsw|exact)\s+)+', '', rest)
        parts = split_top(rest)
        ty, a = self.typed_operand(parts[0])
        b = self.operand(ty, parts[1])
        return ty, a, b

    def _arith(self, rest, s, fn):
        ty, a, b = self._binop(rest, s)
        if a[0] == 'bool' or not isinstance(a[2], Lin) or not isinstance(b[2], Lin):
            self.broken('arithmetic on a non-linear value', s)
        return (a[0], a[1], fn(a[2], b[2]))

    def op_add(self, rest, s):
        return self._arith(rest, s, lambda x, y: x + y)

    def op_sub(self, rest, s):
        return self._arith(rest, s, lambda x, y: x - y)

    def op_mul(self, rest, s):
        return self._arith(rest, s, lambda x, y: x * y)

    def op_shl(self, rest, s):
        def f(x, y):
            if not y.is_const() or not 0 <= y.c < 64:
                self.broken('variable shift', s)
            return x * (1 << y.c)
        return self._arith(rest, s, f)

    def _exact_div(self, rest, s, signed, shift):
        exact = re.match(r'^exact\b', rest) is not None
        ty, a, b = self._binop(rest, s)
        if not isinstance(a[2], Lin) or not isinstance(b[2], Lin) or not b[2].is_const():
            self.broken('division by a non-constant', s)
        d = (1 << b[2].c) if shift else b[2].c
        if d <= 0:
            self.broken('division by a non-positive constant', s)
        q = a[2].exact_div(d)
        bits = a[1]
        if q is None:
            self.broken('division by %d does not divide the linear form %s' % (d, show(a[2])), s)
        # sound when the dividend is read in the right signedness without wrap-around: with
        # pointer differences the pointers cancel, what is left must fit
        lo, hi = (-(1 << (bits - 1)), (1 << (bits - 1)) - 1) if signed else (0, (1 << bits) - 1)
        if not self.fits(a[2], lo, hi, 'division i%d' % bits):
            if not exact:
                self.broken('inexact division of a value whose range is unknown', s)
            c = ('exact division: the dividend %s is an in-bounds pointer difference, i.e. the array '
                 'size in bytes does not exceed PTRDIFF_MAX' % show(a[2]))
            if c not in self.nf.conds:
                self.nf.conds.append(c)
        return (a[0], bits, q)

    def op_sdiv(self, rest, s):
        return self._exact_div(rest, s, True, False)

    def op_udiv(self, rest, s):
        return self._exact_div(rest, s, False, False)

    def op_ashr(self, rest, s):
        return self._exact_div(rest, s, True, True)

    def op_lshr(self, rest, s):
        return self._exact_div(rest, s, False, True)

    def op_zext(self, rest, s):
        return self._ext(rest, s, False)

    def op_sext(self, rest, s):
        return self._ext(rest, s, True)

    def _ext(self, rest, s, signed):
        m = re.match(r'^(.*)\s+to\s+(.*)$', rest)
        ty, v = self.typed_operand(m.group(1))
        ty2, _ = parse_type(m.group(2))
        k2, b2 = self.bits_of(ty2)
        if v[0] == 'bool':
            if signed or not isinstance(v[2], Pred):
                self.broken('extension of a boolean', s)
            return ('int', b2, Select(v[2], Lin.const(1), Lin.const(0)) if v[2].kind not in ('true', 'false')
                    else Lin.const(1 if v[2].kind == 'true' else 0))
        if not isinstance(v[2], Lin):
            self.broken('extension of a non-linear value', s)
        b = v[1]
        lo, hi = (-(1 << (b - 1)), (1 << (b - 1)) - 1) if signed else (0, (1 << b) - 1)
        if not self.fits(v[2], lo, hi, '%s i%d to i%d' % ('sext' if signed else 'zext', b, b2)):
            self.broken('%s of a value that may wrap: %s' % ('sext' if signed else 'zext', show(v[2])), s)
        return ('int', b2, v[2])

    def op_trunc(self, rest, s):
        m = re.match(r'^(.*)\s+to\s+(.*)$', rest)
        ty, v = self.typed_operand(m.group(1))
        ty2, _ = parse_type(m.group(2))
        k2, b2 = self.bits_of(ty2)
        if not isinstance(v[2], Lin) or k2 == 'bool':
            self.broken('unsupported trunc', s)
        return ('int', b2, v[2])   # modulo 2**b2 by the convention of this evaluator

    def op_icmp(self, rest, s):
        m = re.match(r'^(\w+)\s+(.*)$', rest)
        pred, ops = m.group(1), m.group(2)
        parts = split_top(ops)
        ty, a = self.typed_operand(parts[0])
        b = self.operand(ty, parts[1])
        if not isinstance(a[2], Lin) or not isinstance(b[2], Lin):
            self.broken('comparison of non-linear values', s)
        bits = a[1]
        A, B = a[2], b[2]
        ur = (0, (1 << bits) - 1)
        sr = (-(1 << (bits - 1)), (1 << (bits - 1)) - 1)
        what = 'icmp %s i%d' % (pred, bits)
        if pred in ('eq', 'ne'):
            d = A - B
            ok = (self.fits(A, ur[0], ur[1], what) and self.fits(B, ur[0], ur[1], what)) or \
                 (self.fits(A, sr[0], sr[1], what) and self.fits(B, sr[0], sr[1], what))
            if not ok:
                # pointer (in)equality of p + k*x forms: the difference must itself be small
                lo, hi = d.interval(False)
                ok = lo is not None and hi is not None and -(1 << bits) < lo and hi < (1 << bits)
            if not ok:
                self.broken('equality of values that may wrap', s)
            return ('bool', 1, eq0(d, pred == 'ne'))
        signed = pred[0] == 's'
        r = sr if signed else ur
        if not (self.fits(A, r[0], r[1], what) and self.fits(B, r[0], r[1], what)):
            self.broken('ordering comparison of values that may wrap: %s , %s' % (show(A), show(B)), s)
        rel = pred[1:]
        if rel == 'lt':
            p = lt(A, B)
        elif rel == 'le':
            p = le(A, B)
        elif rel == 'gt':
            p = lt(B, A)
        elif rel == 'ge':
            p = le(B, A)
        else:
            self.broken('unknown icmp predicate', s)
        return ('bool', 1, p)

    def op_xor(self, rest, s):
        ty, a, b = self._binop(rest, s)
        if a[0] == 'bool' and isinstance(a[2], Pred) and isinstance(b[2], Pred):
            if b[2].kind == 'true':
                return ('bool', 1, not_(a[2]))
            if b[2].kind == 'false':
                return a
            if a[2].kind == 'true':
                return ('bool', 1, not_(b[2]))
            if a[2].kind == 'false':
                return b
        self.broken('unsupported xor', s)

    def op_select(self, rest, s):
        parts = split_top(rest)
        cty, c = self.typed_operand(parts[0])
        ty, a = self.typed_operand(parts[1])
        ty2, b = self.typed_operand(parts[2])
        if not isinstance(c[2], Pred):
            self.broken('select on a non-comparison', s)
        if isinstance(a[2], Pred) != isinstance(b[2], Pred):
            self.broken('select of mixed kinds', s)
        return (a[0], a[1], select(c[2], a[2], b[2]))

    def op_phi(self, rest, s):
        self.broken('phi: the body is not loop-free straight-line code', s)


# ==================================================================================================
# 5. debug-info records (what a debugger sees)
# ==================================================================================================

def _md_fields(body):
    """'tag: X, name: "a, b", flags: A | B' -> dict."""
    out = {}
    for part in split_top(body):
        k, sep, v = part.partition(':')
        if sep:
            out[k.strip()] = v.strip()
    return out


class Member(object):
    """One DWARF child of a record, in DWARF order.
    kind 'base' | 'field' | 'static';  name (None for bases);  type_id;  offset/size in bytes"""
    __slots__ = ('kind', 'name', 'type_id', 'offset', 'size', 'const_value', 'bit')

    def __repr__(self):
        return '<%s %s @%s+%s>' % (self.kind, self.name, self.offset, self.size)


class Record(object):
    def __init__(self, di, tid):
        self.di = di
        self.tid = tid
        self.tag = None
        self.name = None          # unqualified DWARF name, e.g. small_vector<int, 3U, std::allocator<int> >
        self.qualified = None     # scope-qualified (what gdb calls the type's tag)
        self.size = None
        self.members = []         # DWARF order: bases first, then members (static ones included)
        self.declaration = False

    def bases(self):
        return [m for m in self.members if m.kind == 'base']

    def fields(self):
        return [m for m in self.members if m.kind in ('field', 'static')]


class DebugInfo(object):
    def __init__(self, meta):
        self.meta = meta
        self._nodes = {}
        self._records = {}

    def node(self, mid):
        if mid in self._nodes:
            return self._nodes[mid]
        raw = self.meta.get(mid)
        if raw is None:
            raise AnalysisBroken('svnorm: metadata node %s missing' % mid)
        raw = re.sub(r'^distinct\s+', '', raw)
        if raw.startswith('!{'):
            r = ('list', [x.strip() for x in split_top(raw[2:raw.rindex('}')])])
        else:
            m = re.match(r'^!(\w+)\((.*)\)$', raw)
            if not m:
                r = ('raw', raw)
            else:
                r = (m.group(1), _md_fields(m.group(2)))
        self._nodes[mid] = r
        return r

    @staticmethod
    def _str(v):
        if v is None:
            return None
        v = v.strip()
        if v.startswith('"'):
            v = v[1:-1]
            v = re.sub(r'\\([0-9A-Fa-f]{2})', lambda m: chr(int(m.group(1), 16)), v)
        return v

    def qualified_name(self, mid):
        parts = []
        cur = mid
        guard = 0
        while cur and cur.startswith('!') and guard < 40:
            guard += 1
            kind, f = self.node(cur)
            if kind in ('DICompositeType', 'DINamespace', 'DIDerivedType', 'DIBasicType'):
                nm = self._str(f.get('name'))
                if kind == 'DINamespace':
                    if nm is None:
                        nm = '(anonymous namespace)'
                    # inline namespaces are part of the DWARF name chain as well
                if nm is not None:
                    parts.append(nm)
                cur = f.get('scope')
            else:
                break
        return '::'.join(reversed(parts))

    def strip_to_record(self, tid, through_pointers=False):
        """Follow typedef/cv (and optionally reference/pointer) wrappers down to a composite."""
        guard = 0
        while tid and tid != 'null' and guard < 40:
            guard += 1
            kind, f = self.node(tid)
            if kind == 'DICompositeType':
                return tid
            if kind == 'DIDerivedType':
                tag = f.get('tag')
                if tag in ('DW_TAG_typedef', 'DW_TAG_const_type', 'DW_TAG_volatile_type',
                           'DW_TAG_restrict_type', 'DW_TAG_atomic_type') or \
                   (through_pointers and tag in ('DW_TAG_reference_type', 'DW_TAG_rvalue_reference_type',
                                                 'DW_TAG_pointer_type')):
                    tid = f.get('baseType')
                    continue
            return None
        return None

    def scalar_info(self, tid):
        """('pointer'|'int'|'other', size_bytes or None, spelled name) of a non-record type."""
        guard = 0
        name = None
        while tid and tid != 'null' and guard < 40:
            guard += 1
            kind, f = self.node(tid)
            if kind == 'DIBasicType':
                enc = f.get('encoding', '')
                sz = int(f.get('size', '0')) // 8
                k = 'int' if ('signed' in enc or 'unsigned' in enc or 'boolean' in enc or 'char' in enc.lower()) else 'other'
                return (k, sz, name or self._str(f.get('name')))
            if kind == 'DIDerivedType':
                tag = f.get('tag')
                if tag in ('DW_TAG_pointer_type', 'DW_TAG_reference_type', 'DW_TAG_rvalue_reference_type'):
                    return ('pointer', int(f.get('size', '64')) // 8, name, f.get('baseType'))
                if name is None and tag == 'DW_TAG_typedef':
                    name = self._str(f.get('name'))
                tid = f.get('baseType')
                continue
            if kind == 'DICompositeType':
                return ('record', int(f.get('size', '0')) // 8, self.qualified_name(tid))
            break
        return ('other', None, name)

    def record(self, tid):
        if tid in self._records:
            return self._records[tid]
        kind, f = self.node(tid)
        if kind != 'DICompositeType':
            raise AnalysisBroken('svnorm: %s is not a composite type' % tid)
        r = Record(self, tid)
        self._records[tid] = r
        r.tag = f.get('tag')
        r.name = self._str(f.get('name'))
        r.qualified = self.qualified_name(tid)
        r.size = int(f.get('size', '0')) // 8
        r.declaration = 'DIFlagFwdDecl' in f.get('flags', '')
        el = f.get('elements')
        if el and el.startswith('!'):
            k2, items = self.node(el)
            if k2 == 'list':
                for it in items:
                    if not it.startswith('!'):
                        continue
                    ik, fi = self.node(it)
                    if ik != 'DIDerivedType':
                        continue
                    tag = fi.get('tag')
                    m = Member()
                    m.type_id = fi.get('baseType')
                    m.offset = int(fi.get('offset', '0')) // 8
                    m.bit = int(fi.get('offset', '0')) % 8
                    m.size = (int(fi['size']) // 8) if 'size' in fi else None
                    m.const_value = None
                    if tag == 'DW_TAG_inheritance':
                        m.kind = 'base'
                        m.name = None
                        if 'DIFlagVirtual' in fi.get('flags', ''):
                            raise AnalysisBroken('svnorm: virtual base in %s' % r.qualified)
                        bt = self.strip_to_record(m.type_id)
                        if bt is not None:
                            m.size = int(self.node(bt)[1].get('size', '0')) // 8
                    elif tag == 'DW_TAG_member':
                        m.name = self._str(fi.get('name'))
                        if 'DIFlagStaticMember' in fi.get('flags', ''):
                            m.kind = 'static'
                            ev = fi.get('extraData')
                            if ev:
                                mm = re.match(r'^i\d+\s+(-?\d+)$', ev)
                                if mm:
                                    m.const_value = int(mm.group(1))
                        else:
                            m.kind = 'field'
                    else:
                        continue
                    r.members.append(m)
        return r

    def subprogram_param_record(self, sp_id, k):
        kind, f = self.node(sp_id)
        if kind != 'DISubprogram':
            raise AnalysisBroken('svnorm: %s is not a DISubprogram' % sp_id)
        kt, ft = self.node(f['type'])
        kl, types = self.node(ft['types'])
        if k + 1 >= len(types):
            raise AnalysisBroken('svnorm: wrapper has no parameter %d in its debug info' % k)
        tid = self.strip_to_record(types[k + 1], through_pointers=True)
        if tid is None:
            raise AnalysisBroken('svnorm: parameter %d of the wrapper is not a record in debug info' % k)
        return self.record(tid)


def flatten(rec, _off=0, _depth=0):
    """All sub-objects of a record as a list of dicts
    {path: tuple of member names (bases are transparent), via: tuple incl. '<base:Name>' steps,
     offset, size, kind: 'pointer'|'int'|'record'|'other', type: spelled type, static, value}."""
    if _depth > 12:
        raise AnalysisBroken('svnorm: record nesting too deep')
    di = rec.di
    out = []
    for m in rec.members:
        sub = di.strip_to_record(m.type_id) if m.type_id else None
        if m.kind == 'base':
            if sub is None:
                continue
            b = di.record(sub)
            step = '<base:%s>' % b.qualified
            out.append({'path': (), 'via': (step,), 'offset': _off + m.offset, 'size': b.size,
                        'kind': 'base', 'type': b.qualified, 'static': False, 'value': None})
            for e in flatten(b, _off + m.offset, _depth + 1):
                e = dict(e)
                e['via'] = (step,) + e['via']
                out.append(e)
        elif m.kind == 'static':
            out.append({'path': (m.name,), 'via': (m.name,), 'offset': None, 'size': None,
                        'kind': 'static', 'type': '', 'static': True, 'value': m.const_value})
        else:
            if sub is not None:
                b = di.record(sub)
                out.append({'path': (m.name,), 'via': (m.name,), 'offset': _off + m.offset,
                            'size': m.size if m.size is not None else b.size, 'kind': 'record',
                            'type': b.qualified, 'static': False, 'value': None})
                for e in flatten(b, _off + m.offset, _depth + 1):
                    e = dict(e)
                    e['path'] = (m.name,) + e['path']
                    e['via'] = (m.name,) + e['via']
                    out.append(e)
            else:
                info = di.scalar_info(m.type_id)
                out.append({'path': (m.name,), 'via': (m.name,), 'offset': _off + m.offset,
                            'size': m.size if m.size is not None else info[1], 'kind': info[0],
                            'type': info[2] or '', 'static': False, 'value': None})
    return out


def layout_dict(rec):
    """{dotted member path (bases transparent): (offset, size)} for every non-static member."""
    out = {}
    amb = set()
    for e in flatten(rec):
        if e['kind'] in ('base', 'static') or not e['path']:
            continue
        p = '.'.join(e['path'])
        v = (e['offset'], e['size'])
        if p in out and out[p] != v:
            amb.add(p)
        out[p] = v
    for p in amb:
        out.pop(p, None)
    return out


def find_member(rec, name):
    """All distinct sub-objects (anywhere in the hierarchy: bases and member objects) whose
    last path component is `name`: list of flatten() entries, deduplicated by (offset,size)."""
    seen = {}
    for e in flatten(rec):
        if e['path'] and e['path'][-1] == name and e['kind'] not in ('base',):
            seen.setdefault((e['offset'], e['size'], e['static']), e)
    return list(seen.values())


# ==================================================================================================
# 6. compiling wrapper TUs
# ==================================================================================================

class Wrapper(object):
    """extern "C" auto NAME (PARAMS) -> std::decay<decltype (EXPR)>::type { return EXPR; }
    (valid from C++11 on; the prelude must include <type_traits>)."""
    __slots__ = ('name', 'params', 'expr', 'void', 'info')

    def __init__(self, name, params, expr, void=False, info=None):
        self.name, self.params, self.expr, self.void, self.info = name, params, expr, void, info

    def code(self):
        e = ' '.join(self.expr.split())
        if self.void:
            return 'extern "C" void %s (%s) { %s; }' % (self.name, self.params, e)
        return ('extern "C" auto %s (%s) -> typename std::decay<decltype (%s)>::type { return %s; }'
                % (self.name, self.params, e, e))


O2_FLAGS = ('-O2', '-DNDEBUG')
DI_FLAGS = ('-g', '-fstandalone-debug')


TOOLCHAIN_NOTE = ('clang 14 folds `if (std::is_constant_evaluated ())` to true in run-time code under -std=c++2b '
                  '(libstdc++ 12 implements it with `if consteval` there); the normaliser compiles c++2b units with '
                  '-U__cpp_if_consteval so that libstdc++ uses __builtin_is_constant_evaluated, as g++ and later clang do')


def std_flags(std):
    """Work-around for a clang 14 front-end bug, see TOOLCHAIN_NOTE."""
    return ['-U__cpp_if_consteval'] if std in ('c++2b', 'c++23') else []


def _clang_cmd(std, flags, src, out):
    return [common.CLANGXX, '-std=' + std, '-S', '-emit-llvm', '-w', '-ferror-limit=2000',
            '-fno-caret-diagnostics', '-fno-color-diagnostics', '-I', common.INCLUDE] \
        + std_flags(std) + list(flags) + [src, '-o', out]


def compile_wrappers(name, prelude, wrappers, std='c++17', flags=O2_FLAGS + DI_FLAGS):
    """Compile prelude + one wrapper per line.  Returns (Module, {wrapper name: first error}).
    Wrappers that do not compile are reported in the dict and left out of a second compilation,
    so one ill-formed expression (e.g. a member that no longer exists) does not hide the rest.
    An error outside every wrapper line is AnalysisBroken."""
    wrappers = list(wrappers)
    failed = {}
    for attempt in range(4):
        live = [w for w in wrappers if w.name not in failed]
        pl = prelude.rstrip('\n').split('\n')
        lines = ['// svnorm TU %s' % name] + pl
        first = len(lines) + 1
        for w in live:
            lines.append(w.code())
        src = '\n'.join(lines) + '\n'
        out, rc, err = common.cached_tool(('svnorm', name, std, ' '.join(std_flags(std) + list(flags))),
                                          lambda s, o: _clang_cmd(std, flags, s, o), '.ll', src_text=src)
        if rc == 0:
            with open(out) as f:
                text = f.read()
            return Module(text, origin='%s -std=%s %s' % (name, std, ' '.join(flags))), failed
        new = 0
        stray = []
        # a diagnostic belongs to a wrapper when any location of its block lies on the wrapper's line
        blocks = []
        for ln in err.splitlines():
            m = re.match(r'^(.*?):(\d+):(\d+): (fatal error|error|note|warning): (.*)$', ln)
            if m and m.group(4) in ('error', 'fatal error'):
                if 'too many errors emitted' in ln:
                    continue
                blocks.append([ln])
            elif blocks:
                blocks[-1].append(ln)
        for b in blocks:
            hit = None
            for ln in b:
                for m in re.finditer(r'([0-9a-f]{24}\.cpp):(\d+):', ln):
                    k = int(m.group(2)) - first
                    if 0 <= k < len(live):
                        hit = live[k]
                        break
                if hit:
                    break
            if hit is None:
                stray.append(b[0])
            elif hit.name not in failed:
                failed[hit.name] = re.sub(r'^.*?: error: ', '', b[0])[:400]
                new += 1
        if stray or not new:
            raise AnalysisBroken('svnorm: TU %s (-std=%s) does not compile for a reason not '
                                 'attributable to one wrapper: %s'
                                 % (name, std, (stray[0] if stray else err[-400:])[:600]))
    raise AnalysisBroken('svnorm: TU %s keeps failing after removing ill-formed wrappers' % name)


def normal_form(wrapper_source, fn_name, flags=O2_FLAGS, std='c++17'):
    """API of the design sketch: normal form of one `extern "C"` function in a source text."""
    out, rc, err = common.cached_tool(('svnorm-src', fn_name, std, ' '.join(flags)),
                                      lambda s, o: _clang_cmd(std, flags, s, o), '.ll',
                                      src_text=wrapper_source)
    if rc != 0:
        raise AnalysisBroken('svnorm: wrapper source for %s does not compile: %s' % (fn_name, err[-400:]))
    with open(out) as f:
        return Module(f.read(), origin=fn_name).normal_form(fn_name)


def record_layout(type_spelling, prelude, std='c++17'):
    """{dotted member path: (offset, size)} of a complete type, from clang's debug info."""
    src = prelude.rstrip('\n') + '\nextern "C" unsigned long svn_layout_root (%s& x) { return sizeof (x); }\n' % type_spelling
    out, rc, err = common.cached_tool(('svnorm-layout', type_spelling, std),
                                      lambda s, o: _clang_cmd(std, ('-O0',) + DI_FLAGS, s, o), '.ll',
                                      src_text=src)
    if rc != 0:
        raise AnalysisBroken('svnorm: layout probe for %s does not compile: %s' % (type_spelling, err[-400:]))
    with open(out) as f:
        m = Module(f.read(), origin='layout ' + type_spelling)
    rec = m.param_record('svn_layout_root', 0)
    if rec.declaration:
        raise AnalysisBroken('svnorm: debug info has only a forward declaration of %s' % type_spelling)
    return layout_dict(rec)


# ---- second, independent source of offsets: -fdump-record-layouts ----------------------------------

def dump_layouts(name, prelude, probes, std='c++17', flags=()):
    """probes: {probe struct name: type spelling}.  Compiles `struct P { T m; };` for each and
    parses clang's record-layout dump.  Returns {probe: {dotted path below m (bases transparent):
    offset}}."""
    lines = prelude.rstrip('\n').split('\n')
    for p, t in sorted(probes.items()):
        lines.append('struct %s { %s m; }; static_assert (sizeof (%s) > 0, "");' % (p, t, p))
    src = '\n'.join(lines) + '\n'
    out, rc, err = common.cached_tool(
        ('svnorm-dump', name, std, ' '.join(flags)),
        lambda s, o: [common.CLANGXX, '-std=' + std, '-fsyntax-only', '-w', '-Xclang',
                      '-fdump-record-layouts', '-I', common.INCLUDE] + std_flags(std) + list(flags) + [s],
        '.layouts', src_text=src)
    if rc != 0:
        raise AnalysisBroken('svnorm: record-layout dump TU %s does not compile: %s' % (name, err[-400:]))
    with open(out) as f:
        text = f.read()
    res = {}
    for blk in text.split('*** Dumping AST Record Layout')[1:]:
        rows = []
        for ln in blk.split('\n'):
            m = re.match(r'^\s*(\d+)(?::\d+-\d+)? \|( +)(.*)$', ln)
            if m:
                rows.append((int(m.group(1)), len(m.group(2)), m.group(3).rstrip()))
        if not rows:
            continue
        head = rows[0][2]
        hm = re.match(r'^(?:struct|class|union) (\w+)$', head)
        if not hm or hm.group(1) not in probes:
            continue
        paths = {}
        stack = []   # (indent, name or None for base)
        for off, ind, txt in rows[1:]:
            while stack and stack[-1][0] >= ind:
                stack.pop()
            t = re.sub(r'\s*\((?:empty|base|primary base|virtual base|vtable pointer|vbtable pointer)\)', '', txt)
            is_base = re.search(r'\((?:primary |virtual )?base\)', txt) is not None
            if is_base:
                stack.append((ind, None))
                continue
            mm = re.search(r'(\w+)$', t)
            nm = mm.group(1) if mm else '?'
            stack.append((ind, nm))
            path = '.'.join(n for _, n in stack if n is not None)
            paths.setdefault(path, off)
        res[hm.group(1)] = paths
    for p in probes:
        if p not in res:
            raise AnalysisBroken('svnorm: clang did not dump a record layout for probe %s' % p)
    return res


# ==================================================================================================
# 7. the shared instantiation corpus of the observer rules (C02 observers, C16 forms, C20)
# ==================================================================================================

PRELUDE = r'''
#include <gch/small_vector.hpp>
#include <cstddef>
#include <cstdint>
#include <iterator>
#include <memory>
#include <type_traits>
namespace svn {
// a 24-byte class type whose special members are opaque (declared, never defined)
struct E24 { E24 (); E24 (const E24&); E24& operator= (const E24&); ~E24 (); long a, b, c; };
// stateful allocator (8 bytes of state, so it cannot be an empty base) with a narrow size_type
template <typename T, typename SizeT>
struct SA
{
  using value_type = T;
  using size_type = SizeT;
  using difference_type = typename std::make_signed<SizeT>::type;
  using propagate_on_container_copy_assignment = std::false_type;
  using propagate_on_container_move_assignment = std::false_type;
  using propagate_on_container_swap = std::false_type;
  using is_always_equal = std::false_type;
  SA () noexcept;
  SA (const SA&) noexcept;
  SA& operator= (const SA&) noexcept;
  template <typename U> SA (const SA<U, SizeT>&) noexcept;
  template <typename U> struct rebind { using other = SA<U, SizeT>; };
  T *allocate (SizeT);
  void deallocate (T *, SizeT) noexcept;
  long id;
};
template <typename T, typename U, typename S>
bool operator== (const SA<T, S>& a, const SA<U, S>& b) noexcept { return a.id == b.id; }
template <typename T, typename U, typename S>
bool operator!= (const SA<T, S>& a, const SA<U, S>& b) noexcept { return a.id != b.id; }
}
'''


class Inst(object):
    """One instantiation small_vector<T, N, A>."""

    def __init__(self, T, N, A, tag):
        self.T, self.N, self.A, self.tag = T, N, A, tag
        self.V = 'gch::small_vector<%s, %d, %s>' % (T, N, A)
        self.ebo = A.startswith('std::allocator')

    def key(self):
        return {'T': self.T, 'N': self.N, 'allocator': self.A}


def corpus(tier):
    out = []
    elems = [('int', 'int'), ('svn::E24', 'E24')]
    ns = [0, 3]
    allocs = [('std::allocator<%s>', 'std'), ('svn::SA<%s, std::uint16_t>', 'sa16')]
    if tier == 'thorough':
        elems += [('double', 'double'), ('int *', 'intp'), ('char', 'char')]
        ns += [1, 8]
        allocs += [('svn::SA<%s, std::uint8_t>', 'sa8'), ('svn::SA<%s, std::uint32_t>', 'sa32'),
                   ('svn::SA<%s, std::uint64_t>', 'sa64')]
    for T, tn in elems:
        for N in ns:
            for A, an in allocs:
                out.append(Inst(T, N, A % T, '%s_%d_%s' % (tn, N, an)))
    return out


def stds(tier):
    return ['c++17', 'c++20'] if tier == 'quick' else list(common.STDS)


def pure_field(expr):
    """(k, off, nbytes) if the normal form is exactly one FIELD leaf, else None."""
    if isinstance(expr, Lin):
        a = expr.single_atom()
        if a is not None:
            return field_of_atom(a)
    return None


# ---- the observer TU shared by the three rule parts ------------------------------------------------
# name -> (parameter list, expression).  `V` is the instantiation; every wrapper is prefixed svn_.

_CV = 'const V& v'
_MV = 'V& v'
_IDX = ', V::size_type i'

MEMBER_OBSERVERS = [
    ('m_size', _CV, 'v.size ()'),
    ('m_capacity', _CV, 'v.capacity ()'),
    ('m_data', _MV, 'v.data ()'),
    ('m_data_c', _CV, 'v.data ()'),
    ('m_index', _MV + _IDX, '&v[i]'),
    ('m_index_c', _CV + _IDX, '&v[i]'),
    ('m_front', _MV, '&v.front ()'),
    ('m_front_c', _CV, '&v.front ()'),
    ('m_back', _MV, '&v.back ()'),
    ('m_back_c', _CV, '&v.back ()'),
    ('m_at', _MV + _IDX, '&v.at (i)'),
    ('m_at_c', _CV + _IDX, '&v.at (i)'),
    ('m_diff', _MV, 'v.end () - v.begin ()'),
    ('m_diff_c', _CV, 'v.end () - v.begin ()'),
    ('m_cdiff', _CV, 'v.cend () - v.cbegin ()'),
    ('m_rdiff', _MV, 'v.rend () - v.rbegin ()'),
    ('m_rdiff_c', _CV, 'v.rend () - v.rbegin ()'),
    ('m_crdiff', _CV, 'v.crend () - v.crbegin ()'),
    ('m_begin', _MV, 'v.begin ().base ()'),
    ('m_begin_c', _CV, 'v.begin ().base ()'),
    ('m_cbegin', _CV, 'v.cbegin ().base ()'),
    ('m_end', _MV, 'v.end ().base ()'),
    ('m_end_c', _CV, 'v.end ().base ()'),
    ('m_cend', _CV, 'v.cend ().base ()'),
    ('m_rbegin', _MV, 'v.rbegin ().base ().base ()'),
    ('m_rbegin_c', _CV, 'v.rbegin ().base ().base ()'),
    ('m_crbegin', _CV, 'v.crbegin ().base ().base ()'),
    ('m_rend', _MV, 'v.rend ().base ().base ()'),
    ('m_rend_c', _CV, 'v.rend ().base ().base ()'),
    ('m_crend', _CV, 'v.crend ().base ().base ()'),
    ('m_begin_deref', _MV, '&*v.begin ()'),
    ('m_empty', _CV, 'v.empty ()'),
    ('m_inlined', _CV, 'v.inlined ()'),
    ('m_inlinable', _CV, 'v.inlinable ()'),
    ('m_ssize', _CV, 'static_cast<svn_ssize_t> (v.size ())'),
    ('it_deref', 'const V::iterator& it', '&*it'),
    ('it_arrow', 'const V::iterator& it', 'it.operator-> ()'),
    ('cit_deref', 'const V::const_iterator& it', '&*it'),
    ('k_inline_capacity', '', 'V::inline_capacity ()'),
    ('k_sizeof_T', '', 'sizeof (V::value_type)'),
    ('k_sizeof_iterator', '', 'sizeof (V::iterator)'),
    ('k_sizeof_const_iterator', '', 'sizeof (V::const_iterator)'),
    ('k_sizeof_pointer', '', 'sizeof (V::pointer)'),
    ('k_iterator_trivially_copyable', '',
     'std::is_trivially_copyable<V::iterator>::value && std::is_trivially_copyable<V::const_iterator>::value'),
]

# non-member -> (member wrapper it must agree with, params, non-member expr, member expr for the type check)
NONMEMBER_OBSERVERS = [
    ('begin', 'm_begin', _MV, 'gch::begin (v)', 'v.begin ()', '.base ()'),
    ('begin const', 'm_begin_c', _CV, 'gch::begin (v)', 'v.begin ()', '.base ()'),
    ('cbegin', 'm_cbegin', _CV, 'gch::cbegin (v)', 'v.cbegin ()', '.base ()'),
    ('end', 'm_end', _MV, 'gch::end (v)', 'v.end ()', '.base ()'),
    ('end const', 'm_end_c', _CV, 'gch::end (v)', 'v.end ()', '.base ()'),
    ('cend', 'm_cend', _CV, 'gch::cend (v)', 'v.cend ()', '.base ()'),
    ('rbegin', 'm_rbegin', _MV, 'gch::rbegin (v)', 'v.rbegin ()', '.base ().base ()'),
    ('rbegin const', 'm_rbegin_c', _CV, 'gch::rbegin (v)', 'v.rbegin ()', '.base ().base ()'),
    ('crbegin', 'm_crbegin', _CV, 'gch::crbegin (v)', 'v.crbegin ()', '.base ().base ()'),
    ('rend', 'm_rend', _MV, 'gch::rend (v)', 'v.rend ()', '.base ().base ()'),
    ('rend const', 'm_rend_c', _CV, 'gch::rend (v)', 'v.rend ()', '.base ().base ()'),
    ('crend', 'm_crend', _CV, 'gch::crend (v)', 'v.crend ()', '.base ().base ()'),
    ('size', 'm_size', _CV, 'gch::size (v)', 'v.size ()', ''),
    ('ssize', 'm_ssize', _CV, 'gch::ssize (v)', 'static_cast<svn_ssize_t> (v.size ())', ''),
    ('empty', 'm_empty', _CV, 'gch::empty (v)', 'v.empty ()', ''),
    ('data', 'm_data', _MV, 'gch::data (v)', 'v.data ()', ''),
    ('data const', 'm_data_c', _CV, 'gch::data (v)', 'v.data ()', ''),
]


def nm_wrapper_name(nm):
    return 'n_' + nm.replace(' ', '_')


def observer_prelude(inst):
    return PRELUDE + (
        'using V = %s;\n'
        '// the return type [iterator.range] gives std::ssize: common_type_t<ptrdiff_t, make_signed_t<decltype (c.size ())>>\n'
        'using svn_ssize_t = typename std::common_type<std::ptrdiff_t, '
        'typename std::make_signed<V::size_type>::type>::type;\n' % inst.V)


def observer_wrappers():
    ws = []
    for name, params, expr in MEMBER_OBSERVERS:
        ws.append(Wrapper('svn_' + name, params, expr))
    for nm, member, params, nexpr, mexpr, tail in NONMEMBER_OBSERVERS:
        ws.append(Wrapper('svn_' + nm_wrapper_name(nm), params, nexpr + tail, info=(nm, member)))
        # the type the non-member returns is the type the member returns
        ws.append(Wrapper('svn_t_' + nm.replace(' ', '_'), params,
                          'std::is_same<decltype (%s), decltype (%s)>::value' % (nexpr, mexpr)))
    return ws


_observer_memo = {}


def observers(inst, std):
    """(Module, {failed wrapper: error}) of the shared observer TU: -O2 -DNDEBUG closed forms and
    the debug-info records of the same compilation."""
    k = (inst.tag, std)
    if k not in _observer_memo:
        _observer_memo[k] = compile_wrappers('observers-' + inst.tag, observer_prelude(inst),
                                             observer_wrappers(), std=std, flags=O2_FLAGS + DI_FLAGS)
    return _observer_memo[k]


def prefetch_observers(insts, stds_):
    jobs = [(i, s) for i in insts for s in stds_]

    def one(j):
        try:
            observers(j[0], j[1])
        except AnalysisBroken:
            pass   # re-raised by the caller that needs this TU
    common.pmap(one, jobs)
