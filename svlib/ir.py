"""Textual LLVM-IR (clang 14, typed pointers) parser for the svir engine (DESIGN section 2, E3).

Only what the analyses need is modelled: functions, basic blocks, the CFG including invoke
unwind edges, and for each instruction its opcode, result, operands and !dbg line.
"""
import re

ATTR_WORDS = {
    'noundef', 'nonnull', 'zeroext', 'signext', 'inreg', 'noalias', 'nocapture', 'readonly',
    'writeonly', 'readnone', 'returned', 'nest', 'immarg', 'nofree', 'swiftself', 'swifterror',
    'tail', 'musttail', 'notail', 'fastcc', 'ccc', 'coldcc', 'nnan', 'ninf', 'nsz', 'arcp',
    'contract', 'afn', 'reassoc', 'fast', 'nuw', 'nsw', 'exact', 'inbounds', 'volatile', 'atomic',
    'dso_local', 'local_unnamed_addr', 'unnamed_addr', 'noundef', 'nonnull',
}
ATTR_PAREN = ('dereferenceable(', 'dereferenceable_or_null(', 'align(', 'byval(', 'sret(',
              'byref(', 'inalloca(', 'preallocated(', 'elementtype(', 'addrspace(')


def match_close(s, i, open_ch='(', close_ch=')'):
    """s[i] == open_ch; return index of the matching close, honouring quotes."""
    depth = 0
    n = len(s)
    inq = False
    while i < n:
        c = s[i]
        if inq:
            if c == '"':
                inq = False
        elif c == '"':
            inq = True
        elif c == open_ch:
            depth += 1
        elif c == close_ch:
            depth -= 1
            if depth == 0:
                return i
        i += 1
    return -1


def skip_ws(s, i):
    n = len(s)
    while i < n and s[i] == ' ':
        i += 1
    return i


_ident = re.compile(r'[-a-zA-Z$._0-9]+')


def scan_type(s, i):
    """Scan one first-class type starting at s[i]; return end index (exclusive)."""
    i = skip_ws(s, i)
    n = len(s)
    if i >= n:
        return i
    c = s[i]
    if c == '%':
        if i + 1 < n and s[i + 1] == '"':
            j = s.index('"', i + 2) + 1
        else:
            m = _ident.match(s, i + 1)
            j = m.end() if m else i + 1
    elif c == '{':
        j = match_close(s, i, '{', '}') + 1
    elif c == '[':
        j = match_close(s, i, '[', ']') + 1
    elif c == '<':
        if i + 1 < n and s[i + 1] == '{':
            j = match_close(s, i + 1, '{', '}') + 2
        else:
            j = match_close(s, i, '<', '>') + 1
    else:
        m = _ident.match(s, i)
        j = m.end() if m else i + 1
    # suffixes: pointers, address spaces, function types
    while True:
        k = skip_ws(s, j)
        if k < n and s[k] == '*':
            j = k + 1
        elif k < n and s[k] == '(' and (k == j or s[j:k] == ' '):
            # function type "ret (args)" — only if followed by '*' eventually (fn pointer) or used as fnty
            e = match_close(s, k)
            if e < 0:
                break
            j = e + 1
        elif s.startswith('addrspace(', k):
            j = match_close(s, k + 9) + 1
        else:
            break
    return j


def split_top(s):
    """Split on top-level commas."""
    out = []
    depth = 0
    inq = False
    cur = []
    for c in s:
        if inq:
            cur.append(c)
            if c == '"':
                inq = False
            continue
        if c == '"':
            inq = True
            cur.append(c)
        elif c in '([{<':
            depth += 1
            cur.append(c)
        elif c in ')]}>':
            depth -= 1
            cur.append(c)
        elif c == ',' and depth == 0:
            out.append(''.join(cur).strip())
            cur = []
        else:
            cur.append(c)
    t = ''.join(cur).strip()
    if t:
        out.append(t)
    return out


def skip_attrs(s, i):
    n = len(s)
    while True:
        i = skip_ws(s, i)
        if i >= n:
            return i
        hit = False
        for p in ATTR_PAREN:
            if s.startswith(p, i):
                i = match_close(s, i + len(p) - 1) + 1
                hit = True
                break
        if hit:
            continue
        if s.startswith('align ', i):
            m = re.match(r'align \d+', s[i:])
            i += m.end()
            continue
        m = _ident.match(s, i)
        if m and m.group(0) in ATTR_WORDS:
            i = m.end()
            continue
        return i


def parse_typed_value(s):
    """'T [attrs] value' -> (type, value, attrs_text)"""
    j = scan_type(s, 0)
    ty = s[:j].strip()
    k = skip_attrs(s, j)
    return ty, s[k:].strip(), s[j:k].strip()


class Instr(object):
    __slots__ = ('res', 'op', 'text', 'line', 'callee', 'args', 'argtys', 'normal', 'unwind',
                 'targets', 'cond', 'incoming', 'pred', 'a', 'b', 'ty', 'ty2', 'flags', 'clauses',
                 'idx', 'nounwind_site', 'fattrs')

    def __init__(self, text):
        self.text = text
        self.res = None
        self.op = None
        self.line = 0
        self.callee = None
        self.args = None
        self.argtys = None
        self.normal = None
        self.unwind = None
        self.targets = None
        self.cond = None
        self.incoming = None
        self.pred = None
        self.a = None
        self.b = None
        self.ty = None
        self.ty2 = None
        self.flags = ''
        self.clauses = None
        self.idx = None
        self.nounwind_site = False
        self.fattrs = ''

    def __repr__(self):
        return '<%s %s>' % (self.op, self.text[:80])


class Block(object):
    __slots__ = ('label', 'instrs', 'succs', 'preds')

    def __init__(self, label):
        self.label = label
        self.instrs = []
        self.succs = []   # (label, kind) kind in 'br','true','false','switch','normal','unwind'
        self.preds = []


class Func(object):
    def __init__(self, name):
        self.name = name
        self.params = []      # (type, name, attrtext)
        self.blocks = {}
        self.order = []
        self.entry = None
        self.attrs = ''
        self.attr_ids = []
        self.dbg = None
        self.is_decl = False
        self.ret_ty = ''
        self.linkage = ''
        self.nounwind = False
        self.noreturn = False
        self.personality = False
        self.src_file = None
        self.src_line = 0
        self.pretty = None    # demangled, filled lazily

    def instrs(self):
        for lb in self.order:
            for ins in self.blocks[lb].instrs:
                yield self.blocks[lb], ins


_BINOPS = {'add', 'sub', 'mul', 'udiv', 'sdiv', 'urem', 'srem', 'shl', 'lshr', 'ashr', 'and', 'or',
           'xor', 'fadd', 'fsub', 'fmul', 'fdiv', 'frem'}
_CASTS = {'bitcast', 'ptrtoint', 'inttoptr', 'zext', 'sext', 'trunc', 'fptrunc', 'fpext', 'uitofp',
          'sitofp', 'fptoui', 'fptosi', 'addrspacecast'}

_dbg_re = re.compile(r', !dbg !(\d+)')
_res_re = re.compile(r'^(%[-a-zA-Z$._0-9]+|%"[^"]*") = ')
_callee_re = re.compile(r'(@"[^"]*"|@[-a-zA-Z$._0-9]+|%[-a-zA-Z$._0-9]+)\(')


def _parse_call(ins, body):
    """body starts after 'call'/'invoke' keyword."""
    i = skip_attrs(body, 0)
    j = scan_type(body, i)
    ins.ty = body[i:j].strip()
    k = skip_ws(body, j)
    # callee
    if body.startswith('bitcast (', k) or body.startswith('bitcast(', k):
        p = body.index('(', k)
        e = match_close(body, p)
        inner = body[p + 1:e]
        m = re.search(r'(@"[^"]*"|@[-a-zA-Z$._0-9]+)', inner)
        ins.callee = m.group(1) if m else None
        k = skip_ws(body, e + 1)
        p = k
    else:
        m = _callee_re.match(body, k)
        if not m:
            # inline asm or something exotic
            ins.callee = None
            p = body.find('(', k)
            if p < 0:
                ins.args = []
                ins.argtys = []
                return
        else:
            ins.callee = m.group(1)
            p = m.end() - 1
    e = match_close(body, p)
    argtext = body[p + 1:e]
    ins.args = []
    ins.argtys = []
    if argtext.strip():
        for a in split_top(argtext):
            ty, val, _ = parse_typed_value(a)
            ins.args.append(val)
            ins.argtys.append(ty)
    rest = body[e + 1:]
    ins.fattrs = rest
    m = re.search(r'to label (%[-a-zA-Z$._0-9]+) unwind label (%[-a-zA-Z$._0-9]+)', rest)
    if m:
        ins.normal = m.group(1)[1:]
        ins.unwind = m.group(2)[1:]


def parse_instr(text):
    ins = Instr(text)
    m = _dbg_re.search(text)
    s = text
    if m:
        ins.line = int(m.group(1))   # metadata id for now; resolved to a line by the module
        s = text[:m.start()]
    m = _res_re.match(s)
    if m:
        ins.res = m.group(1)
        s = s[m.end():]
    sp = s.find(' ')
    op = s if sp < 0 else s[:sp]
    rest = '' if sp < 0 else s[sp + 1:]
    if op in ('tail', 'musttail', 'notail'):
        sp2 = rest.find(' ')
        op = rest[:sp2]
        rest = rest[sp2 + 1:]
    ins.op = op
    if op == 'call' or op == 'invoke':
        _parse_call(ins, rest)
    elif op == 'br':
        if rest.startswith('label '):
            ins.targets = [rest[len('label %'):].strip()]
        else:
            mm = re.match(r'i1 (\S+), label %(\S+), label %(\S+)', rest)
            ins.cond = mm.group(1)
            ins.targets = [mm.group(2).rstrip(','), mm.group(3)]
    elif op == 'ret':
        if rest.strip() != 'void':
            ins.ty, ins.a, _ = parse_typed_value(rest)
    elif op == 'icmp' or op == 'fcmp':
        sp3 = rest.find(' ')
        ins.pred = rest[:sp3]
        r2 = rest[sp3 + 1:]
        j = scan_type(r2, 0)
        ins.ty = r2[:j].strip()
        ab = split_top(r2[j:])
        ins.a, ins.b = ab[0], ab[1]
    elif op in _BINOPS:
        i = skip_attrs(rest, 0)
        ins.flags = rest[:i]
        j = scan_type(rest, i)
        ins.ty = rest[i:j].strip()
        ab = split_top(rest[j:])
        ins.a, ins.b = ab[0], ab[1]
    elif op in _CASTS:
        k = rest.rfind(' to ')
        ins.ty2 = rest[k + 4:].strip()
        ins.ty, ins.a, _ = parse_typed_value(rest[:k])
    elif op == 'load':
        i = skip_attrs(rest, 0)
        parts = split_top(rest[i:])
        ins.ty = parts[0]
        _, ins.a, _ = parse_typed_value(parts[1])
    elif op == 'store':
        i = skip_attrs(rest, 0)
        parts = split_top(rest[i:])
        ins.ty, ins.a, _ = parse_typed_value(parts[0])   # value
        _, ins.b, _ = parse_typed_value(parts[1])        # pointer
    elif op == 'getelementptr':
        i = skip_attrs(rest, 0)
        parts = split_top(rest[i:])
        ins.ty = parts[0]                                # source element type
        _, ins.a, _ = parse_typed_value(parts[1])
        ins.idx = [parse_typed_value(p)[1] for p in parts[2:]]
    elif op == 'phi':
        j = scan_type(rest, 0)
        ins.ty = rest[:j].strip()
        ins.incoming = []
        for mm in re.finditer(r'\[\s*(.+?),\s*%([-a-zA-Z$._0-9]+)\s*\]', rest[j:]):
            ins.incoming.append((mm.group(1).strip(), mm.group(2)))
    elif op == 'select':
        parts = split_top(rest)
        _, ins.cond, _ = parse_typed_value(parts[0])
        ins.ty, ins.a, _ = parse_typed_value(parts[1])
        _, ins.b, _ = parse_typed_value(parts[2])
    elif op == 'switch':
        mm = re.match(r'(\S+) (\S+), label %(\S+) \[(.*)\]', rest, re.S)
        ins.ty = mm.group(1)
        ins.a = mm.group(2)
        ins.targets = [mm.group(3)]
        ins.clauses = []
        for cm in re.finditer(r'\S+ (\S+), label %(\S+)', mm.group(4)):
            ins.clauses.append((cm.group(1), cm.group(2)))
            ins.targets.append(cm.group(2))
    elif op == 'resume':
        ins.ty, ins.a, _ = parse_typed_value(rest)
    elif op == 'landingpad':
        ins.ty = rest.strip()
        ins.clauses = []
    elif op == 'extractvalue':
        parts = split_top(rest)
        ins.ty, ins.a, _ = parse_typed_value(parts[0])
        ins.idx = parts[1:]
    elif op == 'insertvalue':
        parts = split_top(rest)
        ins.ty, ins.a, _ = parse_typed_value(parts[0])
        _, ins.b, _ = parse_typed_value(parts[1])
        ins.idx = parts[2:]
    elif op == 'alloca':
        parts = split_top(rest)
        ins.ty = parts[0]
    elif op == 'unreachable':
        pass
    elif op == 'fneg' or op == 'freeze':
        ins.ty, ins.a, _ = parse_typed_value(rest)
    return ins


class Module(object):
    def __init__(self):
        self.funcs = {}
        self.decls = {}
        self.attr_groups = {}
        self.md = {}
        self.path = None

    def get(self, name):
        return self.funcs.get(name) or self.decls.get(name)


_def_re = re.compile(r'^(define|declare) ')
_name_re = re.compile(r'(@"[^"]*"|@[-a-zA-Z$._0-9]+)\s*\(')


def _parse_header(line, is_def):
    m = _name_re.search(line)
    name = m.group(1)
    f = Func(name[1:].strip('"'))
    f.is_decl = not is_def
    p = m.end() - 1
    e = match_close(line, p)
    params = line[p + 1:e]
    pre = line[:m.start()]
    f.linkage = pre
    f.ret_ty = pre.split()[-1] if pre.split() else ''
    for i, a in enumerate(split_top(params)):
        if a == '...':
            continue
        j = scan_type(a, 0)
        ty = a[:j].strip()
        rest = a[j:].strip()
        nm = None
        mm = re.search(r'(%[-a-zA-Z$._0-9]+|%"[^"]*")$', rest)
        if mm:
            nm = mm.group(1)
            rest = rest[:mm.start()].strip()
        f.params.append((ty, nm if nm else '%' + str(i), rest))
    tail = line[e + 1:]
    f.attrs = tail
    f.attr_ids = re.findall(r'#(\d+)', tail)
    mm = re.search(r'!dbg !(\d+)', tail)
    if mm:
        f.dbg = int(mm.group(1))
    f.personality = 'personality' in tail
    return f


def parse_module(path):
    mod = Module()
    mod.path = path
    cur = None
    blk = None
    pending = None   # multi-line instruction accumulator
    with open(path) as fh:
        lines = fh.read().split('\n')
    i = 0
    n = len(lines)
    while i < n:
        line = lines[i]
        i += 1
        if cur is None:
            if line.startswith('define '):
                cur = _parse_header(line, True)
                blk = None
                continue
            if line.startswith('declare '):
                f = _parse_header(line, False)
                mod.decls[f.name] = f
                continue
            if line.startswith('attributes #'):
                mm = re.match(r'attributes #(\d+) = \{(.*)\}', line)
                if mm:
                    mod.attr_groups[mm.group(1)] = mm.group(2)
                continue
            if line.startswith('!') and ' = ' in line[:12]:
                mm = re.match(r'!(\d+) = (.*)$', line)
                if mm:
                    mod.md[int(mm.group(1))] = mm.group(2)
                continue
            continue
        # inside a function
        if line == '}':
            mod.funcs[cur.name] = cur
            cur = None
            continue
        if not line:
            continue
        if line[0] != ' ':
            # label
            mm = re.match(r'^([-a-zA-Z$._0-9]+|"[^"]*"):', line)
            if mm:
                blk = Block(mm.group(1).strip('"'))
                cur.blocks[blk.label] = blk
                cur.order.append(blk.label)
            continue
        text = line.strip()
        if blk is None:
            # entry block label is implicit: number = count of params (unnamed) — find from first use
            blk = Block('%entry')
            cur.blocks[blk.label] = blk
            cur.order.append(blk.label)
            cur.entry = blk.label
        if text.startswith('call void @llvm.dbg.') or text.startswith('call void @llvm.lifetime.'):
            continue
        # multi-line constructs
        if (' invoke ' in ' ' + text or text.startswith('invoke ')) and 'unwind label' not in text:
            while i < n and 'unwind label' not in text:
                text += ' ' + lines[i].strip()
                i += 1
        elif text.startswith('switch ') or ' = switch ' in text:
            while i < n and not text.rstrip().endswith(']') and ']' not in text.split('[', 1)[-1]:
                text += ' ' + lines[i].strip()
                i += 1
        ins = parse_instr(text)
        if ins.op == 'landingpad':
            while i < n:
                nx = lines[i].strip()
                if nx.startswith('cleanup') or nx.startswith('catch ') or nx.startswith('filter '):
                    ins.clauses.append(nx)
                    i += 1
                else:
                    break
        blk.instrs.append(ins)
    _finish(mod)
    return mod


def _finish(mod):
    # attribute groups -> nounwind / noreturn
    def has(f, word):
        if re.search(r'\b%s\b' % word, f.attrs.split('!dbg')[0].split('personality')[0]):
            return True
        for a in f.attr_ids:
            g = mod.attr_groups.get(a, '')
            if re.search(r'(^| )%s( |$)' % word, g):
                return True
        return False
    for f in list(mod.funcs.values()) + list(mod.decls.values()):
        f.nounwind = has(f, 'nounwind')
        f.noreturn = has(f, 'noreturn')
    # debug info: subprogram file/line, instruction lines
    md = mod.md
    file_cache = {}

    def md_field(txt, key):
        mm = re.search(r'\b%s: ([^,)]+)' % key, txt)
        return mm.group(1) if mm else None

    def file_of(mid):
        if mid in file_cache:
            return file_cache[mid]
        t = md.get(mid, '')
        mm = re.search(r'filename: "([^"]*)"', t)
        file_cache[mid] = mm.group(1) if mm else None
        return file_cache[mid]
    loc_line = {}
    for k, t in md.items():
        if t.startswith('!DILocation('):
            mm = re.match(r'!DILocation\(line: (\d+)', t)
            if mm:
                loc_line[k] = int(mm.group(1))
    for f in mod.funcs.values():
        if f.dbg is not None:
            t = md.get(f.dbg, '')
            fl = md_field(t, 'file')
            if fl and fl.startswith('!'):
                f.src_file = file_of(int(fl[1:]))
            ln = md_field(t, 'line')
            if ln and ln.isdigit():
                f.src_line = int(ln)
        # entry label: LLVM numbers the entry block implicitly; fix up CFG
        for lb in f.order:
            b = f.blocks[lb]
            for ins in b.instrs:
                if ins.line:
                    ins.line = loc_line.get(ins.line, 0)
                cs = ins.text
                if ins.op in ('call', 'invoke'):
                    # call-site attribute groups (#N) => nounwind at the site
                    for a in re.findall(r'#(\d+)', ins.fattrs or ''):
                        if re.search(r'(^| )nounwind( |$)', mod.attr_groups.get(a, '')):
                            ins.nounwind_site = True
            if not b.instrs:
                continue
            t = b.instrs[-1]
            if t.op == 'br':
                if t.cond is None:
                    b.succs = [(t.targets[0], 'br')]
                else:
                    b.succs = [(t.targets[0], 'true'), (t.targets[1], 'false')]
            elif t.op == 'switch':
                b.succs = [(x, 'switch') for x in t.targets]
            elif t.op == 'invoke':
                b.succs = [(t.normal, 'normal'), (t.unwind, 'unwind')]
        f.entry = f.order[0] if f.order else None
        for lb in f.order:
            for (s, k) in f.blocks[lb].succs:
                if s in f.blocks:
                    f.blocks[s].preds.append(lb)
                else:
                    # a reference to the implicit entry label cannot occur (entry has no preds)
                    raise ValueError('unknown label %s in %s' % (s, f.name))


def demangle_all(names):
    """Demangle many names with one llvm-cxxfilt process."""
    import subprocess
    names = list(names)
    if not names:
        return {}
    p = subprocess.run(['llvm-cxxfilt'], input='\n'.join(names) + '\n', stdout=subprocess.PIPE,
                       text=True)
    out = p.stdout.split('\n')
    return {n: out[i] if i < len(out) else n for i, n in enumerate(names)}
