"""E1 `svwitness`: compile-pass / compile-fail batteries (DESIGN section 2, E1).

A *witness* is a fragment of C++ at namespace scope with an expectation:
  expect='ok'     the fragment must be well-formed (static_asserts in it must hold)
  expect='error'  the fragment must be ill-formed
Witnesses are batched into translation units, compiled with -fsyntax-only (nothing is linked or
run) under the requested compilers and standards; every diagnostic is attributed to a witness
through the line range the fragment occupies in the generated TU.  A diagnostic that cannot be
attributed to a witness makes the battery analysis-broken.
"""
import os
import re

from . import common


class W:
    __slots__ = ('tag', 'code', 'expect', 'info')

    def __init__(self, tag, code, expect='ok', info=None):
        self.tag = tag
        self.code = code
        self.expect = expect
        self.info = info


def _flags(compiler, std, extra):
    if compiler == 'g++':
        base = [common.GXX, '-fsyntax-only', '-fmax-errors=0', '-fno-diagnostics-show-caret',
                '-fdiagnostics-color=never', '-ftemplate-backtrace-limit=0', '-w']
    else:
        base = [common.CLANGXX, '-fsyntax-only', '-ferror-limit=0', '-fno-caret-diagnostics',
                '-fno-color-diagnostics', '-ftemplate-backtrace-limit=0', '-w']
    return base + ['-std=' + std, '-I', common.INCLUDE, '-I', os.path.join(common.VERIF, 'probes')] \
        + list(extra)


_LOC = re.compile(r'^(?P<file>[^\s:][^:]*):(?P<line>\d+):(?:(?P<col>\d+):)?\s*(?P<rest>.*)$')


def _split_diags(stderr, compiler):
    """Yield (kind, [lines]) blocks; kind is 'error' or 'other'."""
    lines = stderr.splitlines()
    blocks = []
    cur = None
    pending_ctx = []
    for ln in lines:
        m = _LOC.match(ln)
        rest = m.group('rest') if m else ''
        is_err = bool(m) and (rest.startswith('error:') or rest.startswith('fatal error:'))
        is_warn = bool(m) and rest.startswith('warning:')
        # gcc context lines come before the diagnostic they belong to
        is_ctx = (compiler == 'g++') and (
            ln.startswith('In file included from') or ln.startswith('                 from')
            or re.search(r': (In (instantiation|substitution|function|member function|'
                         r'static member function|constructor|destructor|lambda function|'
                         r'copy constructor|destructor)\b)', ln) is not None
            or ln.rstrip().endswith('required from here')
            or re.search(r':\s+(recursively )?required (from|by substitution)', ln) is not None
            or ln.endswith(': At global scope:') or 'In instantiation of' in ln
            or ' required from ' in ln)
        if is_ctx and not is_err:
            if cur is not None:
                blocks.append(cur)
                cur = None
            pending_ctx.append(ln)
            continue
        if is_err or is_warn:
            if cur is not None:
                blocks.append(cur)
            cur = ['error' if is_err else 'other', pending_ctx + [ln]]
            pending_ctx = []
            continue
        if cur is not None:
            cur[1].append(ln)
        else:
            pending_ctx.append(ln)
    if cur is not None:
        blocks.append(cur)
    return blocks, pending_ctx


def compile_battery(name, prelude, witnesses, compilers=('g++', 'clang++'), stds=('c++17',),
                    extra_flags=(), shards=None, per_config_filter=None):
    """Compile all witnesses; returns dict (compiler,std) -> {tag: (status, first_message)}
    with status in {'ok','error'}.  Raises AnalysisBroken on unattributable diagnostics."""
    if shards is None:
        # shard size is independent of the number of workers (the cache key is the shard's text, and a
        # shard must compile well within the tool timeout even on a loaded machine)
        shards = max(1, (len(witnesses) + 199) // 200)
    jobs = []
    for comp in compilers:
        for std in stds:
            ws = [w for w in witnesses
                  if per_config_filter is None or per_config_filter(w, comp, std)]
            n = max(1, min(shards, len(ws)))
            for s in range(n):
                part = ws[s::n]
                if part:
                    jobs.append((comp, std, s, part))

    def one(job):
        comp, std, s, part = job
        src_lines = ['// generated battery %s shard %d' % (name, s)]
        src_lines += prelude.splitlines()
        ranges = []
        for w in part:
            a = len(src_lines) + 1
            src_lines += w.code.splitlines()
            b = len(src_lines)
            ranges.append((a, b, w))
        src = '\n'.join(src_lines) + '\n'
        out, rc, err = common.cached_tool(
            ('witness', name, comp, std, ' '.join(extra_flags)),
            lambda srcp, outp: _flags(comp, std, extra_flags) + [srcp],
            '.out', src_text=src)
        srcname = None
        res = {w.tag: ['ok', ''] for w in part}
        blocks, trailing = _split_diags(err, comp)
        unattributed = []
        for kind, lines in blocks:
            if kind != 'error':
                continue
            hit = None
            for ln in lines:
                for m in re.finditer(r'([0-9a-f]{24}\.cpp):(\d+)', ln):
                    srcname = m.group(1)
                    lno = int(m.group(2))
                    for a, b, w in ranges:
                        if a <= lno <= b:
                            hit = w
                            break
                    if hit:
                        break
                if hit:
                    break
            first = next((x for x in lines if 'error:' in x), lines[0])
            if hit is None:
                unattributed.append(first)
            elif res[hit.tag][0] == 'ok':
                res[hit.tag] = ['error', first.strip()[:400]]
        if rc != 0 and not any(k == 'error' for k, _ in blocks):
            unattributed.append('compiler exit %d without a parsed error: %s' % (rc, err[-500:]))
        return comp, std, res, unattributed

    results = {}
    problems = []
    for comp, std, res, un in common.pmap(one, jobs):
        results.setdefault((comp, std), {}).update(res)
        for u in un:
            problems.append('%s -std=%s: %s' % (comp, std, u))
    if problems:
        raise common.AnalysisBroken('battery %s: %d diagnostic(s) not attributable to a witness, '
                                    'first: %s' % (name, len(problems), problems[0][:600]))
    return results
