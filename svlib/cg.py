"""Call graph, primitive classification and may-throw / may-effect fixpoints over one module.

Primitive effects are anchored in things /repo cannot rename: the probe types' special members
and the allocator's allocate/deallocate (ours, declared in probes/sv_types.hpp and never
defined), the C++ runtime (__cxa_*), and the standard library's allocator_traits.
"""
import re

from . import ir

# kinds an exception may be attributed to, from the caller's point of view
CALLER_KINDS = {'ELEM_COPY', 'ELEM_MOVE', 'ELEM_DEFAULT', 'ELEM_CONV', 'ELEM_COPY_ASSIGN',
                'ELEM_MOVE_ASSIGN', 'ELEM_CONV_ASSIGN', 'ELEM_SWAP', 'ELEM_CMP', 'ALLOC',
                'ITER_DEREF', 'ITER_INC', 'ITER_POSTINC', 'ITER_COPY', 'ITER_ASSIGN', 'ITER_EQ',
                'ITER_NE', 'ITER_ARITH', 'ITER_DEFAULT', 'GEN', 'GEN_COPY', 'ALLOC_SOCCC',
                'THROW_LENGTH', 'THROW_RANGE', 'THROW_OTHER'}
ELEM_CTOR = {'ELEM_COPY', 'ELEM_MOVE', 'ELEM_DEFAULT', 'ELEM_CONV'}
ELEM_ASSIGN = {'ELEM_COPY_ASSIGN', 'ELEM_MOVE_ASSIGN', 'ELEM_CONV_ASSIGN'}
ELEM_ANY = ELEM_CTOR | ELEM_ASSIGN | {'ELEM_SWAP', 'ELEM_CMP', 'ELEM_DTOR'}

_ELEMS = ('NM', 'NA', 'TM', 'MO', 'MOT', 'CO')


def classify(pretty):
    """Demangled name of a declaration / std function -> primitive kind or None."""
    p = pretty
    m = re.match(r'^svp::(NM|NA|TM|MO|MOT|CO)::(~?)(\w+)\((.*)\)$', p)
    if m:
        cls, tilde, fn, args = m.groups()
        if tilde:
            return 'ELEM_DTOR'
        if fn == cls:
            if args == '':
                return 'ELEM_DEFAULT'
            if args == 'svp::%s const&' % cls:
                return 'ELEM_COPY'
            if args == 'svp::%s&&' % cls:
                return 'ELEM_MOVE'
            return 'ELEM_CONV'
    m = re.match(r'^svp::(NM|NA|TM|MO|MOT|CO)::operator=\((.*)\)$', p)
    if m:
        cls, args = m.groups()
        if args == 'svp::%s const&' % cls:
            return 'ELEM_COPY_ASSIGN'
        if args == 'svp::%s&&' % cls:
            return 'ELEM_MOVE_ASSIGN'
        return 'ELEM_CONV_ASSIGN'
    if re.match(r'^svp::swap\(svp::(NM|NA|TM|MO|MOT|CO)&, svp::\1&\)$', p):
        return 'ELEM_SWAP'
    if re.match(r'^svp::operator(==|<|!=)\(svp::(NM|NA|TM|MO|MOT|CO) const&, svp::\2 const&\)$', p):
        return 'ELEM_CMP'
    # allocator
    m = re.match(r'^svp::PA<.*>::(~?\w+|operator=)\((.*)\)( const)?$', p)
    if m:
        fn, args = m.group(1), m.group(2)
        if fn == 'allocate':
            return 'ALLOC'
        if fn == 'deallocate':
            return 'DEALLOC'
        if fn == 'max_size':
            return 'ALLOC_MAX'
        if fn == 'select_on_container_copy_construction':
            return 'ALLOC_SOCCC'
        if fn == 'PA':
            if args == '':
                return 'ALLOC_DEFAULT'
            if args.endswith('const&'):
                return 'ALLOC_COPY'
            if args.endswith('&&'):
                return 'ALLOC_MOVE'
        if fn == 'operator=':
            return 'ALLOC_COPY_ASSIGN' if args.endswith('const&') else 'ALLOC_MOVE_ASSIGN'
    if re.match(r'^bool svp::operator==<.*>\(svp::PA<', p):
        return 'ALLOC_EQ'
    if re.match(r'^bool svp::operator!=<.*>\(svp::PA<', p):
        return 'ALLOC_NE'
    if re.match(r'^void svp::swap<.*>\(svp::PA<', p):
        return 'ALLOC_SWAP'
    m = re.match(r'^std::allocator_traits<std::allocator<.*> >::(allocate|deallocate)\(', p)
    if m:
        return 'ALLOC' if m.group(1) == 'allocate' else 'DEALLOC'
    # iterators
    m = re.match(r'^svp::(InIt|FwIt|RaIt)<.*>::(\w+|operator\S+)\((.*)\)( const)?$', p)
    if m:
        it, fn, args = m.group(1), m.group(2), m.group(3)
        if fn == it:
            return 'ITER_DEFAULT' if args == '' else 'ITER_COPY'
        if fn == 'operator*':
            return 'ITER_DEREF'
        if fn == 'operator[]':
            return 'ITER_DEREF'
        if fn == 'operator++':
            return 'ITER_POSTINC' if args == 'int' else 'ITER_INC'
        if fn == 'operator=':
            return 'ITER_ASSIGN'
        return 'ITER_ARITH'
    m = re.match(r'^(bool|long|svp::\w+<.*>) svp::operator(==|!=|<|>|<=|>=|\+|-)<.*>\(.*svp::(InIt|FwIt|RaIt)<', p)
    if m:
        o = m.group(2)
        return 'ITER_EQ' if o == '==' else 'ITER_NE' if o == '!=' else 'ITER_ARITH'
    m = re.match(r'^svp::Gen<.*>::(operator\(\)|\w+)\((.*)\)$', p)
    if m:
        return 'GEN' if m.group(1) == 'operator()' else 'GEN_COPY'
    # C++ runtime
    if p in ('__cxa_throw', '__cxa_rethrow'):
        return 'CXA_THROW' if p == '__cxa_throw' else 'CXA_RETHROW'
    if p in ('__cxa_begin_catch', '__cxa_end_catch', '__cxa_allocate_exception',
             '__cxa_free_exception'):
        return p.upper()
    if p.startswith('std::length_error::length_error('):
        return 'MK_LENGTH_ERROR'
    if p.startswith('std::out_of_range::out_of_range('):
        return 'MK_OUT_OF_RANGE'
    if p in ('std::terminate()', '__clang_call_terminate', 'abort', '__assert_fail'):
        return 'TERMINATE'
    if p.startswith('operator new('):
        return 'OP_NEW'
    if p.startswith('operator delete('):
        return 'OP_DELETE'
    return None


class Oracle(object):
    def __init__(self, mod):
        self.mod = mod
        names = list(mod.funcs) + list(mod.decls)
        self.pretty = ir.demangle_all(names)
        for n, f in list(mod.funcs.items()) + list(mod.decls.items()):
            f.pretty = self.pretty.get(n, n)
        self.kind = {}
        for n in names:
            k = classify(self.pretty[n])
            if k:
                self.kind[n] = k
        self._callees = {}
        self._terminate_pads = {}
        self.throws = {}
        self.effects = {}
        self.writes_fields = {}
        self._build()

    # ---- queries used by the engine --------------------------------------------------------
    def force_opaque(self, f):
        k = self.kind.get(f.name)
        return k in ('ALLOC', 'DEALLOC')

    def prim(self, name):
        return self.kind.get(name)

    def may_throw(self, name):
        return bool(self.throws.get(name))

    def noreturn(self, name):
        f = self.mod.get(name)
        return bool(f and f.noreturn) or self.kind.get(name) in ('CXA_THROW', 'CXA_RETHROW', 'TERMINATE')

    def may_write_fields(self, name):
        return self.writes_fields.get(name, True if name not in self.mod.funcs and name not in self.mod.decls else False)

    def pure_result(self, name, args):
        """Value-numbering of calls whose result is a pure function of their receiver:
        allocator max_size () (assumption: it does not change between calls on one allocator)."""
        if self.kind.get(name) == 'ALLOC_MAX' and args:
            return ('max_size', args[0][2])
        return None

    def is_gch(self, name):
        f = self.mod.funcs.get(name)
        return bool(f and f.src_file and (f.src_file.endswith('gch/small_vector.hpp')
                                          or f.src_file.endswith('canaries/sv_canary.hpp')))

    # ---- construction ----------------------------------------------------------------------
    def terminate_pads(self, f):
        r = self._terminate_pads.get(f.name)
        if r is None:
            r = set()
            for lb, b in f.blocks.items():
                has_term = any(i.op == 'call' and i.callee and
                               self.kind.get(i.callee[1:]) == 'TERMINATE' for i in b.instrs)
                if has_term and b.instrs and b.instrs[0].op == 'landingpad':
                    r.add(lb)
            self._terminate_pads[f.name] = r
        return r

    def _build(self):
        mod = self.mod
        db_types = None
        # direct facts
        direct_throw = {}
        direct_eff = {}
        direct_wr = {}
        calls = {}
        for n, d in mod.decls.items():
            k = self.kind.get(n)
            th = set()
            if not d.nounwind and k not in ('TERMINATE', 'CXA_BEGIN_CATCH', 'CXA_END_CATCH',
                                            '__CXA_BEGIN_CATCH', '__CXA_END_CATCH',
                                            '__CXA_ALLOCATE_EXCEPTION', '__CXA_FREE_EXCEPTION',
                                            'OP_DELETE', 'DEALLOC'):
                if n.startswith('llvm.'):
                    th = set()
                elif k == 'CXA_THROW':
                    th = {'THROW_OTHER'}   # refined at the call site by the thrown type
                elif k == 'CXA_RETHROW':
                    th = {'RETHROW'}
                elif k is not None:
                    th = {k}
                else:
                    th = {'EXTERN:' + self.pretty.get(n, n)[:60]}
            direct_throw[n] = th
            direct_eff[n] = {k} if k else set()
            direct_wr[n] = False
        for n, f in mod.funcs.items():
            cs = []
            wr = False
            geps = set()
            for b, ins in f.instrs():
                if ins.op in ('call', 'invoke') and ins.callee and ins.callee.startswith('@'):
                    cn = ins.callee[1:].strip('"')
                    if not cn.startswith('llvm.dbg') and not cn.startswith('llvm.lifetime'):
                        cs.append((cn, b.label, ins))
                    if any(a in geps for a in ins.args):
                        wr = True
                    if cn.startswith('llvm.mem'):
                        if ins.args and ins.args[0] in geps:
                            wr = True
                elif ins.op == 'getelementptr' and 'small_vector_data_base' in ins.ty \
                        and len(ins.idx) == 2:
                    geps.add(ins.res)
                elif ins.op == 'store' and ins.b in geps:
                    wr = True
            calls[n] = cs
            direct_wr[n] = wr
            k = self.kind.get(n)
            direct_eff[n] = {k} if k else set()
            direct_throw[n] = set()
        self._calls = calls
        # thrown type at __cxa_throw sites: look at the typeinfo argument
        self.throw_type = {}
        for n, cs in calls.items():
            for (cn, lb, ins) in cs:
                if self.kind.get(cn) == 'CXA_THROW' and len(ins.args) >= 2:
                    ti = ins.args[1]
                    if '_ZTISt12length_error' in ti:
                        self.throw_type[(n, id(ins))] = 'THROW_LENGTH'
                    elif '_ZTISt12out_of_range' in ti:
                        self.throw_type[(n, id(ins))] = 'THROW_RANGE'
                    else:
                        self.throw_type[(n, id(ins))] = 'THROW_OTHER'
        # fixpoints
        throws = {n: set(direct_throw[n]) for n in direct_throw}
        effects = {n: set(direct_eff[n]) for n in direct_eff}
        wrf = dict(direct_wr)
        # if ALLOC/DEALLOC are force-opaque *defined* functions (std::allocator_traits), give
        # them primitive behaviour
        for n in mod.funcs:
            k = self.kind.get(n)
            if k == 'ALLOC':
                throws[n] = {'ALLOC'}
            elif k == 'DEALLOC':
                throws[n] = set()
        changed = True
        it = 0
        while changed and it < 60:
            changed = False
            it += 1
            for n, f in mod.funcs.items():
                k = self.kind.get(n)
                if k in ('ALLOC', 'DEALLOC'):
                    continue
                tp = self.terminate_pads(f)
                th = set()
                ef = set(direct_eff[n])
                wr = direct_wr[n]
                for (cn, lb, ins) in calls[n]:
                    ct = throws.get(cn)
                    if ct is None:
                        ct = {'UNKNOWN:' + cn[:40]}
                    if self.kind.get(cn) == 'CXA_THROW':
                        ct = {self.throw_type.get((n, id(ins)), 'THROW_OTHER')}
                    ef |= effects.get(cn, set())
                    wr = wr or wrf.get(cn, False)
                    if ins.nounwind_site:
                        continue
                    if ins.op == 'invoke' and ins.unwind in tp:
                        continue
                    th |= ct
                if f.nounwind:
                    th = set()
                # rethrow marker: a rethrow re-raises whatever was caught, i.e. kinds thrown by
                # the invokes of this function; they are already in th through those invokes
                th.discard('RETHROW')
                if th != throws[n]:
                    throws[n] = th
                    changed = True
                if ef != effects[n]:
                    effects[n] = ef
                    changed = True
                if wr != wrf[n]:
                    wrf[n] = wr
                    changed = True
        # effects and container-word writes are recomputed over *live* blocks only: a landing pad
        # whose invoke cannot throw (cleanup code for a non-throwing constructor, ...) is dead, and
        # what it would call must not count as an effect of the function
        live_calls = {}
        for n, f in mod.funcs.items():
            if not f.entry:
                live_calls[n] = []
                continue
            seen = set()
            work = [f.entry]
            while work:
                lb = work.pop()
                if lb in seen:
                    continue
                seen.add(lb)
                b = f.blocks[lb]
                for (sname, kind) in b.succs:
                    if kind == 'unwind':
                        t = b.instrs[-1]
                        cn = t.callee[1:].strip('"') if t.callee and t.callee[0] == '@' else None
                        ct = throws.get(cn) if cn is not None else {'?'}
                        if cn is not None and cn not in throws:
                            ct = {'?'}
                        if t.nounwind_site or not ct:
                            continue
                    work.append(sname)
            live_calls[n] = [(cn, lb, ins) for (cn, lb, ins) in calls[n] if lb in seen]
        self._live_calls = live_calls
        effects = {n: set(direct_eff[n]) for n in direct_eff}
        wrf = dict(direct_wr)
        changed = True
        it2 = 0
        while changed and it2 < 60:
            changed = False
            it2 += 1
            for n, f in mod.funcs.items():
                if self.kind.get(n) in ('ALLOC', 'DEALLOC'):
                    continue
                ef = set(direct_eff[n])
                wr = direct_wr[n]
                for (cn, lb, ins) in live_calls[n]:
                    ef |= effects.get(cn, set())
                    wr = wr or wrf.get(cn, False)
                if ef != effects[n]:
                    effects[n] = ef
                    changed = True
                if wr != wrf[n]:
                    wrf[n] = wr
                    changed = True
        self.throws = {n: frozenset(v) for n, v in throws.items()}
        self.effects = {n: frozenset(v) for n, v in effects.items()}
        self.writes_fields = wrf
        self.iterations = it
