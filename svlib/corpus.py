"""Probe corpus: which (T, N, M, A, std) tuples are instantiated, how they are compiled to IR,
and the process pool that runs a per-TU analysis function over them (DESIGN section 3)."""
import importlib
import os
import pickle
import time
from concurrent.futures import ProcessPoolExecutor

from . import common, ir, cg, sym

ELEMS = {'NM': 'svp::NM', 'NA': 'svp::NA', 'TM': 'svp::TM', 'MO': 'svp::MO', 'MOT': 'svp::MOT', 'CO': 'svp::CO',
         'TR': 'svp::TR', 'int': 'int', 'intp': 'int *'}
SIZETS = {'u8': 'std::uint8_t', 'u16': 'std::uint16_t', 'u32': 'std::uint32_t',
          'u64': 'std::size_t'}


class Cfg(object):
    """One probe translation unit."""

    def __init__(self, elem, n, m, alloc, std='c++17', ndebug=True, sizet='u64', defines=(), canary=False):
        self.elem = elem        # key of ELEMS
        self.n = n
        self.m = m
        self.alloc = alloc      # 'std' or an int 0..15 (PA trait bits)
        self.std = std
        self.ndebug = ndebug
        self.sizet = sizet
        self.defines = tuple(defines)
        self.canary = canary

    @property
    def name(self):
        a = 'std' if self.alloc == 'std' else 'PA%d.%s' % (self.alloc, self.sizet)
        return '%s%s.N%d.M%d.%s.%s%s%s' % ('canary.' if self.canary else '', self.elem, self.n, self.m, a, self.std,
                                           '' if self.ndebug else '.assert',
                                           ''.join('.' + d for d in self.defines))

    def alloc_bits(self):
        return None if self.alloc == 'std' else self.alloc

    def source(self):
        T = ELEMS[self.elem]
        if self.alloc == 'std':
            A = 'std::allocator<T>'
        else:
            A = 'svp::PA<T, %du, %s>' % (self.alloc, SIZETS[self.sizet])
        if self.canary:
            return ('#include "sv_canary.hpp"\nusing T = %s;\nusing A = %s;\n'
                    'template struct svcanary::wrong<A, %d>;\n' % (T, A, self.n))
        return ('#include "sv_driver.hpp"\n'
                'using T = %s;\nusing A = %s;\n'
                'template void svp::drive<T, %d, %d, A> (gch::small_vector<T, %d, A>&, '
                'gch::small_vector<T, %d, A>&, gch::small_vector<T, %d, A>&, T&, const A&, '
                'std::size_t, svp::InIt<T>, svp::FwIt<T>, svp::RaIt<T>, T *, svp::Gen<T>, '
                'std::initializer_list<T>);\n'
                % (T, A, self.n, self.m, self.n, self.n, self.m))

    def flags(self):
        fl = ['-std=' + self.std, '-I', common.INCLUDE, '-I', os.path.join(common.VERIF, 'probes')]
        if self.canary:
            fl += ['-I', os.path.join(common.VERIF, 'canaries'), '-fno-access-control']
        if self.ndebug:
            fl.append('-DNDEBUG')
        else:
            fl.append('-UNDEBUG')
        for d in self.defines:
            fl.append('-D' + d)
        if self.std == 'c++2b' and 'SVP_CONSTANT_EVALUATION_FLAVOUR' not in self.defines:
            # clang 14 + libstdc++ 12: std::is_constant_evaluated () is implemented with
            # `if consteval` in C++23 mode and clang 14's condition folder evaluates it to *true*
            # when emitting run-time code (a toolchain defect, not /repo's).  Making libstdc++
            # fall back to __builtin_is_constant_evaluated gives the run-time arm, as g++ does.
            fl.append('-U__cpp_if_consteval')
        return fl


def quick_corpus():
    C = Cfg
    return [
        C('NM', 2, 4, 0), C('NM', 4, 2, 14), C('TM', 2, 4, 0), C('TM', 4, 2, 7),
        C('TM', 0, 2, 'std'), C('MO', 2, 2, 8), C('CO', 2, 0, 2), C('TR', 2, 4, 'std'),
        C('int', 0, 0, 1, sizet='u8'), C('intp', 3, 3, 4, sizet='u16'),
        C('NM', 2, 4, 'std', std='c++20'), C('TM', 2, 4, 5, std='c++20'),
        C('NM', 2, 2, 0, std='c++11', sizet='u32'), C('TR', 0, 2, 8, std='c++14'),
        C('TM', 2, 4, 0, std='c++2b'), C('MO', 0, 3, 'std', std='c++20'),
        C('NM', 2, 4, 3), C('MO', 0, 2, 6),
    ]


def thorough_corpus():
    out = list(quick_corpus())
    seen = set(c.name for c in out)
    C = Cfg

    def add(c):
        if c.name not in seen:
            seen.add(c.name)
            out.append(c)
    pairs = [(0, 0), (0, 2), (2, 0), (2, 2), (2, 4), (4, 2)]
    for e in ('NM', 'TM', 'MO', 'CO', 'TR', 'int'):
        for (n, m) in pairs:
            for a in ('std', 0, 7, 8, 2, 5):
                add(C(e, n, m, a))
    for e in ('NM', 'TM', 'TR'):
        for a in range(16):
            add(C(e, 2, 4, a))
    for st in ('u8', 'u16', 'u32'):
        for e in ('int', 'NM', 'TR'):
            add(C(e, 2, 4, 0, sizet=st))
            add(C(e, 0, 2, 7, sizet=st))
    for std in ('c++11', 'c++14', 'c++20', 'c++2b'):
        for e in ('NM', 'TM', 'MO', 'CO', 'TR'):
            add(C(e, 2, 4, 0, std=std))
            add(C(e, 4, 2, 'std', std=std))
            add(C(e, 0, 2, 7, std=std))
    for std in ('c++20', 'c++2b'):
        add(C('MOT', 2, 4, 'std', std=std))
        add(C('NM', 2, 4, 0, std=std, defines=('GCH_DISABLE_CONCEPTS',)))
        add(C('TM', 4, 2, 'std', std=std, defines=('GCH_DISABLE_CONCEPTS',)))
    return out


def corpus(tier):
    return quick_corpus() if tier == 'quick' else thorough_corpus()


def build_ir(cfg):
    """-> path of the SSA-form IR for cfg (cached).  Raises AnalysisBroken when it does not compile."""
    src = cfg.source()
    ll, rc, err = common.cached_tool(
        ('ir0', cfg.name, ' '.join(cfg.flags())),
        lambda s, o: [common.CLANGXX, '-O0', '-Xclang', '-disable-O0-optnone', '-g', '-S',
                      '-emit-llvm', '-w'] + cfg.flags() + [s, '-o', o],
        '.ll', src_text=src)
    if rc != 0:
        raise common.AnalysisBroken('probe TU %s does not compile: %s' % (cfg.name, err[:1500] + ' ... ' + err[-1500:]))
    opt, rc, err = common.cached_tool(
        ('ir1', cfg.name, os.path.basename(ll)),
        lambda s, o: [common.OPT, '-S', '-passes=function(mem2reg,simplifycfg)', ll, '-o', o],
        '.opt.ll')
    if rc != 0:
        raise common.AnalysisBroken('opt failed for %s: %s' % (cfg.name, err[-500:]))
    return opt


def load_engine(cfg):
    path = build_ir(cfg)
    pk = path + '.pickle'
    mod = None
    if os.path.exists(pk):
        try:
            with open(pk, 'rb') as f:
                mod = pickle.load(f)
        except Exception:
            mod = None
    if mod is None:
        mod = ir.parse_module(path)
        try:
            with open(pk + '.tmp%d' % os.getpid(), 'wb') as f:
                pickle.dump(mod, f, protocol=pickle.HIGHEST_PROTOCOL)
            os.replace(pk + '.tmp%d' % os.getpid(), pk)
        except Exception:
            pass
    orc = cg.Oracle(mod)
    eng = sym.Engine(mod, orc)
    eng.cfg = cfg
    return eng


def _worker(job):
    modname, fn, cfg, extra = job
    t0 = time.time()
    try:
        eng = load_engine(cfg)
        m = importlib.import_module(modname)
        res = getattr(m, fn)(eng, cfg, *extra)
        return {'cfg': cfg.name, 'ok': True, 'res': res, 'wall': time.time() - t0}
    except common.AnalysisBroken as e:
        return {'cfg': cfg.name, 'ok': False, 'broken': str(e), 'wall': time.time() - t0}
    except Exception:
        import traceback
        return {'cfg': cfg.name, 'ok': False, 'broken': 'internal error: ' + traceback.format_exc()[-3000:],
                'wall': time.time() - t0}


def _worker_multi(job):
    parts, cfg = job
    t0 = time.time()
    out = {}
    try:
        eng = load_engine(cfg)
    except common.AnalysisBroken as e:
        return {p: {'cfg': cfg.name, 'ok': False, 'broken': str(e), 'wall': 0} for p in parts}
    except Exception:
        import traceback
        tb = traceback.format_exc()[-3000:]
        return {p: {'cfg': cfg.name, 'ok': False, 'broken': 'internal error: ' + tb, 'wall': 0} for p in parts}
    for part in parts:
        t1 = time.time()
        try:
            m = importlib.import_module('svlib.rules.' + part)
            res = m.analyse_tu(eng, cfg)
            out[part] = {'cfg': cfg.name, 'ok': True, 'res': res, 'wall': time.time() - t1}
        except common.AnalysisBroken as e:
            out[part] = {'cfg': cfg.name, 'ok': False, 'broken': str(e), 'wall': time.time() - t1}
        except Exception:
            import traceback
            out[part] = {'cfg': cfg.name, 'ok': False,
                         'broken': 'internal error: ' + traceback.format_exc()[-3000:], 'wall': time.time() - t1}
    return out


def run_parts_over(cfgs, parts, jobs=None):
    """Run several rule parts over every cfg, sharing one engine (IR, oracle, summaries) per TU.
    -> {part: [result per cfg]}"""
    jobs_list = [(tuple(parts), c) for c in cfgs]
    with ProcessPoolExecutor(max_workers=min(jobs or common.JOBS, len(jobs_list) or 1)) as ex:
        rows = list(ex.map(_worker_multi, jobs_list))
    return {p: [r[p] for r in rows] for p in parts}


def run_over(cfgs, modname, fn, extra=(), jobs=None):
    """Run modname.fn(engine, cfg, *extra) for every cfg in a process pool; results in order."""
    jobs_list = [(modname, fn, c, extra) for c in cfgs]
    with ProcessPoolExecutor(max_workers=min(jobs or common.JOBS, len(jobs_list) or 1)) as ex:
        return list(ex.map(_worker, jobs_list))
