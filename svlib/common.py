"""Shared plumbing for every check: paths, tool invocation with a content-hash cache,
obligation bookkeeping, known findings, evidence and exit-code conventions (DESIGN section 4).

Exit codes:  0 pass (or only listed known findings), 1 violation, 2 analysis broken.
"""
import hashlib
import json
import os
import shutil
import subprocess
import sys
import time
from concurrent.futures import ThreadPoolExecutor

VERIF = os.path.dirname(os.path.dirname(os.path.abspath(__file__)))
REPO = os.environ.get('SV_REPO', '/repo')
HEADER_REL = 'source/include/gch/small_vector.hpp'
HEADER = os.path.join(REPO, HEADER_REL)
INCLUDE = os.path.join(REPO, 'source/include')
README = os.path.join(REPO, 'README.md')
PRETTYPRINTER = os.path.join(
    REPO, 'source/support/python/gch/gdb/prettyprinters/small_vector/prettyprinter.py')
NATVIS = os.path.join(REPO, 'source/support/visualstudio/small_vector.natvis')
CACHE = os.environ.get('SV_CACHE', os.path.join(VERIF, '.cache'))
OUT = os.environ.get('SV_OUT', os.path.join(VERIF, 'out'))
EVIDENCE = os.environ.get('SV_EVIDENCE', os.path.join(VERIF, 'evidence'))
KNOWN = os.path.join(VERIF, 'known_findings.jsonl')
JOBS = int(os.environ.get('SV_JOBS', str(os.cpu_count() or 4)))
MAX_CACHE_GENERATIONS = 8

CLANGXX = 'clang++'
GXX = 'g++'
OPT = 'opt-14'
STDS = ['c++11', 'c++14', 'c++17', 'c++20', 'c++2b']  # clang 14 spells C++23 "c++2b"; g++ accepts it too


class AnalysisBroken(Exception):
    """An anchor vanished, a tool failed, a floor was not met: neither pass nor violation."""


def sha(*parts):
    h = hashlib.sha256()
    for p in parts:
        if isinstance(p, str):
            p = p.encode()
        h.update(p)
        h.update(b'\0')
    return h.hexdigest()


_header_digest = None


def header_digest():
    """Digest of everything under /repo that a check may read (header, README, visualisers)."""
    global _header_digest
    if _header_digest is None:
        h = hashlib.sha256()
        for p in (HEADER, README, PRETTYPRINTER, NATVIS):
            try:
                with open(p, 'rb') as f:
                    h.update(f.read())
            except OSError:
                h.update(b'<missing>')
            h.update(b'\0')
        _header_digest = h.hexdigest()[:20]
    return _header_digest


def cache_dir():
    """Cache is per header digest; stale generations are removed so disk use stays bounded."""
    d = os.path.join(CACHE, header_digest())
    if not os.path.isdir(d):
        os.makedirs(d, exist_ok=True)
        try:
            gens = [g for g in os.listdir(CACHE) if g != header_digest()]
            # a generation used in the last two hours may belong to a concurrent run on another tree
            # (mutant self-tests): never remove it under that run's feet
            now = time.time()
            gens = [g for g in gens if now - os.path.getmtime(os.path.join(CACHE, g)) > 7200]
            gens.sort(key=lambda g: os.path.getmtime(os.path.join(CACHE, g)))
            for g in gens[:-MAX_CACHE_GENERATIONS]:  # mutant runs flip between header versions
                shutil.rmtree(os.path.join(CACHE, g), ignore_errors=True)
        except OSError:
            pass
    else:
        try:
            os.utime(d, None)
        except OSError:
            pass
    return d


def run(cmd, inp=None, timeout=1800, cwd=None):
    p = subprocess.run(cmd, input=inp, stdout=subprocess.PIPE, stderr=subprocess.PIPE,
                       timeout=timeout, cwd=cwd, text=True, errors='replace')
    return p.returncode, p.stdout, p.stderr


_file_digest = {}
_inc_re = None


def probes_digest(src_text=None):
    """Digest of the probe headers a generated TU (transitively) includes from /verif/probes or
    /verif/canaries.  Only the files actually included matter, so that adding an unrelated probe
    header does not invalidate every cached compilation."""
    import re
    global _inc_re
    if _inc_re is None:
        _inc_re = re.compile(r'#\s*include\s*"([^"]+)"')
    if not src_text:
        return ''
    seen = {}
    work = [src_text]
    while work:
        t = work.pop()
        for name in _inc_re.findall(t):
            base = os.path.basename(name)
            if base in seen:
                continue
            for sub in ('probes', 'canaries'):
                fp = os.path.join(VERIF, sub, base)
                if os.path.isfile(fp):
                    if fp not in _file_digest:
                        with open(fp, 'rb') as f:
                            data = f.read()
                        _file_digest[fp] = (hashlib.sha256(data).hexdigest()[:16],
                                            data.decode('utf-8', 'replace'))
                    seen[base] = _file_digest[fp][0]
                    work.append(_file_digest[fp][1])
                    break
    return ','.join('%s=%s' % kv for kv in sorted(seen.items()))


_TRANSIENT = ('unable to rename temporary', 'No space left on device', 'unable to open output file', 'IO failure on output stream',
              'Cannot allocate memory', 'virtual memory exhausted', 'Disk quota exceeded', 'Input/output error')


def _transient(rc, stderr):
    """A tool failure that says something about the machine at that moment, not about the source."""
    return rc < 0 or any(t in stderr for t in _TRANSIENT)


def cached_tool(key_parts, cmd_builder, out_suffix, src_text=None, src_suffix='.cpp'):
    """Run a tool whose output file is a pure function of (header digest, key_parts).

    cmd_builder(src_path, out_path) -> argv.  Returns (out_path, rc, stderr).  A failing run is
    cached as well (rc/stderr stored next to the output)."""
    d = cache_dir()
    key = sha(probes_digest(src_text), *[str(k) for k in key_parts], src_text or '')[:24]
    out = os.path.join(d, key + out_suffix)
    meta = os.path.join(d, key + '.meta')
    if os.path.exists(meta):
        with open(meta) as f:
            m = json.load(f)
        err = m.get('stderr', '')
        if not m.get('stderr_file') and len(err) >= 200000:
            # an entry written before diagnostics were kept in full: it may have lost its beginning
            os.remove(meta)
            return cached_tool(key_parts, cmd_builder, out_suffix, src_text, src_suffix)
        if m.get('stderr_file'):
            # (batteries of compile-fail witnesses produce megabytes of diagnostics: a cached run must give
            # back ALL of them, the first as well as the last)
            try:
                with open(os.path.join(d, m['stderr_file']), errors='replace') as f:
                    err = f.read()
            except OSError:
                os.remove(meta)
                return cached_tool(key_parts, cmd_builder, out_suffix, src_text, src_suffix)
        if m['rc'] != 0 and _transient(m['rc'], err):
            os.remove(meta)       # an environment failure (disk, a cache directory removed meanwhile) is no fact about the source
            return cached_tool(key_parts, cmd_builder, out_suffix, src_text, src_suffix)
        return out, m['rc'], err
    src = None
    if src_text is not None:
        src = os.path.join(d, key + src_suffix)
        with open(src, 'w') as f:
            f.write(src_text)
    tmp = out + '.tmp%d' % os.getpid()
    rc, so, se = run(cmd_builder(src, tmp))
    if os.path.exists(tmp):
        os.replace(tmp, out)
    elif rc == 0:
        with open(out, 'w') as f:
            f.write(so)
    if rc != 0 and _transient(rc, se):
        return out, rc, se        # reported to the caller (analysis-broken), never remembered
    errname = key + '.stderr'
    with open(os.path.join(d, errname + '.tmp%d' % os.getpid()), 'w', errors='replace') as f:
        f.write(se)
    os.replace(os.path.join(d, errname + '.tmp%d' % os.getpid()), os.path.join(d, errname))
    with open(meta + '.tmp%d' % os.getpid(), 'w') as f:
        json.dump({'rc': rc, 'stderr_file': errname, 'cmd': cmd_builder(src, out)}, f)
    os.replace(meta + '.tmp%d' % os.getpid(), meta)
    return out, rc, se


def pmap(fn, items, jobs=None):
    items = list(items)
    if not items:
        return []
    with ThreadPoolExecutor(max_workers=min(jobs or JOBS, len(items))) as ex:
        return list(ex.map(fn, items))


def load_known():
    out = []
    if os.path.exists(KNOWN):
        with open(KNOWN) as f:
            for line in f:
                line = line.strip()
                if line and not line.startswith('#'):
                    out.append(json.loads(line))
    return out


class Check:
    """One run of one property's check."""

    def __init__(self, pid, tier='quick', level='other'):
        self.pid = pid
        self.tier = tier
        self.level = level
        self.t0 = time.time()
        self.seed = int(os.environ.get('VERIF_SEED', '0') or 0)
        self.obligations = 0
        self.discharged = 0
        self.by_rule = {}
        self.samples = []
        self.violations = []     # (key, message, detail)
        self.notes = []
        self.assumptions = []
        self.extra = {}
        self.units = set()
        self.floors = []         # (name, measured, floor)

    # ---- bookkeeping -----------------------------------------------------------------------
    def ok(self, rule, sample=None, n=1):
        self.obligations += n
        self.discharged += n
        r = self.by_rule.setdefault(rule, {'obligations': 0, 'discharged': 0, 'violations': 0})
        r['obligations'] += n
        r['discharged'] += n
        if sample is not None and sum(1 for s in self.samples if s.get('rule') == rule) < 3:
            self.samples.append({'rule': rule, 'obligation': sample, 'verdict': 'discharged'})

    def violation(self, rule, key, message, detail=None):
        """key: dict that identifies the construct independent of line numbers."""
        self.obligations += 1
        r = self.by_rule.setdefault(rule, {'obligations': 0, 'discharged': 0, 'violations': 0})
        r['obligations'] += 1
        r['violations'] += 1
        k = dict(key)
        k['rule'] = rule
        self.violations.append((k, message, detail or {}))

    def floor(self, name, measured, floor):
        self.floors.append((name, measured, floor))

    def note(self, s):
        self.notes.append(s)

    def unit(self, u):
        self.units.add(u)

    # ---- finishing -------------------------------------------------------------------------
    def _match_known(self, key):
        for f in load_known():
            if f.get('property') != self.pid or f.get('status', 'open') != 'open':
                continue
            fk = f.get('key', {})
            if all(key.get(a) == b for a, b in fk.items()):
                return f
        return None

    def finish(self, explanation, trusted_base=None, checker_cmd=None, exhaustive=None):
        wall = time.time() - self.t0
        os.makedirs(EVIDENCE, exist_ok=True)
        outdir = os.path.join(OUT, self.pid)
        if os.path.isdir(outdir):
            shutil.rmtree(outdir, ignore_errors=True)
        os.makedirs(outdir, exist_ok=True)
        broken = [(n, m, fl) for (n, m, fl) in self.floors if m < fl]
        known_hits = {}
        fresh = []
        for key, msg, detail in self.violations:
            f = self._match_known(key)
            if f is not None:
                known_hits.setdefault(f['id'], [f, 0])[1] += 1
            else:
                fresh.append((key, msg, detail))
        lines = []
        for fid, (f, n) in sorted(known_hits.items()):
            lines.append('KNOWN-FINDING: property=%s %s [%s, %d obligation(s)]'
                         % (self.pid, f.get('what', ''), fid, n))
        # group fresh violations by key so that one construct gives one report
        groups = {}
        for key, msg, detail in fresh:
            gk = json.dumps(key, sort_keys=True)
            groups.setdefault(gk, []).append((key, msg, detail))
        i = 0
        for gk, items in groups.items():
            i += 1
            path = os.path.join(outdir, 'violation-%03d.json' % i)
            with open(path, 'w') as f:
                json.dump({'property': self.pid, 'key': items[0][0], 'message': items[0][1],
                           'instances': len(items),
                           'details': [d for (_, _, d) in items[:20]]}, f, indent=1, default=str)
            lines.append('VIOLATION property=%s replay=%s' % (self.pid, path))
            lines.append('  ' + items[0][1])
        cov = {
            'explanation': explanation,
            'obligations': self.obligations,
            'discharged': self.discharged,
            'evaluations': max(self.obligations, 1),
            'distinct_nontrivial': max(self.obligations, 0),
            'rule': 'one obligation per rule instance found in the code compiled from /repo; '
                    'see by_rule',
            'by_rule': self.by_rule,
            'samples': self.samples[:40] or [{'note': 'no obligation was generated'}],
            'units_analysed': len(self.units),
            'floors': [{'name': n, 'measured': m, 'floor': fl} for (n, m, fl) in self.floors],
            'known_findings_hit': {fid: n for fid, (f, n) in known_hits.items()},
            'notes': self.notes[:60],
        }
        if trusted_base is not None:
            cov['trusted_base'] = trusted_base
        if checker_cmd is not None:
            cov['checker_cmd'] = checker_cmd
        if exhaustive is not None:
            cov['exhaustive'] = exhaustive
        cov.update(self.extra)
        ev = {
            'property_id': self.pid, 'tier': self.tier, 'seed': self.seed, 'level': self.level,
            'coverage': cov, 'assumptions': self.assumptions, 'wall_s': round(wall, 2),
            'violations': len(groups),
        }
        if self.level == 'proof':
            # proof-level evidence: obligations that are listed known findings did NOT discharge
            # and are counted separately, so that discharged == obligations means "everything
            # that is claimed to hold was proved"
            nk = sum(n for _, n in known_hits.values())
            cov['known_finding_obligations'] = nk
            cov['obligations'] = self.obligations - nk
        with open(os.path.join(EVIDENCE, self.pid + '.json'), 'w') as f:
            json.dump(ev, f, indent=1, default=str)
        for ln in lines:
            print(ln)
        print('%s tier=%s obligations=%d discharged=%d known=%d new-violations=%d wall=%.1fs'
              % (self.pid, self.tier, self.obligations, self.discharged,
                 sum(n for _, n in known_hits.values()), len(groups), wall))
        if groups:
            sys.exit(1)
        if broken:
            for n, m, fl in broken:
                print('ANALYSIS-BROKEN property=%s floor %s: measured %d < %d' % (self.pid, n, m, fl))
            sys.exit(2)
        sys.exit(0)


def broken(pid, msg):
    print('ANALYSIS-BROKEN property=%s %s' % (pid, msg))
    sys.exit(2)
