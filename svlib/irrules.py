"""Shared helpers for IR path rules: semantic interpretation of events (roles discovered from
effects, not from names), reporting records, per-TU driver."""
import re

from . import sym, cg
from .sym import const_of, single_atom, is_lin, atom, L


def base_name(pretty):
    """'ns::cls<..>::fn<..>(args) const' -> 'fn' ; constructors -> 'cls::cls'."""
    p = pretty
    # strip return type of templates: find the parameter list start at depth 0 from the right
    depth = 0
    end = None
    i = len(p) - 1
    # find matching '(' of the last top-level ')'
    close = p.rfind(')')
    if close < 0:
        return p
    depth = 0
    j = close
    while j >= 0:
        c = p[j]
        if c == ')':
            depth += 1
        elif c == '(':
            depth -= 1
            if depth == 0:
                break
        j -= 1
    head = p[:j]
    # remove template argument lists
    out = []
    d = 0
    for c in head:
        if c == '<':
            d += 1
        elif c == '>':
            d -= 1
        elif d == 0:
            out.append(c)
    h = ''.join(out).strip()
    if h.endswith('operator'):
        # operator< / operator<< etc. got eaten by the template stripper
        m = re.search(r'operator[^\s(]*', head)
        return m.group(0) if m else 'operator'
    parts = h.split('::')
    name = parts[-1].split(' ')[-1]
    if len(parts) >= 2 and parts[-2].split(' ')[-1] == name:
        return name + '::' + name
    if name.startswith('~'):
        return name
    return name


def is_ctor(f):
    # C1E/C2E: ordinary constructors; C1I.../C2I...: constructor templates (the range / converting ones)
    return bool(re.search(r'C[12][EI]', f.name)) and '::' in (f.pretty or '')


def is_dtor(f):
    return bool(re.search(r'D[012]E', f.name))


def obj_of(addr):
    """Object identity of an address: its symbolic part (constant byte offset dropped)."""
    return addr[2]


def cfg_class(cfg):
    """Configuration class used in finding keys (no N values: findings are per mechanism)."""
    a = 'std_allocator' if cfg.alloc == 'std' else 'custom_allocator'
    return '%s/%s' % (cfg.elem, a)


class Report(object):
    """Picklable record of one obligation outcome."""

    def __init__(self, rule, ok, key, message=None, detail=None, sample=None):
        self.rule = rule
        self.ok = ok
        self.key = key
        self.message = message
        self.detail = detail or {}
        self.sample = sample


def where(ev, orc):
    """Human-readable location of an event: innermost function:line plus the call stack."""
    fn = ev.fn.pretty if ev.fn is not None else '?'
    line = ev.ins.line if ev.ins is not None else 0
    s = '%s:%d' % (base_name(fn), line)
    if ev.stack:
        s += ' via ' + ' > '.join('%s:%d' % (base_name(orc.pretty.get(n, n)), ln) for (n, ln) in ev.stack)
    return s


def gch_roots(eng, pred=None):
    orc = eng.oracle
    for n, f in eng.mod.funcs.items():
        if orc.is_gch(n) and (pred is None or pred(f)):
            yield f


def callers_map(eng):
    cm = {}
    for n, cs in eng.oracle._calls.items():
        for (cn, lb, ins) in cs:
            cm.setdefault(cn, set()).add(n)
    return cm


def constructor_context(eng):
    """Functions that run only while an object is under construction: constructors, and
    functions all of whose callers are (transitively) such functions."""
    cm = callers_map(eng)
    ctx = set(n for n, f in eng.mod.funcs.items() if is_ctor(f) and eng.oracle.is_gch(n))
    changed = True
    while changed:
        changed = False
        for n, f in eng.mod.funcs.items():
            if n in ctx or not eng.oracle.is_gch(n):
                continue
            cs = cm.get(n)
            if cs and all(c in ctx for c in cs):
                ctx.add(n)
                changed = True
    return ctx


def aggregate(ck, results, floor_name=None):
    """Fold per-TU results (from corpus.run_over) into a Check."""
    from . import common
    nrep = 0
    for r in results:
        if not r['ok']:
            msg = r['broken']
            if 'does not compile' in msg and 'small_vector.hpp' in msg and 'error' in msg:
                # The probe corpus only contains valid uses of the public API and compiles on the
                # unchanged tree; if the header now rejects one of them, the operations it names
                # cannot have the property at all.  Reported once per configuration class.
                import re as _re
                errs = _re.findall(r'[^\n]*small_vector\.hpp:\d+:\d+: error: [^\n]*', msg)
                uses = _re.findall(r'sv_driver\.hpp:\d+:\d+: note: in instantiation of [^\n]*', msg)
                unit = r['cfg']
                ck.violation('corpus', {'unit': _re.sub(r'\.N\d+\.M\d+', '', unit).split('.c++')[0], 'defect': 'valid use of the public API is ill-formed'},
                             'R17.3/corpus: a valid use of the public API no longer compiles in configuration %s: %s [%s]'
                             % (unit, (errs[0] if errs else msg[-300:]).strip()[-300:], (uses[0].strip()[-200:] if uses else '')),
                             {'unit': unit, 'compiler_output_tail': msg[-1500:]})
                continue
            raise common.AnalysisBroken('TU %s: %s' % (r['cfg'], msg[:2000]))
        ck.unit(r['cfg'])
        for rep in r['res']['reports']:
            nrep += 1
            if rep.ok:
                ck.ok(rep.rule, sample=rep.sample)
            else:
                ck.violation(rep.rule, rep.key, rep.message, rep.detail)
    return nrep


def maximal_roots(eng, pred=None):
    """Header functions whose paths are not already covered by a caller's walk: functions that
    are never expanded (opaque summaries) and functions without a caller in the header.  Every
    path of a small helper is examined inside each function it is expanded into."""
    orc = eng.oracle
    cm = callers_map(eng)
    for f in gch_roots(eng, pred):
        callers = [c for c in cm.get(f.name, ()) if orc.is_gch(c)]
        if not callers or eng.summary(f.name) is sym.OPAQUE:
            yield f


def run_canaries(ck, expectations, silent=(), assert_flavour=False):
    """Positive examples on every run: analyse canaries/sv_canary.hpp with the same rule parts and
    demand that each deliberately wrong function is reported by the named rule and that the
    correct twins are not.  expectations: {part: [(rule, function name), ...]}.
    Canary reports never count as violations of /repo; a canary that is not reported (or a twin
    that is) makes the run analysis-broken."""
    from . import common, corpus
    cfg = corpus.Cfg('NM', 2, 2, 0, canary=True, ndebug=not assert_flavour)
    res = corpus.run_parts_over([cfg], list(expectations))
    for part, exps in expectations.items():
        r = res[part][0]
        if not r['ok']:
            raise common.AnalysisBroken('canary TU for %s: %s' % (part, r['broken'][:1500]))
        bad = [(x.rule, x.key.get('function', '')) for x in r['res']['reports'] if not x.ok]
        for (rule, fn) in exps:
            if not any(b[0] == rule and fn in b[1] for b in bad):
                raise common.AnalysisBroken('canary not reported: rule %s should flag %s (part %s); reported: %s'
                                            % (rule, fn, part, bad[:12]))
            ck.ok('canary', sample={'rule': rule, 'canary': fn, 'verdict': 'reported as it must be'})
        for fn in silent:
            hit = [b for b in bad if fn in b[1]]
            if hit:
                raise common.AnalysisBroken('correct canary twin %s is reported: %s' % (fn, hit[:4]))
            ck.ok('canary', sample={'canary': fn, 'verdict': 'silent as it must be'})
