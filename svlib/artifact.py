"""E5 `svartifact`, visualiser side (DESIGN section 2, E5; property C20).

Parses the shipped debugger visualisers *without running a debugger*:

* the GDB pretty-printer module (`common.PRETTYPRINTER`) with Python's `ast`: a tiny symbolic
  interpreter follows `gdb.Value` expressions through the printer classes (`val['m']`,
  `.cast (x.type.fields ()[k].type)`, `.dereference ()`, `int (…)`, attributes set in `__init__`,
  the nested children iterator) and reports, per printer class, *which member path feeds which
  displayed quantity* (length, capacity, first element pointer, element count, iterator target),
  plus the registration list `(regex, class)` in first-match order;
* the natvis file (`common.NATVIS`) with `xml.etree`: type-name patterns, conditions, display
  strings, `[capacity]`/`[allocator]` items, `ArrayItems/Size`, `ValuePointer`.

and resolves GDB member paths in a debug-info record (svlib/norm.py `Record`) under GDB's
documented rules: `Value.__getitem__ (name)` finds a data member of the value's type looking
through base classes (an ambiguous name is an error); `Type.fields ()` lists base-class
sub-objects first, then data members, in DWARF order; `Value.cast (T)` of a class value to one of
its base classes yields that sub-object, any other class-to-type cast is an error.

A construct of the printer this interpreter does not understand raises `AnalysisBroken`; a path
that does not resolve in the header's layout is returned as `Unresolved` for the caller to report.
"""
import ast
import re
import xml.etree.ElementTree as ET

from . import common

AnalysisBroken = common.AnalysisBroken


# ==================================================================================================
# GDB pretty-printer (Python ast)
# ==================================================================================================
# symbolic values (tuples):
#   ('val', steps)            a gdb.Value reached from the printed value by `steps`
#   ('type', steps) ('fields', steps) ('field', steps, k) ('ftype', steps, k)
#   ('int', x) ('str', x) ('const', c) ('add', a, b) ('cmp', op, a, b) ('not', x) ('truth', x)
#   ('fstr', [str | sym]) ('tuple', [sym]) ('obj', class name, attrs dict) ('exc', name)
# steps: ('field', name) | ('cast_ftype', owner steps, k) | ('deref',)


def steps_str(steps):
    s = 'val'
    for st in steps:
        if st[0] == 'field':
            s += "['%s']" % st[1]
        elif st[0] == 'cast_ftype':
            s += '.cast(%s.type.fields()[%d].type)' % (steps_str(st[1]), st[2])
        elif st[0] == 'deref':
            s += '.dereference()'
    return s


class _Outcome(object):
    __slots__ = ('kind', 'value', 'conds', 'env')

    def __init__(self, kind, value, conds, env):
        self.kind, self.value, self.conds, self.env = kind, value, conds, env


class PrinterInterp(object):
    def __init__(self, source, filename):
        self.filename = filename
        try:
            self.tree = ast.parse(source, filename)
        except SyntaxError as e:
            raise AnalysisBroken('svartifact: %s does not parse as Python: %s' % (filename, e))
        self.classes = {}
        self._collect_classes(self.tree.body, None)

    def _collect_classes(self, body, outer):
        for n in body:
            if isinstance(n, ast.ClassDef):
                methods = dict((f.name, f) for f in n.body if isinstance(f, ast.FunctionDef))
                self.classes[n.name] = {'node': n, 'methods': methods, 'outer': outer,
                                        'nested': [c.name for c in n.body if isinstance(c, ast.ClassDef)]}
                self._collect_classes(n.body, n.name)

    def unsupported(self, node, what):
        raise AnalysisBroken('svartifact: %s:%d: pretty-printer construct not understood (%s): `%s`'
                             % (self.filename, getattr(node, 'lineno', 0), what,
                                ast.unparse(node)[:120] if hasattr(ast, 'unparse') else type(node).__name__))

    # ---- expressions ----------------------------------------------------------------------------
    def ev(self, n, env):
        if isinstance(n, ast.Constant):
            return ('const', n.value)
        if isinstance(n, ast.Name):
            if n.id in env:
                return env[n.id]
            if n.id in ('StopIteration',):
                return ('exc', n.id)
            self.unsupported(n, 'unknown name')
        if isinstance(n, ast.Attribute):
            base = self.ev(n.value, env)
            if base[0] == 'obj':
                if n.attr in base[2]:
                    return base[2][n.attr]
                cls = self.classes.get(base[1])
                if cls and n.attr in cls['nested']:
                    return ('class', n.attr)
                if cls and n.attr in cls['methods']:
                    return ('method', base, n.attr)
                self.unsupported(n, 'attribute not set in __init__')
            if base[0] == 'val' and n.attr == 'type':
                return ('type', base[1])
            if base[0] == 'field' and n.attr == 'type':
                return ('ftype', base[1], base[2])
            if base[0] == 'val' and n.attr in ('cast', 'dereference', 'referenced_value'):
                return ('vmethod', base, n.attr)
            if base[0] == 'type' and n.attr in ('fields', 'strip_typedefs', 'unqualified'):
                return ('tmethod', base, n.attr)
            self.unsupported(n, 'attribute')
        if isinstance(n, ast.Subscript):
            base = self.ev(n.value, env)
            idx = n.slice
            if isinstance(idx, ast.Index):   # python < 3.9
                idx = idx.value
            k = self.ev(idx, env)
            if base[0] == 'val' and k[0] == 'const' and isinstance(k[1], str):
                return ('val', base[1] + (('field', k[1]),))
            if base[0] == 'fields' and k[0] == 'const' and isinstance(k[1], int):
                return ('field', base[1], k[1])
            self.unsupported(n, 'subscript')
        if isinstance(n, ast.Call):
            if isinstance(n.func, ast.Name) and n.func.id in ('int', 'str', 'len') and len(n.args) == 1:
                a = self.ev(n.args[0], env)
                return (n.func.id, a)
            f = self.ev(n.func, env)
            args = [self.ev(a, env) for a in n.args]
            if f[0] == 'vmethod':
                v = f[1]
                if f[2] == 'cast' and len(args) == 1 and args[0][0] == 'ftype':
                    return ('val', v[1] + (('cast_ftype', args[0][1], args[0][2]),))
                if f[2] in ('dereference', 'referenced_value') and not args:
                    return ('val', v[1] + (('deref',),))
                self.unsupported(n, 'gdb.Value method')
            if f[0] == 'tmethod':
                if f[2] == 'fields' and not args:
                    return ('fields', f[1][1])
                if f[2] in ('strip_typedefs', 'unqualified'):
                    return f[1]
            if f[0] == 'class':
                return self.instantiate(f[1], args, n)
            if f[0] == 'method':
                outs = self.run_method(f[1], f[2], args)
                rets = [o.value for o in outs if o.kind == 'return']
                if len(rets) == 1:
                    return rets[0]
                self.unsupported(n, 'helper method with several outcomes')
            self.unsupported(n, 'call')
        if isinstance(n, ast.JoinedStr):
            parts = []
            for v in n.values:
                if isinstance(v, ast.Constant):
                    parts.append(str(v.value))
                elif isinstance(v, ast.FormattedValue):
                    parts.append(self.ev(v.value, env))
                else:
                    self.unsupported(v, 'f-string part')
            return ('fstr', parts)
        if isinstance(n, ast.BinOp):
            a, b = self.ev(n.left, env), self.ev(n.right, env)
            if isinstance(n.op, ast.Add):
                if a[0] == 'const' and b[0] == 'const':
                    return ('const', a[1] + b[1])
                return ('add', a, b)
            if isinstance(n.op, ast.Mod) and a[0] == 'const' and isinstance(a[1], str):
                # 'text %d …' % (x, y): split the literal at the conversions
                vals = b[1] if b[0] == 'tuple' else [b]
                lits = re.split(r'%[-#0 +]*\d*(?:\.\d+)?[sdiurxX]', a[1])
                if len(lits) == len(vals) + 1:
                    parts = []
                    for k, v in enumerate(vals):
                        parts += [lits[k], v]
                    return ('fstr', parts + [lits[-1]])
            self.unsupported(n, 'binary operator')
        if isinstance(n, ast.Compare) and len(n.ops) == 1:
            a, b = self.ev(n.left, env), self.ev(n.comparators[0], env)
            return ('cmp', type(n.ops[0]).__name__, a, b)
        if isinstance(n, ast.UnaryOp) and isinstance(n.op, ast.Not):
            return ('not', self.ev(n.operand, env))
        if isinstance(n, ast.Tuple):
            return ('tuple', [self.ev(e, env) for e in n.elts])
        self.unsupported(n, 'expression')

    # ---- statements -----------------------------------------------------------------------------
    def exec_block(self, stmts, env, conds):
        """Enumerate the paths of a statement list: list of _Outcome."""
        if not stmts:
            return [_Outcome('fall', None, conds, env)]
        s, rest = stmts[0], stmts[1:]
        if isinstance(s, ast.Expr):
            if isinstance(s.value, ast.Constant):     # docstring
                return self.exec_block(rest, env, conds)
            self.ev(s.value, env)
            return self.exec_block(rest, env, conds)
        if isinstance(s, ast.Pass):
            return self.exec_block(rest, env, conds)
        if isinstance(s, (ast.Assign, ast.AugAssign)):
            if isinstance(s, ast.Assign):
                if len(s.targets) != 1:
                    self.unsupported(s, 'multiple assignment')
                tgt, val = s.targets[0], self.ev(s.value, env)
            else:
                tgt = s.target
                if not isinstance(s.op, ast.Add):
                    self.unsupported(s, 'augmented assignment')
                val = ('add', self.ev(s.target, env), self.ev(s.value, env))
            env = dict(env)
            if isinstance(tgt, ast.Name):
                env[tgt.id] = val
            elif isinstance(tgt, ast.Attribute) and isinstance(tgt.value, ast.Name) and \
                    env.get(tgt.value.id, ('?',))[0] == 'obj':
                o = env[tgt.value.id]
                o2 = ('obj', o[1], dict(o[2]))
                o2[2][tgt.attr] = val
                env[tgt.value.id] = o2
            else:
                self.unsupported(s, 'assignment target')
            return self.exec_block(rest, env, conds)
        if isinstance(s, ast.Return):
            v = self.ev(s.value, env) if s.value is not None else ('const', None)
            return [_Outcome('return', v, conds, env)]
        if isinstance(s, ast.Raise):
            v = self.ev(s.exc, env) if s.exc is not None else ('exc', '?')
            if v[0] == 'obj':
                v = ('exc', v[1])
            return [_Outcome('raise', v, conds, env)]
        if isinstance(s, ast.If):
            t = self.ev(s.test, env)
            outs = []
            for branch, c in ((s.body, t), (s.orelse, ('not', t))):
                for o in self.exec_block(branch, env, conds + [c]):
                    if o.kind == 'fall':
                        outs += self.exec_block(rest, o.env, o.conds)
                    else:
                        outs.append(o)
            return outs
        self.unsupported(s, 'statement')

    def run_method(self, obj, name, args):
        cls = self.classes[obj[1]]
        f = cls['methods'].get(name)
        if f is None:
            raise AnalysisBroken('svartifact: %s: class %s has no method %s' % (self.filename, obj[1], name))
        params = [a.arg for a in f.args.args]
        if len(params) != len(args) + 1:
            self.unsupported(f, 'argument count')
        env = {params[0]: obj}
        for p, a in zip(params[1:], args):
            env[p] = a
        outs = self.exec_block(f.body, env, [])
        for o in outs:
            o.env = dict(o.env, **{'__self__': o.env[params[0]]})
        return outs

    def instantiate(self, cname, args, node=None):
        if cname not in self.classes:
            raise AnalysisBroken('svartifact: %s: unknown class %s' % (self.filename, cname))
        obj = ('obj', cname, {})
        if '__init__' in self.classes[cname]['methods']:
            outs = self.run_method(obj, '__init__', args)
            outs = [o for o in outs if o.kind in ('fall', 'return')]
            if len(outs) != 1:
                raise AnalysisBroken('svartifact: %s: %s.__init__ has several outcomes' % (self.filename, cname))
            obj = outs[0].env['__self__']
        return obj


class Read(object):
    """One quantity the printer shows: role, the gdb.Value path it is read from, how it is used."""
    __slots__ = ('role', 'steps', 'use', 'where')

    def __init__(self, role, steps, use, where):
        self.role, self.steps, self.use, self.where = role, steps, use, where

    def __repr__(self):
        return '<%s %s via %s>' % (self.role, self.use, steps_str(self.steps))


LABELS = {'length': 'size', 'size': 'size', 'len': 'size', 'count': 'size', 'capacity': 'capacity', 'cap': 'capacity'}


class PrinterModel(object):
    def __init__(self):
        self.collection = None
        self.registrations = []    # (printer name, regex, class name) in registration order
        self.classes = {}          # class name -> {'kind': 'container'|'iterator', 'reads': [Read], 'hint': str}
        self.exported = []         # module-level names bound to the built collection


def _as_int_of_val(sym):
    if sym[0] == 'int' and sym[1][0] == 'val':
        return sym[1][1]
    return None


def analyse_printer(path=None):
    path = path or common.PRETTYPRINTER
    try:
        with open(path) as f:
            src = f.read()
    except OSError as e:
        raise AnalysisBroken('svartifact: cannot read the GDB pretty-printer %s: %s' % (path, e))
    rel = path[len(common.REPO):].lstrip('/') if path.startswith(common.REPO) else path
    ip = PrinterInterp(src, rel)
    model = PrinterModel()
    # registrations: pp.add_printer (name, regex, Class) in source order; the collection constructor
    calls = [n for n in ast.walk(ip.tree) if isinstance(n, ast.Call) and isinstance(n.func, ast.Attribute)]
    calls.sort(key=lambda n: (n.lineno, n.col_offset))
    for n in calls:
        if n.func.attr == 'RegexpCollectionPrettyPrinter' and n.args and isinstance(n.args[0], ast.Constant):
            model.collection = n.args[0].value
        if n.func.attr == 'add_printer':
            if len(n.args) != 3 or not all(isinstance(a, ast.Constant) for a in n.args[:2]) \
                    or not isinstance(n.args[2], ast.Name):
                raise AnalysisBroken('svartifact: %s:%d: add_printer call is not (name, regex, class)' % (rel, n.lineno))
            try:
                re.compile(n.args[1].value)
            except re.error as e:
                raise AnalysisBroken('svartifact: %s:%d: printer regex does not compile: %s' % (rel, n.lineno, e))
            model.registrations.append((n.args[0].value, n.args[1].value, n.args[2].id))
    if model.collection is None or not model.registrations:
        raise AnalysisBroken('svartifact: %s: no RegexpCollectionPrettyPrinter / add_printer registration found '
                             '(how printers are matched to type names is not recognised)' % rel)
    for _, _, cname in model.registrations:
        if cname in model.classes:
            continue
        if cname not in ip.classes:
            raise AnalysisBroken('svartifact: %s: registered class %s is not defined' % (rel, cname))
        model.classes[cname] = _analyse_class(ip, cname, rel)
    return model


def _analyse_class(ip, cname, rel):
    obj = ip.instantiate(cname, [('val', ())])
    methods = ip.classes[cname]['methods']
    info = {'kind': None, 'reads': [], 'hint': None}
    if 'display_hint' in methods:
        outs = [o for o in ip.run_method(obj, 'display_hint', []) if o.kind == 'return']
        if len(outs) == 1 and outs[0].value[0] == 'const':
            info['hint'] = outs[0].value[1]
    if 'to_string' not in methods:
        raise AnalysisBroken('svartifact: %s: printer class %s has no to_string' % (rel, cname))
    ts = [o for o in ip.run_method(obj, 'to_string', []) if o.kind == 'return']
    if 'children' in methods:
        info['kind'] = 'container'
        # to_string: labelled quantities of one f-string
        if len(ts) != 1 or ts[0].value[0] != 'fstr':
            raise AnalysisBroken('svartifact: %s: %s.to_string is not a single formatted string' % (rel, cname))
        parts = ts[0].value[1]
        for k, p in enumerate(parts):
            if isinstance(p, str):
                continue
            steps = _as_int_of_val(p)
            lit = parts[k - 1] if k and isinstance(parts[k - 1], str) else ''
            words = re.findall(r'[A-Za-z_]+', lit)
            label = LABELS.get(words[-1].lower()) if words else None
            if steps is None or label is None:
                raise AnalysisBroken('svartifact: %s: %s.to_string shows a quantity whose meaning or source is not '
                                     'recognised (label %r)' % (rel, cname, words[-1] if words else ''))
            info['reads'].append(Read(label, steps, 'to_string: "%s{…}"' % lit.strip(), 'to_string'))
        # children: an iterator object built from (first element pointer, count)
        ch = [o for o in ip.run_method(obj, 'children', []) if o.kind == 'return']
        if len(ch) != 1 or ch[0].value[0] != 'obj':
            raise AnalysisBroken('svartifact: %s: %s.children does not return one iterator object' % (rel, cname))
        it = ch[0].value
        info['reads'] += _analyse_children_iterator(ip, it, rel, cname)
    else:
        info['kind'] = 'iterator'
        # to_string: str (val[...].dereference ()) possibly guarded by a null test of the same pointer
        target = None
        for o in ts:
            v = o.value
            if v[0] == 'str' and v[1][0] == 'val' and v[1][1] and v[1][1][-1] == ('deref',):
                target = v[1][1][:-1]
                for c in o.conds:
                    inner = c
                    while inner[0] == 'not':
                        inner = inner[1]
                    if inner[0] == 'val' and inner[1] != target:
                        raise AnalysisBroken('svartifact: %s: %s.to_string tests %s but dereferences %s'
                                             % (rel, cname, steps_str(inner[1]), steps_str(target)))
        if target is None:
            raise AnalysisBroken('svartifact: %s: %s.to_string does not print a dereferenced member' % (rel, cname))
        info['reads'].append(Read('target', target, 'to_string: str (….dereference ())', 'to_string'))
    return info


def _analyse_children_iterator(ip, it, rel, cname):
    """The children iterator must yield `count` consecutive elements starting at `begin`:
    attrs: one pointer (a gdb.Value), one int (...) of a gdb.Value, one counter starting at 0;
    __next__: stop when counter == count; yield pointer.dereference (); pointer += 1; counter += 1."""
    icls = it[1]
    if '__next__' not in ip.classes[icls]['methods']:
        raise AnalysisBroken('svartifact: %s: children iterator %s has no __next__' % (rel, icls))
    outs = ip.run_method(it, '__next__', [])
    stops = [o for o in outs if o.kind == 'raise' and o.value == ('exc', 'StopIteration')]
    yields = [o for o in outs if o.kind == 'return']
    if len(stops) != 1 or len(yields) != 1:
        raise AnalysisBroken('svartifact: %s: %s.__next__ is not (stop test, one yield)' % (rel, icls))
    # stop condition: cmp Eq between a constant 0 counter and int (val)
    c = stops[0].conds
    if len(c) != 1 or c[0][0] != 'cmp' or c[0][1] != 'Eq':
        raise AnalysisBroken('svartifact: %s: %s.__next__ stop test is not `counter == count`' % (rel, icls))
    a, b = c[0][2], c[0][3]
    if a[0] != 'const':
        a, b = b, a
    count_steps = _as_int_of_val(b)
    if a != ('const', 0) or count_steps is None:
        raise AnalysisBroken('svartifact: %s: %s.__next__ stop test does not compare a zero-based counter with an '
                             'integer read from the value' % (rel, icls))
    y = yields[0]
    val = y.value
    if val[0] == 'tuple' and len(val[1]) == 2:
        val = val[1][1]
    if val[0] != 'val' or not val[1] or val[1][-1] != ('deref',):
        raise AnalysisBroken('svartifact: %s: %s.__next__ does not yield a dereferenced pointer' % (rel, icls))
    begin_steps = val[1][:-1]
    # after the yield: pointer advanced by one element, counter by one
    after = y.env['__self__'][2]
    before = it[2]
    adv_ptr = adv_cnt = False
    for k, v in after.items():
        if v == ('add', ('val', begin_steps), ('const', 1)) and before.get(k) == ('val', begin_steps):
            adv_ptr = True
        if v == ('const', 1) and before.get(k) == ('const', 0):
            adv_cnt = True
    if not (adv_ptr and adv_cnt):
        raise AnalysisBroken('svartifact: %s: %s.__next__ does not advance the pointer and the counter by one'
                             % (rel, icls))
    return [Read('data', begin_steps, 'children: first element pointer', 'children'),
            Read('size', count_steps, 'children: number of elements', 'children')]


# ==================================================================================================
# GDB lookup rules over debug-info records
# ==================================================================================================

class Unresolved(Exception):
    pass


class Loc(object):
    """A sub-object: record (or None for scalars), byte offset in the outermost object, size, kind."""
    __slots__ = ('rec', 'offset', 'size', 'kind', 'type_id', 'desc')

    def __init__(self, rec, offset, size, kind, type_id, desc):
        self.rec, self.offset, self.size, self.kind, self.type_id, self.desc = rec, offset, size, kind, type_id, desc


def _member_loc(di, m, base_off, owner):
    sub = di.strip_to_record(m.type_id) if m.type_id else None
    if sub is not None:
        r = di.record(sub)
        return Loc(r, base_off + m.offset, m.size if m.size is not None else r.size, 'record', m.type_id, r.qualified)
    info = di.scalar_info(m.type_id)
    return Loc(None, base_off + m.offset, m.size if m.size is not None else info[1], info[0], m.type_id, info[2] or '')


def gdb_getitem(loc, name):
    """Value.__getitem__ (field name): own data members first, then base classes recursively;
    found in more than one base sub-object -> ambiguous."""
    if loc.rec is None:
        raise Unresolved("value of type %s has no member '%s' (not a struct)" % (loc.desc or loc.kind, name))
    di = loc.rec.di

    def search(rec, off):
        for m in rec.members:
            if m.kind in ('field', 'static') and m.name == name:
                if m.kind == 'static':
                    return [Loc(None, None, None, 'static', m.type_id, 'static member')]
                return [_member_loc(di, m, off, rec)]
        hits = []
        for m in rec.members:
            if m.kind == 'base':
                sub = di.strip_to_record(m.type_id)
                if sub is not None:
                    hits += search(di.record(sub), off + m.offset)
        return hits

    hits = search(loc.rec, loc.offset)
    uniq = {}
    for h in hits:
        uniq.setdefault((h.offset, h.size), h)
    if not uniq:
        raise Unresolved("There is no member named %s. (looked in %s and its base classes)" % (name, loc.rec.qualified))
    if len(uniq) > 1:
        raise Unresolved("member %s is ambiguous in %s (found in %d base sub-objects)" % (name, loc.rec.qualified, len(uniq)))
    return list(uniq.values())[0]


def gdb_cast_to_field_type(loc, owner_loc, k):
    """loc.cast (owner.type.fields ()[k].type)"""
    if owner_loc.rec is None:
        raise Unresolved('type %s has no fields ()' % (owner_loc.desc or owner_loc.kind))
    fs = owner_loc.rec.members
    if not 0 <= k < len(fs):
        raise Unresolved('%s has only %d fields; fields ()[%d] does not exist' % (owner_loc.rec.qualified, len(fs), k))
    f = fs[k]
    di = owner_loc.rec.di
    tgt = di.strip_to_record(f.type_id) if f.type_id else None
    if loc.rec is None:
        raise Unresolved('cast of a non-class value')
    if tgt is None:
        raise Unresolved('fields ()[%d] of %s is the %s `%s`, not a class: Invalid cast.'
                         % (k, owner_loc.rec.qualified, 'static member' if f.kind == 'static' else 'data member', f.name))
    target = di.record(tgt)
    # up-cast: the target must be a (possibly indirect) base class of loc's type

    def find_base(rec, off):
        if rec.tid == target.tid:
            return [off]
        out = []
        for m in rec.members:
            if m.kind == 'base':
                sub = di.strip_to_record(m.type_id)
                if sub is not None:
                    out += find_base(di.record(sub), off + m.offset)
        return out

    offs = sorted(set(find_base(loc.rec, loc.offset)))
    what = 'base class' if f.kind == 'base' else "data member `%s`'s type" % f.name
    if not offs:
        raise Unresolved('fields ()[%d] of %s is %s %s, which is not a base class of %s: Invalid cast.'
                         % (k, owner_loc.rec.qualified, what, target.qualified, loc.rec.qualified))
    if len(offs) > 1:
        raise Unresolved('base class %s is ambiguous in %s' % (target.qualified, loc.rec.qualified))
    return Loc(target, offs[0], target.size, 'record', tgt, target.qualified)


def gdb_resolve(root_rec, steps):
    """Resolve a printer path from a value of type root_rec.  Returns (Loc, dereferenced: bool):
    with a trailing deref the Loc is the *pointer* being dereferenced."""
    root = Loc(root_rec, 0, root_rec.size, 'record', root_rec.tid, root_rec.qualified)

    def go(st):
        loc = root
        for s in st:
            if s[0] == 'field':
                loc = gdb_getitem(loc, s[1])
                if loc.kind == 'static':
                    raise Unresolved("'%s' is a static member" % s[1])
            elif s[0] == 'cast_ftype':
                owner = go(s[1])
                loc = gdb_cast_to_field_type(loc, owner, s[2])
            elif s[0] == 'deref':
                raise Unresolved('dereference in the middle of a path is not modelled')
        return loc
    deref = bool(steps) and steps[-1] == ('deref',)
    loc = go(steps[:-1] if deref else steps)
    if deref and loc.kind != 'pointer':
        raise Unresolved('%s is not a pointer (it is %s)' % (steps_str(steps[:-1]), loc.desc or loc.kind))
    return loc, deref


def first_match(model, typename):
    """Index and registration of the first sub-printer whose regex matches (gdb.printing.
    RegexpCollectionPrettyPrinter.__call__: `compiled_re.search (typename)`, registration order)."""
    for k, (name, rx, cls) in enumerate(model.registrations):
        if re.compile(rx).search(typename):
            return k, (name, rx, cls)
    return None, None


# ==================================================================================================
# natvis
# ==================================================================================================

class NatvisType(object):
    def __init__(self):
        self.pattern = None
        self.items = []    # dicts: {'role', 'expr', 'where', 'label', 'mode': 'value'|'address'|'cond', 'optional'}


def _display_exprs(text):
    """Split a DisplayString into (literal, expr) pieces; `{{`/`}}` are literal braces."""
    out = []
    lit = ''
    i = 0
    while i < len(text):
        if text.startswith('{{', i):
            lit += '{'
            i += 2
        elif text.startswith('}}', i):
            lit += '}'
            i += 2
        elif text[i] == '{':
            j = text.index('}', i)
            e = text[i + 1:j]
            e = e.split(',')[0] if re.search(r',\s*\w+$', e) else e     # format specifier
            out.append((lit, e.strip()))
            lit = ''
            i = j + 1
        else:
            lit += text[i]
            i += 1
    return out, lit


def parse_natvis(path=None):
    path = path or common.NATVIS
    rel = path[len(common.REPO):].lstrip('/') if path.startswith(common.REPO) else path
    try:
        tree = ET.parse(path)
    except (OSError, ET.ParseError) as e:
        raise AnalysisBroken('svartifact: cannot parse the natvis file %s: %s' % (rel, e))

    def tag(e):
        return e.tag.split('}')[-1]

    types = []
    for t in tree.getroot():
        if tag(t) != 'Type':
            continue
        nt = NatvisType()
        nt.pattern = t.get('Name')
        for e in t:
            tg = tag(e)
            opt = e.get('Optional') == 'true'
            if tg == 'DisplayString':
                cond = e.get('Condition')
                pieces, tail = _display_exprs(e.text or '')
                text = ''.join(l for l, _ in pieces) + tail
                state = None
                if re.search(r'\binlined\b', text):
                    state = 'inlined'
                elif re.search(r'\ballocated\b|\bheap\b', text):
                    state = 'allocated'
                if cond is not None:
                    nt.items.append({'role': ('state', state), 'expr': cond, 'mode': 'cond', 'optional': opt,
                                     'where': 'DisplayString Condition (shown as "%s")' % text.strip()})
                for lit, ex in pieces:
                    words = re.findall(r'[A-Za-z_]+', lit)
                    label = LABELS.get(words[-1].lower()) if words else None
                    nt.items.append({'role': ('label', label), 'expr': ex, 'mode': 'value', 'optional': opt,
                                     'where': 'DisplayString "%s{%s}"' % (lit.strip(), ex)})
            elif tg == 'Expand':
                for it in e:
                    itg = tag(it)
                    iopt = it.get('Optional') == 'true'
                    if itg == 'Item':
                        nm = it.get('Name') or ''
                        words = re.findall(r'[A-Za-z_]+', nm)
                        label = words[-1].lower() if words else None
                        role = ('label', LABELS.get(label, label))
                        if it.get('Condition') is not None:
                            nt.items.append({'role': ('itemcond', role[1]), 'expr': it.get('Condition'), 'mode': 'cond',
                                             'optional': iopt, 'where': 'Item %s Condition' % nm})
                        nt.items.append({'role': role, 'expr': (it.text or '').strip(), 'mode': 'value',
                                         'optional': iopt, 'where': 'Item %s' % nm})
                    elif itg == 'ArrayItems':
                        for a in it:
                            atg = tag(a)
                            if atg == 'Size':
                                nt.items.append({'role': ('label', 'size'), 'expr': (a.text or '').strip(), 'mode': 'value',
                                                 'optional': iopt, 'where': 'ArrayItems/Size'})
                            elif atg == 'ValuePointer':
                                nt.items.append({'role': ('label', 'data'), 'expr': (a.text or '').strip(), 'mode': 'value',
                                                 'optional': iopt, 'where': 'ArrayItems/ValuePointer'})
                            else:
                                raise AnalysisBroken('svartifact: %s: ArrayItems child <%s> not understood' % (rel, atg))
                    else:
                        raise AnalysisBroken('svartifact: %s: Expand child <%s> not understood' % (rel, itg))
            else:
                raise AnalysisBroken('svartifact: %s: Type child <%s> not understood' % (rel, tg))
        types.append(nt)
    if not types:
        raise AnalysisBroken('svartifact: %s defines no <Type>' % rel)
    return types


def natvis_pattern_regex(pattern):
    """natvis `*` matches any sequence of template arguments (it is only valid as a template
    argument); everything else is literal.  Whitespace is not significant."""
    out = ''
    for ch in re.sub(r'\s+', '', pattern):
        out += '.+' if ch == '*' else re.escape(ch)
    return re.compile('^' + out + '$')


def natvis_matches(pattern, typename):
    return natvis_pattern_regex(pattern).match(re.sub(r'\s+', '', typename)) is not None


_CXX_KEYWORDS = {'this', 'true', 'false', 'nullptr', 'sizeof', 'unsigned', 'signed', 'int', 'long', 'short', 'char',
                 'bool', 'void', 'const', 'size_t'}


def natvis_to_cxx(expr, obj='v'):
    """A natvis expression is evaluated in the scope of the object: every unqualified identifier
    that starts a postfix chain names a member of `*this`."""
    def rep(m):
        w = m.group(0)
        if w in _CXX_KEYWORDS:
            return w if w != 'this' else '(&%s)' % obj
        return '%s.%s' % (obj, w)
    return re.sub(r'(?<![\w.>:])(?<!->)[A-Za-z_]\w*(?!\s*::)', rep, expr)


def natvis_member_paths(expr):
    return re.findall(r'(?<![\w.>:])[A-Za-z_]\w*(?:\s*(?:\.|->)\s*[A-Za-z_]\w*)*', expr)
