"""svir core: term domain (linear forms over atoms), struct layouts, compositional function
summaries and the path-sensitive walker with rule hooks (DESIGN section 2, E3 items 3-7).

Nothing here evaluates program inputs: values are symbolic terms, paths are CFG paths, and a
comparison is decided only when it is syntactically decided by the term algebra (constants,
identical terms) or by a condition already on the path.
"""
import re
import sys

from . import ir

sys.setrecursionlimit(10000)

# ------------------------------------------------------------------------------------------
# Linear forms.  A term is a tuple ('L', const, ((atom, coeff), ...)) with atoms sorted by repr.
# Atoms are tuples whose first element is a tag string.
# ------------------------------------------------------------------------------------------


def L(const=0, items=()):
    return ('L', const, tuple(items))


ZERO = L(0)
ONE = L(1)


def atom(a):
    return ('L', 0, ((a, 1),))


def is_lin(t):
    return isinstance(t, tuple) and len(t) == 3 and t[0] == 'L'


def is_const(t):
    return t[2] == ()


def const_of(t):
    return t[1] if t[2] == () else None


_key_cache = {}


def _akey(a):
    k = _key_cache.get(a)
    if k is None:
        k = repr(a)
        _key_cache[a] = k
    return k


def lin_add(a, b, sb=1):
    d = dict(a[2])
    for at, c in b[2]:
        nc = d.get(at, 0) + sb * c
        if nc:
            d[at] = nc
        else:
            d.pop(at, None)
    const = a[1] + sb * b[1]
    # an exact quotient multiplied back by (a multiple of) its divisor is the dividend again:
    # k * ((last - first) / k) == last - first   (pointer differences in element units)
    for at in [x for x in d if x[0] == 'divx']:
        c = d.get(at)
        if c is not None and c % at[2] == 0:
            del d[at]
            m = c // at[2]
            inner = at[1]
            const += m * inner[1]
            for at2, c2 in inner[2]:
                nc = d.get(at2, 0) + m * c2
                if nc:
                    d[at2] = nc
                else:
                    d.pop(at2, None)
    items = sorted(d.items(), key=lambda kv: _akey(kv[0]))
    return ('L', const, tuple(items))


def lin_sub(a, b):
    return lin_add(a, b, -1)


def lin_scale(a, k):
    if k == 0:
        return ZERO
    r = ('L', a[1] * k, tuple((at, c * k) for at, c in a[2]))
    if any(at[0] == 'divx' for at, c in r[2]):
        r = lin_add(r, ZERO)
    return r


def lin_div_exact(a, k):
    if k == 0:
        return None
    if a[1] % k:
        return None
    for at, c in a[2]:
        if c % k:
            return None
    return ('L', a[1] // k, tuple((at, c // k) for at, c in a[2]))


def mk_divx(a, k):
    """Exact quotient a / k in normal form: the part of `a` that is divisible term by term is
    divided, the rest stays under one quotient atom with a canonical sign:
    (X + k*Y) / k == Y + X / k   (exact when the whole is)."""
    r = lin_div_exact(a, k)
    if r is not None:
        return r
    qc, rc = (a[1] // k, 0) if a[1] % k == 0 else (0, a[1])
    q, rest = [], []
    for at, c in a[2]:
        if c % k == 0:
            q.append((at, c // k))
        else:
            rest.append((at, c))
    restlin = ('L', rc, tuple(rest))
    d = ('L', 0, ((('divx', restlin, k), 1),))
    return lin_add(('L', qc, tuple(q)), d)


def canon_divx_sign(t):
    """(-X) / k == -(X / k) for exact quotients: give every quotient atom a leading positive
    coefficient.  Not done by mk_divx itself: rules read the sign of `(last - first) / k` as written
    (a length, non-negative); only equality reasoning wants the canonical sign."""
    def f(a):
        if a[0] == 'divx':
            inner = subst(a[1], f, {})
            if inner[2] and inner[2][0][1] < 0:
                pos = ('L', -inner[1], tuple((at, -c) for at, c in inner[2]))
                return ('L', 0, ((('divx', pos, a[2]), -1),))
            if inner != a[1]:
                return ('L', 0, ((('divx', inner, a[2]), 1),))
        return None
    return subst(t, f, {})


def single_atom(t):
    """If t is exactly one atom with coefficient 1 and no constant, return the atom."""
    if t[1] == 0 and len(t[2]) == 1 and t[2][0][1] == 1:
        return t[2][0][0]
    return None


def atoms_of(t, acc=None):
    """All atoms occurring (recursively) in a term."""
    if acc is None:
        acc = set()
    if is_lin(t):
        for at, _ in t[2]:
            if at not in acc:
                acc.add(at)
                for x in at[1:]:
                    if isinstance(x, tuple):
                        atoms_of(x, acc)
    elif isinstance(t, tuple):
        for x in t:
            if isinstance(x, tuple):
                atoms_of(x, acc)
    return acc


def roots_of(t):
    """Pointer roots a term may be based on: atoms of kind arg/alloca/init/alloc/ret/hv."""
    out = set()
    if is_lin(t):
        for at, c in t[2]:
            out.add(at)
    return out


def subst(t, f, memo):
    """Replace atoms by f(atom) -> Lin or None (= keep, but recurse into its components)."""
    if not isinstance(t, tuple):
        return t
    r = memo.get(t)
    if r is not None:
        return r
    if is_lin(t):
        acc = ('L', t[1], ())
        for at, c in t[2]:
            rep = f(at)
            if rep is None:
                na = tuple(subst(x, f, memo) if isinstance(x, tuple) else x for x in at)
                # re-normalise: with the caller's values a comparison may now be decided, an exact
                # quotient may divide, a negation may cancel
                tag = na[0]
                if na == at:
                    rep = atom(at)
                elif tag == 'cmp':
                    rep = mk_icmp(na[1], na[2], na[3])
                elif tag == 'not':
                    rep = mk_not(na[1])
                elif tag == 'divx':
                    rep = mk_divx(na[1], na[2])
                else:
                    rep = atom(na)
            acc = lin_add(acc, lin_scale(rep, c))
        r = acc
    else:
        r = tuple(subst(x, f, memo) if isinstance(x, tuple) else x for x in t)
    memo[t] = r
    return r


# ---- booleans ------------------------------------------------------------------------------
TRUE = L(1)
FALSE = L(0)

_NEG = {'eq': 'ne', 'ne': 'eq', 'ult': 'uge', 'uge': 'ult', 'ugt': 'ule', 'ule': 'ugt',
        'slt': 'sge', 'sge': 'slt', 'sgt': 'sle', 'sle': 'sgt'}
_SWAP = {'eq': 'eq', 'ne': 'ne', 'ult': 'ugt', 'ugt': 'ult', 'ule': 'uge', 'uge': 'ule',
         'slt': 'sgt', 'sgt': 'slt', 'sle': 'sge', 'sge': 'sle'}


def mk_icmp(pred, a, b):
    """Canonical comparison atom.  Canonical predicates: eq, ult, ule, slt, sle (others are
    expressed by swapping operands and/or wrapping in 'not')."""
    neg = False
    if pred in ('ne',):
        pred, neg = 'eq', True
    elif pred in ('ugt', 'uge', 'sgt', 'sge'):
        pred = _SWAP[pred]
        a, b = b, a
    if pred == 'eq':
        d = lin_sub(a, b)
        c = const_of(d)
        if c is not None:
            r = TRUE if c == 0 else FALSE
        else:
            # canonical sign: first atom coefficient positive
            if d[2][0][1] < 0:
                d = lin_scale(d, -1)
            r = atom(('cmp', 'eq', d, ZERO))
    else:
        ca, cb = const_of(a), const_of(b)
        if ca is not None and cb is not None and ca >= 0 and cb >= 0:
            v = {'ult': ca < cb, 'ule': ca <= cb, 'slt': ca < cb, 'sle': ca <= cb}[pred]
            r = TRUE if v else FALSE
        elif a == b:
            r = TRUE if pred in ('ule', 'sle') else FALSE
        elif pred in ('ult',) and cb == 0:
            r = FALSE
        elif pred in ('ule',) and ca == 0:
            r = TRUE
        else:
            r = atom(('cmp', pred, a, b))
    return mk_not(r) if neg else r


def mk_not(t):
    c = const_of(t)
    if c is not None:
        return FALSE if c else TRUE
    a = single_atom(t)
    if a is not None and a[0] == 'not':
        return a[1]
    return atom(('not', t))


def strip_not(t):
    """-> (positive term, polarity)"""
    pol = True
    while True:
        a = single_atom(t)
        if a is not None and a[0] == 'not':
            t = a[1]
            pol = not pol
        else:
            return t, pol


# ------------------------------------------------------------------------------------------
# Struct layouts (x86-64 data layout)
# ------------------------------------------------------------------------------------------
class Layout(object):
    def __init__(self, path):
        self.defs = {}
        self.cache = {}
        with open(path) as f:
            for line in f:
                if line.startswith('%'):
                    m = re.match(r'^(%"[^"]*"|%[-a-zA-Z$._0-9]+) = type (.*)$', line.rstrip('\n'))
                    if m:
                        self.defs[m.group(1)] = m.group(2)
                elif line.startswith('define') or line.startswith('@'):
                    if line.startswith('define'):
                        break

    def size_align(self, ty):
        ty = ty.strip()
        r = self.cache.get(ty)
        if r:
            return r
        r = self._sa(ty)
        self.cache[ty] = r
        return r

    def _sa(self, ty):
        if ty.endswith('*'):
            return (8, 8)
        if ty in ('ptr',):
            return (8, 8)
        m = re.match(r'^i(\d+)$', ty)
        if m:
            b = int(m.group(1))
            s = max(1, (b + 7) // 8)
            p = 1
            while p < s:
                p *= 2
            return (p, min(p, 8) if b <= 64 else 16)
        if ty == 'float':
            return (4, 4)
        if ty == 'double':
            return (8, 8)
        if ty == 'x86_fp80':
            return (16, 16)
        if ty.startswith('['):
            m = re.match(r'^\[(\d+) x (.*)\]$', ty)
            n = int(m.group(1))
            s, a = self.size_align(m.group(2))
            return (n * s, a)
        if ty.startswith('<{'):
            off = 0
            for f in ir.split_top(ty[2:-2]):
                off += self.size_align(f)[0]
            return (off, 1)
        if ty.startswith('{'):
            offs, size, al = self._struct(ir.split_top(ty[1:-1]))
            return (size, al)
        if ty.startswith('<'):
            m = re.match(r'^<(\d+) x (.*)>$', ty)
            s, a = self.size_align(m.group(2))
            return (int(m.group(1)) * s, int(m.group(1)) * s)
        if ty.startswith('%'):
            d = self.defs.get(ty)
            if d is None or d == 'opaque':
                return (0, 1)
            return self.size_align(d)
        if '(' in ty:
            return (8, 8)
        return (8, 8)

    def _struct(self, fields):
        off = 0
        al = 1
        offs = []
        for f in fields:
            s, a = self.size_align(f)
            off = (off + a - 1) // a * a
            offs.append(off)
            off += s
            al = max(al, a)
        size = (off + al - 1) // al * al
        return offs, size, al

    def fields(self, ty):
        """-> list of (offset, field type) for a struct type (named or literal)."""
        ty = ty.strip()
        if ty.startswith('%'):
            d = self.defs.get(ty)
            if d is None:
                return None
            ty = d
        if ty.startswith('<{'):
            out = []
            off = 0
            for f in ir.split_top(ty[2:-2]):
                out.append((off, f))
                off += self.size_align(f)[0]
            return out
        if ty.startswith('{'):
            fs = ir.split_top(ty[1:-1])
            offs, _, _ = self._struct(fs)
            return list(zip(offs, fs))
        return None

    def gep(self, src_ty, idx_terms):
        """Byte offset Lin for a GEP with source element type src_ty and index terms; also
        returns the list of (struct type, field index) steps taken."""
        off = ZERO
        steps = []
        ty = src_ty.strip()
        first = True
        for ix in idx_terms:
            if first:
                s, _ = self.size_align(ty)
                off = lin_add(off, lin_scale(ix, s))
                first = False
                continue
            if ty.startswith('['):
                m = re.match(r'^\[(\d+) x (.*)\]$', ty)
                ety = m.group(2)
                s, _ = self.size_align(ety)
                off = lin_add(off, lin_scale(ix, s))
                ty = ety
                continue
            fl = self.fields(ty)
            c = const_of(ix)
            if fl is None or c is None or c >= len(fl):
                return None, steps
            steps.append((ty, c))
            off = lin_add(off, L(fl[c][0]))
            ty = fl[c][1].strip()
        return off, steps


# ------------------------------------------------------------------------------------------
# Events
# ------------------------------------------------------------------------------------------
class Ev(object):
    __slots__ = ('kind', 'site', 'callee', 'args', 'ret', 'addr', 'val', 'field', 'cond', 'taken',
                 'stack', 'ins', 'fn', 'expanded', 'may_throw', 'argtys', 'old')

    def __init__(self, kind, **kw):
        self.kind = kind
        self.site = None
        self.callee = None
        self.args = None
        self.ret = None
        self.addr = None
        self.val = None
        self.field = None
        self.cond = None
        self.taken = None
        self.stack = ()
        self.ins = None
        self.fn = None
        self.expanded = False
        self.may_throw = False
        self.argtys = None
        self.old = None
        for k, v in kw.items():
            setattr(self, k, v)

    def where(self):
        """Innermost (function, line) and the call stack as text."""
        return self.stack


class SPath(object):
    """One path of a function summary."""
    __slots__ = ('conds', 'events', 'stores', 'ret', 'exit')

    def __init__(self, conds, events, stores, ret, exit_kind):
        self.conds = conds      # tuple of (term, bool)
        self.events = events    # tuple of Ev
        self.stores = stores    # tuple of (addr, val) in order
        self.ret = ret
        self.exit = exit_kind   # 'ret' | 'unwind' | 'noreturn' | 'terminate'


OPAQUE = 'opaque'


class State(object):
    __slots__ = ('env', 'mem', 'conds', 'rs', 'events', 'stores', 'visits', 'trace', 'exc', 'hv', 'aux')

    def __init__(self):
        self.env = {}
        self.mem = {}
        self.conds = ()
        self.rs = ()
        self.events = ()
        self.stores = ()
        self.visits = {}
        self.trace = ()
        self.exc = None
        self.hv = {}
        self.aux = {}

    def fork(self):
        s = State()
        s.env = dict(self.env)
        s.mem = dict(self.mem)
        s.conds = self.conds
        s.rs = self.rs
        s.events = self.events
        s.stores = self.stores
        s.visits = dict(self.visits)
        s.trace = self.trace
        s.exc = self.exc
        s.hv = dict(self.hv)
        s.aux = dict(self.aux)
        return s


class RestartWalk(Exception):
    """An induction-variable assumption made at a loop header turned out not to be inductive;
    it has been recorded in Engine.noninductive and the walk must be repeated."""


class Limits(object):
    max_summary_paths = 48
    max_summary_instrs = 400
    max_paths = 60000
    max_expand_depth = 8
    max_summary_events = 300


class Engine(object):
    """Holds a module, the layouts, summaries, and walks functions."""

    def __init__(self, mod, oracle):
        self.mod = mod
        self.layout = Layout(mod.path)
        self.oracle = oracle          # svlib.cg.Oracle: classification of callees, may-throw
        self.summaries = {}
        self.summary_tags = {}
        self.in_progress = set()
        self.field_tag = {}           # address Lin -> ('fld', k)
        self.loops = {}
        self.stats = {'paths': 0, 'cut': 0, 'opaque_big': 0}
        self.fdb_types = None
        # opt-in extensions used by the operation-law rules (ir_laws); off for every other rule
        self.precall_hook = None      # called with (st, callee, args, site) before an opaque call's havoc
        self.coind = False            # co-induction variables at loop headers (see _coind_*)
        self.noninductive = set()     # (function, header, key) assumptions that failed their step check

    # ---- helpers -------------------------------------------------------------------------
    def data_base_types(self):
        if self.fdb_types is None:
            self.fdb_types = set(t for t in self.layout.defs
                                 if re.match(r'^%"class\.gch::detail::small_vector_data_base(\.\d+)?"$', t))
        return self.fdb_types

    def loop_info(self, f):
        """Back edges (src,dst) and, per loop header, the set of blocks in the loop."""
        r = self.loops.get(f.name)
        if r is not None:
            return r
        color = {}
        back = set()
        stack = [(f.entry, iter(f.blocks[f.entry].succs))] if f.entry else []
        if f.entry:
            color[f.entry] = 1
        while stack:
            lb, it = stack[-1]
            adv = False
            for (s, k) in it:
                c = color.get(s, 0)
                if c == 0:
                    color[s] = 1
                    stack.append((s, iter(f.blocks[s].succs)))
                    adv = True
                    break
                elif c == 1:
                    back.add((lb, s))
            if not adv:
                color[lb] = 2
                stack.pop()
        body = {}
        for (src, hdr) in back:
            blk = body.setdefault(hdr, set([hdr]))
            work = [src]
            while work:
                x = work.pop()
                if x in blk:
                    continue
                blk.add(x)
                work.extend(f.blocks[x].preds)
        r = (back, body)
        self.loops[f.name] = r
        return r

    # ---- value evaluation ----------------------------------------------------------------
    def val(self, st, tok, f):
        """Operand token -> term."""
        if tok is None:
            return ZERO
        c = tok[0]
        if c == '%':
            v = st.env.get(tok)
            if v is None:
                v = atom(('undefval', f.name, tok))
            return v
        if c == '@':
            return atom(('glob', tok))
        if tok in ('null', 'false', 'zeroinitializer'):
            return ZERO
        if tok == 'true':
            return ONE
        if tok in ('undef', 'poison'):
            return atom(('undef',))
        if c.isdigit() or c == '-':
            try:
                return L(int(tok))
            except ValueError:
                return atom(('k', tok))
        if tok.startswith('bitcast (') or tok.startswith('getelementptr') or tok.startswith('ptrtoint'):
            m = re.search(r'(@"[^"]*"|@[-a-zA-Z$._0-9]+)', tok)
            return atom(('glob', m.group(1) if m else tok))
        return atom(('k', tok))

    # ---- summaries -----------------------------------------------------------------------
    def summary(self, name, depth=0):
        """Summary of a defined function: list of SPath, or OPAQUE."""
        s = self.summaries.get(name)
        if s is not None:
            return s
        f = self.mod.funcs.get(name)
        if f is None or name in self.in_progress:
            return OPAQUE
        if self.oracle.force_opaque(f):
            self.summaries[name] = OPAQUE
            return OPAQUE
        back, _ = self.loop_info(f)
        ninstr = sum(len(b.instrs) for b in f.blocks.values())
        if back or ninstr > Limits.max_summary_instrs:
            self.summaries[name] = OPAQUE
            return OPAQUE
        self.in_progress.add(name)
        try:
            paths = []
            ok = self.walk(f, rules=(), collect=paths, path_limit=Limits.max_summary_paths,
                           depth=depth + 1)
            if not ok:
                r = OPAQUE
            else:
                r = self._compact(f, paths)
                if r is not OPAQUE and any(sum(1 for e in sp.events if e.kind in ('call', 'throw', 'store')) > Limits.max_summary_events for sp in r):
                    r = OPAQUE
        finally:
            self.in_progress.discard(name)
        self.summaries[name] = r
        return r

    def _compact(self, f, paths):
        """Drop stores into the callee's own stack slots (dead after return) and merge paths that
        are indistinguishable to a caller (same exit, return value, events, stores)."""
        def local(addr):
            for at, c in addr[2]:
                if at[0] == 'alloca' and at[1] == f.name and len(at) == 3:
                    return True
            return False
        merged = {}
        order = []
        def keep(e):
            k = e.kind
            if k == 'store':
                return not local(e.addr)
            if k == 'branch':
                # only tests of opaque results matter to callers' rules (iterator comparisons)
                return any(a[0] == 'ret' for a in atoms_of(e.cond))
            if k in ('enter', 'leave'):
                # expansions of internal helpers are not interesting by name; standard-library
                # wrappers and public members are (operator algebra, erase-remove idiom)
                p = self.oracle.pretty.get(e.callee, '') if e.callee else ''
                return ' std::' in ' ' + p.split('(')[0] or 'gch::small_vector<' in p.split('(')[0]
            return True
        for sp in paths:
            evs = tuple(e for e in sp.events if keep(e))
            stores = tuple((a, v) for (a, v) in sp.stores if not local(a))
            sig = (sp.exit, sp.ret, stores,
                   tuple((e.kind, e.callee, tuple(e.args) if e.args is not None else None, e.addr,
                          e.val, e.field, e.cond, e.taken, id(e.ins)) for e in evs))
            # conditions about the callee's own stack objects are kept: events that survive (the
            # release of a local container's buffer in its destructor) are guarded by them
            conds = tuple(sp.conds)
            # paths are merged only when they are indistinguishable including their conditions
            # (conditions are what guard rules read)
            sig = sig + (frozenset(conds),)
            if sig in merged:
                old = merged[sig]
                cs = set(old.conds) & set(conds)
                old.conds = tuple(x for x in old.conds if x in cs)
            else:
                np_ = SPath(conds, evs, stores, sp.ret, sp.exit)
                merged[sig] = np_
                order.append(np_)
        return order

    # ---- the walker ------------------------------------------------------------------------
    def walk(self, f, rules, collect=None, path_limit=None, depth=0, on_exit=None, seed=None):
        """Explore all paths of f.  rules: list of Rule objects (may be empty).
        collect: list receiving SPaths (summary mode).  Returns False if path_limit exceeded."""
        if path_limit is None:
            path_limit = Limits.max_paths
        saved_tags = self.field_tag
        self.field_tag = {}
        try:
            return self._walk(f, rules, collect, path_limit, depth, on_exit, seed)
        finally:
            if collect is not None and not rules:
                self.summary_tags[f.name] = self.field_tag
            self.field_tag = saved_tags

    def _walk(self, f, rules, collect, path_limit, depth, on_exit, seed=None):
        st = State()
        for i, (ty, nm, at) in enumerate(f.params):
            st.env[nm] = atom(('arg', i))
            if seed and i in seed:
                st.env[nm] = seed[i]      # an assumption about an argument (path slicing)
        st.rs = tuple(r.init(f, self) for r in rules)
        back, loopbody = self.loop_info(f)
        work = [(f.entry, None, st)]
        npaths = 0
        seen = set()
        while work:
            lb, prev, st = work.pop()
            # memoise (block, incoming edge, state)
            if rules and collect is None:
                key = (lb, prev, frozenset(st.mem.items()), frozenset(st.env.items()),
                       st.rs, frozenset(st.conds), tuple(sorted(st.visits.items())))
                try:
                    hk = hash(key)
                except TypeError:
                    hk = None
                if hk is not None:
                    if (lb, hk) in seen:
                        continue
                    seen.add((lb, hk))
            blk = f.blocks[lb]
            # loop handling: a header may be entered through a back edge once; on that second
            # entry everything the loop may modify is havocked; a further back edge cuts the path
            if self.coind and lb in loopbody and not (prev is not None and (prev, lb) in back):
                st.aux.pop(('assume', lb), None)
                st.aux.pop(('phipre', lb), None)
                st.aux.pop(('snap', lb), None)
                # innermost loops only: a nested loop is iterated at most once by this walker, so the
                # step check of an enclosing loop would not cover its effect
                if not any(h != lb and h in loopbody[lb] for h in loopbody):
                    st.aux[('snap', lb)] = (dict(st.mem), dict(st.hv))
                self.emit(st, Ev('loophead', fn=f, site=(f.name, 'loop', lb)), rules, f)
            if prev is not None and (prev, lb) in back:
                n = st.visits.get(lb, 0)
                if n >= 1:
                    self.stats['cut'] += 1
                    if self.coind:
                        for i, r in enumerate(rules):
                            cut = getattr(r, 'on_cut', None)
                            if cut is not None:
                                cut(st.rs[i], st, f, lb)
                        self._coind_check(f, st, lb, prev)
                    continue
                st.visits[lb] = n + 1
                if self.coind and ('snap', lb) in st.aux:
                    self._coind_phis(f, st, lb, prev)
                hroots = self._havoc_loop(f, st, lb, loopbody[lb])
                self.emit(st, Ev('havoc', args=hroots, fn=f, site=(f.name, 'loop', lb)), rules, f)
                havoc_phis = True
            else:
                havoc_phis = False
            res = self._exec_block(f, blk, prev, st, rules, depth, havoc_phis)
            for item in res:
                kind = item[0]
                if kind == 'goto':
                    work.append((item[1], lb, item[2]))
                else:
                    # exit: ('exit', exit_kind, state, retval)
                    npaths += 1
                    self.stats['paths'] += 1
                    if npaths > path_limit:
                        if rules:
                            # a rule walk that is cut short would pass vacuously for the rest
                            from . import common
                            raise common.AnalysisBroken('path limit %d exceeded while walking %s' % (path_limit, f.name))
                        return False
                    _, ek, s2, rv = item
                    for i, r in enumerate(rules):
                        r.on_exit(s2.rs[i], ek, s2, f, self, rv)
                    if collect is not None:
                        collect.append(SPath(s2.conds, s2.events, s2.stores, rv, ek))
                    if on_exit is not None:
                        on_exit(ek, s2, rv)
        return True

    def _havoc_loop(self, f, st, hdr, body):
        """Forget every memory cell that the loop body may write."""
        roots = set()
        cells = set()
        clear_all = False
        for lb in body:
            for ins in f.blocks[lb].instrs:
                if ins.op == 'store':
                    v = st.env.get(ins.b) if ins.b and ins.b[0] == '%' else None
                    if v is None:
                        clear_all = True
                    else:
                        cells.add(v)
                elif ins.op in ('call', 'invoke'):
                    cn = ins.callee[1:].strip('"') if ins.callee and ins.callee[0] == '@' else None
                    if cn is not None and (cn.startswith('llvm.dbg') or cn.startswith('llvm.lifetime')):
                        continue
                    wr = True if cn is None else (self.oracle.may_write_fields(cn)
                                                  or cn.startswith('llvm.mem'))
                    argw = self._summary_arg_writes(cn) if (self.coind and cn is not None) else None
                    for ai, a in enumerate(ins.args or ()):
                        if argw is not None and ai not in argw:
                            continue       # an expanded callee that does not store through this argument
                        if a and a[0] == '%':
                            v = st.env.get(a)
                            if v is None:
                                # defined inside the loop: cannot name what it points to
                                if wr:
                                    clear_all = True
                                continue
                            for at, c in v[2]:
                                if wr or at[0] == 'alloca':
                                    roots.add(at)
        if clear_all:
            allr = set()
            for a in list(st.mem.keys()):
                for at, c in a[2]:
                    st.hv[at] = ('loop', f.name, hdr)
                    allr.add(at)
            st.mem.clear()
            return allr | roots
        keepm = {}
        if self.coind and ('snap', hdr) in st.aux:
            smem, shv = st.aux[('snap', hdr)]
            s0 = State()
            s0.mem = dict(smem)
            s0.hv = dict(shv)
            kappa = atom(('iter', f.name, hdr))
            assume = dict(st.aux.get(('assume', hdr), {}))
            for addr in list(st.mem.keys()):
                if addr in cells or any(at in roots for at, c in addr[2]):
                    key = ('mem', addr)
                    if (f.name, hdr, key) in self.noninductive:
                        continue
                    v0 = self.load(s0, addr)
                    c = const_of(lin_sub(st.mem[addr], v0))
                    if c:
                        keepm[addr] = lin_add(v0, lin_scale(kappa, c))
                        assume[key] = (v0, c)
            st.aux[('assume', hdr)] = assume
        for r in roots:
            st.hv[r] = ('loop', f.name, hdr)
        for addr in list(st.mem.keys()):
            if addr in cells or any(at in roots for at, c in addr[2]):
                del st.mem[addr]
                for at, c in addr[2]:
                    st.hv.setdefault(at, ('loop', f.name, hdr))
        st.mem.update(keepm)
        return roots

    def _summary_arg_writes(self, name):
        """For a callee with a summary: the set of argument positions it may store through (directly
        or by passing them on to a callee it does not expand); None when the callee is opaque."""
        r = self._argw.get(name) if hasattr(self, '_argw') else None
        if not hasattr(self, '_argw'):
            self._argw = {}
        if name in self._argw:
            return self._argw[name]
        summ = self.summary(name) if name in self.mod.funcs else OPAQUE
        if summ is OPAQUE:
            self._argw[name] = None
            return None
        w = set()
        for sp in summ:
            for (addr, v) in sp.stores:
                for at, c in addr[2]:
                    if at[0] == 'arg':
                        w.add(at[1])
            for e in sp.events:
                if e.kind in ('call', 'throw') and not e.expanded and e.args:
                    for t in e.args:
                        if is_lin(t):
                            for at, c in t[2]:
                                if at[0] == 'arg':
                                    w.add(at[1])
        self._argw[name] = w
        return w

    # ---- co-induction variables (opt-in) ---------------------------------------------------------
    # At the first re-entry of a loop header every header phi and every memory cell the body writes
    # whose value after the first iteration differs from its value on entry by a non-zero constant c
    # is ASSUMED to be  entry + c*k  for one shared fresh iteration count k (instead of being
    # forgotten).  The generic iteration is then executed from that state, and where its back edge
    # ends the path the inductive step is CHECKED (value == assumed + c).  A failed check records the
    # variable in self.noninductive and restarts the walk, so an assumption is only ever used when it
    # holds on every path of the body: plain induction over the iteration count, no solver.
    def _coind_phis(self, f, st, hdr, prev):
        kappa = atom(('iter', f.name, hdr))
        assume = dict(st.aux.get(('assume', hdr), {}))
        pre = {}
        for ins in f.blocks[hdr].instrs:
            if ins.op != 'phi':
                break
            key = ('phi', ins.res)
            if (f.name, hdr, key) in self.noninductive:
                continue
            v0 = st.env.get(ins.res)
            vb = None
            for (tok, lab) in ins.incoming:
                if lab == prev:
                    vb = self.val(st, tok, f)
                    break
            if v0 is None or vb is None:
                continue
            c = const_of(lin_sub(vb, v0))
            if c:
                assume[key] = (v0, c)
                pre[ins.res] = lin_add(v0, lin_scale(kappa, c))
        st.aux[('assume', hdr)] = assume
        st.aux[('phipre', hdr)] = pre

    def _coind_check(self, f, st, hdr, prev):
        assume = st.aux.get(('assume', hdr))
        if not assume:
            return
        kappa = atom(('iter', f.name, hdr))
        bad = []
        for key, (v0, c) in assume.items():
            if key[0] == 'mem':
                now = self.load(st, key[1])
            else:
                now = None
                for ins in f.blocks[hdr].instrs:
                    if ins.op == 'phi' and ins.res == key[1]:
                        for (tok, lab) in ins.incoming:
                            if lab == prev:
                                now = self.val(st, tok, f)
            want = lin_add(lin_add(v0, lin_scale(kappa, c)), L(c))
            if now != want:
                bad.append(key)
        if bad:
            for key in bad:
                self.noninductive.add((f.name, hdr, key))
            raise RestartWalk(f.name)

    def emit(self, st, ev, rules, f):
        if rules:
            st.rs = tuple(r.on_event(st.rs[i], ev, st, f, self) for i, r in enumerate(rules))
        else:
            st.events = st.events + (ev,)

    def _exec_block(self, f, blk, prev, st, rules, depth, havoc_phis):
        """Execute one block on state st (mutated); returns list of continuations."""
        out = []
        instrs = blk.instrs
        n = len(instrs)
        i = 0
        # phis are evaluated simultaneously
        phivals = {}
        while i < n and instrs[i].op == 'phi':
            ins = instrs[i]
            if havoc_phis:
                pre = st.aux.get(('phipre', blk.label)) if self.coind else None
                if pre and ins.res in pre:
                    phivals[ins.res] = pre[ins.res]
                else:
                    phivals[ins.res] = atom(('loopvar', f.name, blk.label, ins.res))
            else:
                v = None
                for (tok, lab) in ins.incoming:
                    if lab == prev or (prev == '%entry' and lab == f.entry) or \
                       (lab == prev):
                        v = self.val(st, tok, f)
                        break
                if v is None:
                    # entry block is referred to by its numeric label in phis
                    for (tok, lab) in ins.incoming:
                        if prev == f.entry and lab not in f.blocks:
                            v = self.val(st, tok, f)
                            break
                if v is None:
                    v = atom(('phi?', f.name, ins.res))
                phivals[ins.res] = v
            i += 1
        st.env.update(phivals)
        while i < n:
            ins = instrs[i]
            i += 1
            op = ins.op
            if op == 'call' or op == 'invoke':
                conts = self._exec_call(f, blk, ins, st, rules, depth)
                # conts: list of ('normal', state) / ('unwind', state) / ('noreturn', state)
                if op == 'call':
                    nxt = []
                    for kind, s2 in conts:
                        if kind == 'normal':
                            nxt.append(s2)
                        elif kind == 'unwind':
                            out.append(('exit', 'unwind', s2, None))
                        elif kind == 'terminate':
                            out.append(('exit', 'terminate', s2, None))
                        else:
                            out.append(('exit', 'noreturn', s2, None))
                    if not nxt:
                        return out
                    if len(nxt) == 1:
                        st = nxt[0]
                        continue
                    # several normal continuations: finish the block for each
                    for s2 in nxt:
                        out.extend(self._finish_block(f, blk, instrs, i, s2, rules, depth))
                    return out
                else:
                    for kind, s2 in conts:
                        if kind == 'normal':
                            out.append(('goto', ins.normal, s2))
                        elif kind == 'unwind':
                            out.append(('goto', ins.unwind, s2))
                        elif kind == 'terminate':
                            out.append(('exit', 'terminate', s2, None))
                        else:
                            out.append(('exit', 'noreturn', s2, None))
                    return out
            r = self._exec_simple(f, blk, ins, st, rules)
            if r is not None:
                out.extend(r)
                return out
        return out

    def _finish_block(self, f, blk, instrs, i, st, rules, depth):
        """Continue executing instrs[i:] of blk on st (used after a forking call)."""
        out = []
        n = len(instrs)
        while i < n:
            ins = instrs[i]
            i += 1
            if ins.op in ('call', 'invoke'):
                conts = self._exec_call(f, blk, ins, st, rules, depth)
                if ins.op == 'call':
                    nxt = []
                    for kind, s2 in conts:
                        if kind == 'normal':
                            nxt.append(s2)
                        elif kind == 'unwind':
                            out.append(('exit', 'unwind', s2, None))
                        elif kind == 'terminate':
                            out.append(('exit', 'terminate', s2, None))
                        else:
                            out.append(('exit', 'noreturn', s2, None))
                    if not nxt:
                        return out
                    if len(nxt) == 1:
                        st = nxt[0]
                        continue
                    for s2 in nxt:
                        out.extend(self._finish_block(f, blk, instrs, i, s2, rules, depth))
                    return out
                else:
                    for kind, s2 in conts:
                        if kind == 'normal':
                            out.append(('goto', ins.normal, s2))
                        elif kind == 'unwind':
                            out.append(('goto', ins.unwind, s2))
                        elif kind == 'terminate':
                            out.append(('exit', 'terminate', s2, None))
                        else:
                            out.append(('exit', 'noreturn', s2, None))
                    return out
            r = self._exec_simple(f, blk, ins, st, rules)
            if r is not None:
                out.extend(r)
                return out
        return out

    def cond_value(self, st, c):
        """Decide a boolean term from the path: True/False/None."""
        k = const_of(c)
        if k is not None:
            return bool(k)
        pos, pol = strip_not(c)
        for (t, v) in st.conds:
            if t == pos:
                return v if pol else (not v)
        # the same order fact under another spelling:  x < y  <=>  !(y <= x);  x < y  =>  x <= y
        pa = single_atom(pos)
        if pa is not None and pa[0] == 'cmp' and pa[1] in ('ult', 'ule', 'slt', 'sle'):
            strict = pa[1] in ('ult', 'slt')
            fam = 'u' if pa[1][0] == 'u' else 's'
            conv = atom(('cmp', fam + ('le' if strict else 'lt'), pa[3], pa[2]))
            weak = atom(('cmp', fam + 'le', pa[2], pa[3])) if strict else None
            strong = atom(('cmp', fam + 'lt', pa[2], pa[3])) if not strict else None
            for (t, v) in st.conds:
                r = None
                if t == conv:
                    r = not v
                elif weak is not None and t == weak and v is False:
                    r = False          # !(x <= y)  =>  !(x < y)
                elif strong is not None and t == strong and v is True:
                    r = True           # x < y  =>  x <= y
                if r is not None:
                    return r if pol else (not r)
        # implied by an equality with a constant learned on the path (path-constant propagation:
        # `if (new_size == 0) erase_all ();` followed by comparisons against new_size)
        consts = {}
        for (t, v) in st.conds:
            if not v:
                continue
            a = single_atom(t)
            if a is not None and a[0] == 'cmp' and a[1] == 'eq' and len(a[2][2]) == 1:
                at, co = a[2][2][0]
                if co in (1, -1) and (a[2][1] % co) == 0:
                    consts[at] = L(-a[2][1] // co)
        if consts:
            a = single_atom(pos)
            if a is not None and a[0] == 'cmp':
                memo = {}
                x = subst(a[2], lambda q: consts.get(q), memo)
                y = subst(a[3], lambda q: consts.get(q), memo)
                if x != a[2] or y != a[3]:
                    r = mk_icmp(a[1], x, y)
                    k = const_of(r)
                    if k is None and a[1] == 'slt' and const_of(y) == 0 and x[1] >= 0 and x[2] \
                            and all(co > 0 and at[0] == 'init' for at, co in x[2]):
                        k = 0     # a sum of stored sizes is not negative
                    if k is not None:
                        return bool(k) if pol else (not bool(k))
        return None

    def assume(self, st, c, v):
        pos, pol = strip_not(c)
        val = v if pol else (not v)
        if const_of(pos) is not None:
            return
        st.conds = st.conds + ((pos, val),)
        # path constants: x == K learned true  => substitute in later comparisons
        a = single_atom(pos)
        if a is not None and a[0] == 'cmp' and a[1] == 'eq' and val:
            pass

    def _exec_simple(self, f, blk, ins, st, rules):
        op = ins.op
        env = st.env
        if op == 'bitcast' or op == 'zext' or op == 'sext' or op == 'ptrtoint' or op == 'inttoptr' \
                or op == 'addrspacecast' or op == 'freeze':
            env[ins.res] = self.val(st, ins.a, f)
        elif op == 'trunc':
            v = self.val(st, ins.a, f)
            env[ins.res] = v
            if rules:
                self.emit(st, Ev('trunc', ins=ins, fn=f, val=v, site=(f.name, ins.line)), rules, f)
        elif op == 'getelementptr':
            base = self.val(st, ins.a, f)
            idx = [self.val(st, t, f) for t in ins.idx]
            off, steps = self.layout.gep(ins.ty, idx)
            if off is None:
                env[ins.res] = atom(('gep?', f.name, ins.res))
            else:
                addr = lin_add(base, off)
                env[ins.res] = addr
                if steps and steps[-1][0] in self.data_base_types():
                    self.field_tag[addr] = steps[-1][1]
        elif op == 'load':
            addr = self.val(st, ins.a, f)
            env[ins.res] = self.load(st, addr)
        elif op == 'store':
            addr = self.val(st, ins.b, f)
            v = self.val(st, ins.a, f)
            tag = self.field_tag.get(addr)
            oldv = self.load(st, addr) if (rules and tag is not None) else None
            st.mem[addr] = v
            st.stores = st.stores + ((addr, v),)
            ev = Ev('store', addr=addr, val=v, field=tag, ins=ins, fn=f, site=(f.name, ins.line), old=oldv)
            self.emit(st, ev, rules, f)
        elif op == 'icmp':
            a = self.val(st, ins.a, f)
            b = self.val(st, ins.b, f)
            env[ins.res] = mk_icmp(ins.pred, a, b)
        elif op == 'add':
            env[ins.res] = lin_add(self.val(st, ins.a, f), self.val(st, ins.b, f))
        elif op == 'sub':
            env[ins.res] = lin_sub(self.val(st, ins.a, f), self.val(st, ins.b, f))
        elif op == 'mul':
            a = self.val(st, ins.a, f)
            b = self.val(st, ins.b, f)
            ca, cb = const_of(a), const_of(b)
            if ca is not None:
                env[ins.res] = lin_scale(b, ca)
            elif cb is not None:
                env[ins.res] = lin_scale(a, cb)
            else:
                env[ins.res] = atom(('mul', a, b))
        elif op == 'shl':
            a = self.val(st, ins.a, f)
            cb = const_of(self.val(st, ins.b, f))
            if cb is not None and 0 <= cb < 63:
                env[ins.res] = lin_scale(a, 1 << cb)
            else:
                env[ins.res] = atom(('shl', a, self.val(st, ins.b, f)))
        elif op in ('sdiv', 'udiv', 'ashr', 'lshr'):
            a = self.val(st, ins.a, f)
            b = self.val(st, ins.b, f)
            cb = const_of(b)
            r = None
            if cb is not None and cb > 0:
                k = cb if op in ('sdiv', 'udiv') else (1 << cb)
                ca = const_of(a)
                if ca is not None and ca >= 0:
                    r = L(ca // k)
                elif 'exact' in (ins.flags or '') or op in ('sdiv',):
                    r = lin_div_exact(a, k)
                    if r is None and 'exact' in (ins.flags or ''):
                        r = mk_divx(a, k)
            env[ins.res] = r if r is not None else atom((op, a, b))
        elif op == 'xor':
            a = self.val(st, ins.a, f)
            b = self.val(st, ins.b, f)
            if ins.ty == 'i1' and const_of(b) == 1:
                env[ins.res] = mk_not(a)
            elif ins.ty == 'i1' and const_of(a) == 1:
                env[ins.res] = mk_not(b)
            else:
                env[ins.res] = atom(('xor', a, b))
        elif op in ('and', 'or', 'urem', 'srem', 'fadd', 'fsub', 'fmul', 'fdiv', 'frem', 'fcmp',
                    'fneg', 'uitofp', 'sitofp', 'fptoui', 'fptosi', 'fptrunc', 'fpext'):
            a = self.val(st, ins.a, f)
            b = self.val(st, ins.b, f) if ins.b is not None else ZERO
            if op in ('and', 'or') and ins.ty == 'i1':
                ca, cb = const_of(a), const_of(b)
                if op == 'and':
                    if ca == 0 or cb == 0:
                        env[ins.res] = FALSE
                    elif ca == 1:
                        env[ins.res] = b
                    elif cb == 1:
                        env[ins.res] = a
                    else:
                        env[ins.res] = atom(('and', a, b))
                else:
                    if ca == 1 or cb == 1:
                        env[ins.res] = TRUE
                    elif ca == 0:
                        env[ins.res] = b
                    elif cb == 0:
                        env[ins.res] = a
                    else:
                        env[ins.res] = atom(('or', a, b))
            else:
                env[ins.res] = atom((op, a, b))
        elif op == 'select':
            c = self.val(st, ins.cond, f)
            a = self.val(st, ins.a, f)
            b = self.val(st, ins.b, f)
            cv = self.cond_value(st, c)
            if cv is True:
                env[ins.res] = a
            elif cv is False:
                env[ins.res] = b
            elif a == b:
                env[ins.res] = a
            else:
                # expand into two paths (DESIGN section 2 item 7)
                s2 = st.fork()
                self.assume(st, c, True)
                env[ins.res] = a
                self.assume(s2, c, False)
                s2.env[ins.res] = b
                idx = blk.instrs.index(ins) + 1
                return (self._finish_block(f, blk, blk.instrs, idx, st, rules, 0)
                        + self._finish_block(f, blk, blk.instrs, idx, s2, rules, 0))
        elif op == 'alloca':
            env[ins.res] = atom(('alloca', f.name, ins.res))
        elif op == 'extractvalue':
            a = self.val(st, ins.a, f)
            env[ins.res] = atom(('xv', a, tuple(ins.idx)))
        elif op == 'insertvalue':
            env[ins.res] = atom(('iv', self.val(st, ins.a, f), self.val(st, ins.b, f),
                                 tuple(ins.idx)))
        elif op == 'landingpad':
            env[ins.res] = atom(('lpad', f.name, blk.label))
            self.emit(st, Ev('landingpad', ins=ins, fn=f, site=(f.name, ins.line)), rules, f)
        elif op == 'br':
            if ins.cond is None:
                return [('goto', ins.targets[0], st)]
            c = self.val(st, ins.cond, f)
            cv = self.cond_value(st, c)
            if cv is True:
                self.emit(st, Ev('branch', cond=c, taken=True, ins=ins, fn=f, site=(f.name, ins.line)), rules, f)
                return [('goto', ins.targets[0], st)]
            if cv is False:
                self.emit(st, Ev('branch', cond=c, taken=False, ins=ins, fn=f, site=(f.name, ins.line)), rules, f)
                return [('goto', ins.targets[1], st)]
            s2 = st.fork()
            self.assume(st, c, True)
            self.emit(st, Ev('branch', cond=c, taken=True, ins=ins, fn=f, site=(f.name, ins.line)), rules, f)
            self.assume(s2, c, False)
            self.emit(s2, Ev('branch', cond=c, taken=False, ins=ins, fn=f, site=(f.name, ins.line)), rules, f)
            return [('goto', ins.targets[0], st), ('goto', ins.targets[1], s2)]
        elif op == 'switch':
            v = self.val(st, ins.a, f)
            cv = const_of(v)
            res = []
            if cv is not None:
                for (k, lab) in ins.clauses:
                    if int(k) == cv:
                        return [('goto', lab, st)]
                return [('goto', ins.targets[0], st)]
            for (k, lab) in ins.clauses:
                s2 = st.fork()
                self.assume(s2, mk_icmp('eq', v, L(int(k))), True)
                res.append(('goto', lab, s2))
            res.append(('goto', ins.targets[0], st))
            return res
        elif op == 'ret':
            rv = self.val(st, ins.a, f) if ins.a is not None else None
            return [('exit', 'ret', st, rv)]
        elif op == 'resume':
            return [('exit', 'unwind', st, None)]
        elif op == 'unreachable':
            return [('exit', 'noreturn', st, None)]
        else:
            if ins.res:
                env[ins.res] = atom(('op?', f.name, ins.res))
        return None

    # ---- calls -----------------------------------------------------------------------------
    def _exec_call(self, f, blk, ins, st, rules, depth):
        """Returns list of (kind, state) with kind in normal/unwind/noreturn/terminate."""
        callee = ins.callee
        args = [self.val(st, a, f) for a in ins.args]
        site = (f.name, ins.line, ins.res or id(ins))
        if st.visits:
            # a call executed again after a loop header was re-entered is another execution: its
            # result is a different value (an iterator comparison in a loop test must be able to
            # come out differently the second time)
            it = tuple(sorted((h, n) for h, n in st.visits.items() if n))
            if it:
                site = site + (it,)
        if callee is None or not callee.startswith('@'):
            # indirect call
            ev = Ev('call', callee=None, args=args, ins=ins, fn=f, site=site, argtys=ins.argtys)
            ev.may_throw = not ins.nounwind_site
            ev.ret = atom(('ret', site))
            if ins.res:
                st.env[ins.res] = ev.ret
            return self._conts_opaque(f, ins, st, ev, rules)
        name = callee[1:].strip('"')
        # intrinsics
        if name.startswith('llvm.'):
            return self._intrinsic(f, ins, name, args, st, rules)
        target = self.mod.funcs.get(name)
        summ = OPAQUE
        if target is not None:
            summ = self.summary(name, 0)
        if summ is OPAQUE:
            ev = Ev('call', callee=name, args=args, ins=ins, fn=f, site=site, argtys=ins.argtys)
            ev.may_throw = self.oracle.may_throw(name) and not ins.nounwind_site
            pure = self.oracle.pure_result(name, args)
            ev.ret = atom(pure) if pure is not None else atom(('ret', site))
            if ins.res:
                st.env[ins.res] = ev.ret
            # havoc memory reachable from pointer arguments that the callee may write
            self._havoc_call(f, st, name, args, site)
            return self._conts_opaque(f, ins, st, ev, rules)
        # expand summary paths
        ev0 = Ev('enter', callee=name, args=args, ins=ins, fn=f, site=site, argtys=ins.argtys)
        ev0.expanded = True
        out = []
        feasible = []
        for sp in summ:
            feasible.append(sp)
        first = True
        nsp = len(feasible)
        for k, sp in enumerate(feasible):
            s2 = st if k == nsp - 1 else st.fork()
            r = self._apply_summary(f, ins, s2, sp, args, site, rules, ev0)
            if r is None:
                continue
            kind = {'ret': 'normal', 'unwind': 'unwind', 'noreturn': 'noreturn',
                    'terminate': 'terminate'}[sp.exit]
            if kind == 'unwind' and (ins.nounwind_site or self.mod.funcs[name].nounwind):
                kind = 'terminate'
            out.append((kind, s2))
        return out

    def _conts_opaque(self, f, ins, st, ev, rules):
        """Continuations of an opaque call.  The 'call' event is delivered on the normal
        continuation (the call completed); on the unwind continuation a 'throw' event with the
        same callee/arguments is delivered instead (the call raised)."""
        name = ev.callee
        res = []
        if ev.may_throw:
            s2 = st.fork()
            e2 = Ev('throw', callee=ev.callee, args=ev.args, ins=ev.ins, fn=ev.fn, site=ev.site,
                    argtys=ev.argtys, ret=ev.ret)
            e2.may_throw = True
            s2.exc = e2
            self.emit(s2, e2, rules, f)
            res.append(('unwind', s2))
        if name is not None and self.oracle.noreturn(name):
            if not ev.may_throw:
                self.emit(st, ev, rules, f)
                res.append(('noreturn', st))
            return res
        self.emit(st, ev, rules, f)
        res.append(('normal', st))
        return res

    def _havoc_call(self, f, st, name, args, site):
        """An opaque callee may write memory reachable from its pointer arguments."""
        if self.precall_hook is not None:
            self.precall_hook(st, name, args, site)
        wr = self.oracle.may_write_fields(name)
        roots = set()
        for a in args:
            if is_lin(a):
                for at, c in a[2]:
                    if wr or at[0] == 'alloca':
                        roots.add(at)
        if not roots:
            return
        for r in roots:
            st.hv[r] = site
        for addr in list(st.mem.keys()):
            for at, c in addr[2]:
                if at in roots:
                    del st.mem[addr]
                    break

    def load(self, st, addr):
        v = st.mem.get(addr)
        if v is not None:
            return v
        if st.hv:
            vers = tuple(sorted((repr(st.hv[at]) for at, c in addr[2] if at in st.hv)))
            if vers:
                v = atom(('init', addr, vers))
                st.mem[addr] = v
                return v
        return atom(('init', addr))

    def _apply_summary(self, f, ins, st, sp, args, site, rules, ev0):
        memo = {}
        entry_mem = st.mem
        eng = self

        def rep(at):
            tag = at[0]
            if tag == 'arg':
                k = at[1]
                return args[k] if k < len(args) else atom(('undef',))
            if tag == 'init':
                a2 = subst(at[1], rep, memo)
                if len(at) > 2:
                    return atom(('init', a2, (site,) + tuple(at[2])))
                return eng.load(st0, a2)
            if tag == 'alloca':
                return atom(('alloca', at[1], at[2], site) + tuple(at[3:]))
            if tag in ('ret', 'site', 'alloc'):
                return atom((tag, (site, at[1])) + tuple(at[2:]))
            if tag == 'hv' or tag == 'hvinit' or tag == 'loopvar':
                return atom((tag, site) + tuple(subst(x, rep, memo) if isinstance(x, tuple) else x
                                                for x in at[1:]))
            return None
        # loads of callee-entry memory must see the caller's memory *before* the callee's stores
        st0 = State()
        st0.mem = dict(entry_mem)
        st0.hv = dict(st.hv)
        # path conditions: drop infeasible paths, assume the rest
        for (c, v) in sp.conds:
            c2 = subst(c, rep, memo)
            cv = self.cond_value(st, c2)
            if cv is not None:
                if cv != v:
                    return None
            else:
                self.assume(st, c2, v)
        self.emit(st, ev0, rules, f)
        tags = self.summary_tags.get(ev0.callee)
        if tags:
            for a, k in tags.items():
                self.field_tag[subst(a, rep, memo)] = k
        # replay events and stores in order.  Events carry their own substituted terms.
        for ev in sp.events:
            e2 = Ev(ev.kind)
            e2.callee = ev.callee
            e2.ins = ev.ins
            e2.fn = ev.fn
            e2.field = ev.field
            e2.taken = ev.taken
            e2.may_throw = ev.may_throw
            e2.expanded = ev.expanded
            e2.argtys = ev.argtys
            e2.site = (site, ev.site)
            e2.stack = ((f.name, ins.line),) + (ev.stack or ())
            if ev.args is not None:
                e2.args = [subst(a, rep, memo) for a in ev.args]
            if ev.ret is not None:
                e2.ret = subst(ev.ret, rep, memo)
            if ev.addr is not None:
                e2.addr = subst(ev.addr, rep, memo)
                if ev.field is not None:
                    self.field_tag[e2.addr] = ev.field
                else:
                    # a store through a pointer parameter (std::swap of two words): the caller
                    # knows which word the address is
                    e2.field = self.field_tag.get(e2.addr)
            if ev.val is not None:
                e2.val = subst(ev.val, rep, memo)
            if ev.cond is not None:
                e2.cond = subst(ev.cond, rep, memo)
            if ev.kind == 'store':
                if rules and e2.field is not None:
                    e2.old = self.load(st, e2.addr)
                st.mem[e2.addr] = e2.val
                st.stores = st.stores + ((e2.addr, e2.val),)
            elif ev.kind == 'throw':
                st.exc = e2
            elif ev.kind == 'call' and not ev.expanded:
                # opaque call inside the callee: havoc as the callee did
                small_copy = False
                if ev.callee is not None and (ev.callee.startswith('llvm.memcpy') or ev.callee.startswith('llvm.memmove')) \
                        and e2.args and len(e2.args) > 2:
                    nb = const_of(e2.args[2])
                    small_copy = nb is not None and 0 < nb <= 64
                # (a small aggregate copy was executed cell by cell when the summary was made: its
                # stores are in the summary and have just been replayed - forgetting the destination
                # again would lose the iterator/pointer values carried in such objects)
                if ev.callee is not None and not small_copy:
                    self._havoc_call(f, st, ev.callee, e2.args or [], e2.site)
            self.emit(st, e2, rules, f)
        if rules == () or rules is None or len(rules) == 0:
            pass
        self.emit(st, Ev('leave', callee=ev0.callee, ins=ins, fn=f, site=site,
                         ret=(subst(sp.ret, rep, memo) if sp.ret is not None else None)), rules, f)
        if ins.res and sp.ret is not None:
            st.env[ins.res] = subst(sp.ret, rep, memo)
        elif ins.res:
            st.env[ins.res] = atom(('ret', site))
        return True

    def _intrinsic(self, f, ins, name, args, st, rules):
        site = (f.name, ins.line, ins.res or id(ins))
        if name.startswith('llvm.memcpy') or name.startswith('llvm.memmove') \
                or name.startswith('llvm.memset'):
            ev = Ev('call', callee=name, args=args, ins=ins, fn=f, site=site, argtys=ins.argtys)
            # memory written through the destination
            dst = args[0]
            n = const_of(args[2]) if len(args) > 2 else None
            if name.startswith('llvm.memset'):
                n = None
            if n is not None and 0 < n <= 64 and len(args) > 1:
                # small aggregate copy (iterators, move_iterator temporaries): copy cell by cell so
                # that pointers carried inside such objects keep their values
                src = args[1]
                vals = []
                for off in range(0, n, 8 if n % 8 == 0 else (4 if n % 4 == 0 else 1)):
                    vals.append((off, self.load(st, lin_add(src, L(off)))))
                for off, v in vals:
                    a = lin_add(dst, L(off))
                    # a store like any other: it must be part of summaries (a constructor that returns its
                    # object through a small memcpy into the caller's slot) and visible to rules
                    sev = Ev('store', addr=a, val=v, ins=ins, fn=f, site=site, field=self.field_tag.get(a))
                    if rules and sev.field is not None:
                        sev.old = self.load(st, a)
                    st.mem[a] = v
                    st.stores = st.stores + ((a, v),)
                    self.emit(st, sev, rules, f)
            else:
                for addr in list(st.mem.keys()):
                    if addr[2] == dst[2]:
                        del st.mem[addr]
                        for at, c in addr[2]:
                            st.hv[at] = site
            self.emit(st, ev, rules, f)
            return [('normal', st)]
        if name.startswith('llvm.trap'):
            return [('noreturn', st)]
        if name.startswith('llvm.is.constant'):
            if ins.res:
                st.env[ins.res] = FALSE
            return [('normal', st)]
        if name.startswith('llvm.expect'):
            if ins.res:
                st.env[ins.res] = args[0]
            return [('normal', st)]
        if ins.res:
            st.env[ins.res] = atom(('intr', name, tuple(args)))
        return [('normal', st)]


class Rule(object):
    """Base class for path rules.  Rule state must be hashable and immutable."""
    name = 'rule'

    def init(self, f, eng):
        return None

    def on_event(self, rs, ev, st, f, eng):
        return rs

    def on_exit(self, rs, kind, st, f, eng, rv=None):
        pass
