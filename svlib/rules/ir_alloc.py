"""R04.1 / R06.1 / R04.4: every allocation is committed to a container or released, on every
path including unwind edges; releases use the allocator and the count of the allocation."""
from .. import sym, cg, irrules
from ..irrules import Report, base_name, obj_of, where


class AllocRule(sym.Rule):
    name = 'R04.1'

    def __init__(self, eng, cfg, ctor_ctx):
        self.eng = eng
        self.cfg = cfg
        self.orc = eng.oracle
        self.ctor_ctx = ctor_ctx
        self.reports = {}      # dedupe key -> Report
        self.sites = set()
        self.callers = irrules.callers_map(eng)

    def init(self, f, eng):
        return frozenset()

    # live allocation record: (p, n, recv_obj, site_desc, ptr_obj, cap_obj, escaped)
    def on_event(self, rs, ev, st, f, eng):
        k = ev.kind
        if k == 'call':
            kind = self.orc.kind.get(ev.callee) if ev.callee else None
            if kind == 'ALLOC' and ev.args and len(ev.args) >= 2:
                site = where(ev, self.orc)
                self.sites.add((base_name(f.pretty), site))
                rec = (ev.ret, ev.args[1], obj_of(ev.args[0]), site, None, None, False)
                return rs | {rec}
            if kind == 'DEALLOC' and ev.args and len(ev.args) >= 3:
                p, n = ev.args[1], ev.args[2]
                self.check_release(rs, ev, p, st, f, eng)
                for rec in rs:
                    if rec[0] == p:
                        if rec[1] != n:
                            self._viol(f, 'R04.4', rec, 'released with a different element count',
                                       {'released_with': repr(n)[:200], 'allocated_with': repr(rec[1])[:200],
                                        'at': where(ev, self.orc)}, exit_kind='dealloc-count')
                        if rec[2] != obj_of(ev.args[0]):
                            self._viol(f, 'R04.2', rec, 'released through a different allocator object',
                                       {'at': where(ev, self.orc)}, exit_kind='dealloc-recv')
                        return rs - {rec}
                return rs
            # an opaque callee that receives the pointer by value takes no ownership; nothing to do
            return rs
        if k == 'store':
            if not rs:
                return rs
            for rec in rs:
                if ev.field == 0 and ev.val == rec[0]:
                    o = obj_of(ev.addr)
                    if rec[4] is None and rec[5] is not None and rec[5] == o \
                            and not (f.name in self.ctor_ctx and o == ((('arg', 0), 1),)):
                        # the capacity word was written first (the order of the two stores is free)
                        self._ok(f, rec, 'committed')
                        return rs - {rec}
                    return (rs - {rec}) | {rec[:4] + (o, rec[5], rec[6])}
                if ev.field == 1 and ev.val == rec[1] and rec[4] is not None \
                        and obj_of(ev.addr) == rec[4]:
                    if not (f.name in self.ctor_ctx and rec[4] == ((('arg', 0), 1),)):
                        # committed to a live container: from here on its destructor owns the
                        # block (consistency of that container's words is rule R02.1)
                        self._ok(f, rec, 'committed')
                        return rs - {rec}
                    return (rs - {rec}) | {rec[:5] + (obj_of(ev.addr), rec[6])}
                if ev.field is None and ev.val == rec[0]:
                    # pointer stored into some other object (e.g. heap_temporary::m_data_ptr):
                    # ownership moves to that object if it is not a local of this function
                    roots = [a for a, c in ev.addr[2]]
                    if roots and all(a[0] != 'alloca' for a in roots):
                        return (rs - {rec}) | {rec[:6] + (True,)}
            if ev.field == 1:
                # capacity word written before the data pointer: remember the object, the pointer store
                # (above) completes the commit
                upd = set(rec for rec in rs if rec[4] is None and rec[5] is None and ev.val == rec[1])
                if upd:
                    o = obj_of(ev.addr)
                    return (rs - upd) | set(rec[:5] + (o, rec[6]) for rec in upd)
            # a committed pointer field overwritten by something else = lost (handled at exit by
            # checking that the field still holds p)
            return rs
        return rs

    def check_release(self, rs, ev, p, st, f, eng):
        """R04.5: what is handed to deallocate is a block obtained on this path, or the data pointer a
        container held on entry on a path that established capacity > inline capacity - never the
        inline buffer (a pointer into a container object itself) or anything else."""
        from .ir_bounds import cmp_atom
        from ..sym import single_atom, const_of
        bn = base_name(f.pretty)
        ok = None
        why = None
        if any(rec[0] == p for rec in rs):
            ok = True
        else:
            a = single_atom(p)
            if a is not None and a[0] == 'arg':
                ok = True       # the helper's own parameter: judged where it is expanded
            elif a is not None and a[0] == 'init' and eng.field_tag.get(a[1]) == 0:
                o = a[1][2]
                from .ir_bounds import facts
                for (kind, x, y) in facts(st):
                    if kind == 'lt' and const_of(x) is not None:
                        i = single_atom(y)
                        if i is not None and i[0] == 'init' and eng.field_tag.get(i[1]) == 1 and i[1][2] == o:
                            ok = True
                if ok is None:
                    # released unconditionally: acceptable only in helpers that are expanded into
                    # guarded callers (no capacity test of their own)
                    tested = any(at[0] == 'init' and eng.field_tag.get(at[1]) == 1 and at[1][2] == o
                                 for (c, v) in st.conds for at in sym.atoms_of(c))
                    if not tested and eng.summary(f.name) is not sym.OPAQUE and \
                            any(self.orc.is_gch(c) for c in self.callers.get(f.name, ())):
                        ok = True
                    else:
                        ok, why = False, 'the container\'s buffer is released on a path that has not established that it is heap-allocated'
            elif p[2] and all(r[0] in ('arg', 'alloca') for r, c in p[2]) and len(p[2]) == 1:
                ok, why = False, 'a pointer into a container object itself (the inline buffer) is handed to deallocate'
            else:
                ok = True       # pointers of other provenance (versioned re-reads) are not judged
        dk = ('R04.5', f.name, where(ev, self.orc), ok)
        if dk in self.reports:
            return
        if ok:
            self.reports[dk] = Report('R04.5', True, None, sample={'function': bn, 'release': where(ev, self.orc), 'config': self.cfg.name})
        else:
            self.reports[dk] = Report('R04.5', False, {'function': bn, 'exit': 'bad-release', 'defect': why},
                                      'R04.5: %s: %s (at %s) (%s)' % (bn, why, where(ev, self.orc), self.cfg.name),
                                      {'function': f.pretty[:300], 'config': self.cfg.name, 'pointer': repr(p)[:200],
                                       'file': 'source/include/gch/small_vector.hpp'})

    def on_exit(self, rs, kind, st, f, eng, rv=None):
        for rec in rs:
            p, n, recv, site, pobj, cobj, escaped = rec
            committed = pobj is not None and cobj == pobj
            if committed:
                # the container must still hold p
                committed = any(a[2] == pobj and eng.field_tag.get(a) == 0 and v == p
                                for a, v in st.mem.items())
            if kind == 'ret':
                if committed or escaped:
                    self._ok(f, rec, 'ret')
                    continue
                # returned to the caller?
                if rv is not None and rv == p:
                    self._ok(f, rec, 'ret')
                    continue
                self._viol(f, 'R04.1', rec, 'allocation neither committed nor released on a normal return',
                           {}, exit_kind='ret')
            elif kind == 'unwind':
                in_ctor = f.name in self.ctor_ctx
                arg0 = (((('arg', 0), 1),))
                if committed and not (in_ctor and pobj == arg0):
                    self._ok(f, rec, 'unwind')
                    continue
                if escaped and not in_ctor:
                    self._ok(f, rec, 'unwind')
                    continue
                exc = st.exc
                self._viol(f, 'R04.1', rec,
                           'allocation is leaked when an exception leaves the function'
                           + (' (object under construction: no destructor will release it)' if committed else ''),
                           {'throwing_call': where(exc, self.orc) if exc is not None else 'exception edge',
                            'throw_callee': (self.orc.pretty.get(exc.callee, '?')[:160] if exc is not None and exc.callee else None)},
                           exit_kind='unwind')
            # noreturn / terminate exits: the process does not continue

    def _key(self, f, rule, exit_kind):
        return {'function': base_name(f.pretty), 'exit': exit_kind}

    def _ok(self, f, rec, exit_kind):
        dk = ('ok', f.name, rec[3], exit_kind)
        if dk not in self.reports:
            self.reports[dk] = Report('R04.1', True, self._key(f, 'R04.1', exit_kind),
                                      sample={'function': base_name(f.pretty), 'allocation': rec[3],
                                              'exit': exit_kind, 'config': self.cfg.name})

    def _viol(self, f, rule, rec, msg, detail, exit_kind):
        dk = ('v', rule, f.name, rec[3], exit_kind)
        if dk in self.reports:
            return
        d = dict(detail)
        d.update({'function': f.pretty[:300], 'file': 'source/include/gch/small_vector.hpp',
                  'function_line': f.src_line, 'allocation_site': rec[3], 'config': self.cfg.name})
        self.reports[dk] = Report(rule, False, self._key(f, rule, exit_kind),
                                  '%s: %s in %s (allocation at %s; %s)' % (
                                      rule, msg, base_name(f.pretty), rec[3], self.cfg.name), d)


def analyse_tu(eng, cfg):
    ctx = irrules.constructor_context(eng)
    rule = AllocRule(eng, cfg, ctx)
    nfun = 0
    for f in irrules.maximal_roots(eng):
        # only functions that can reach an allocation are interesting
        eff = eng.oracle.effects.get(f.name, ())
        if 'ALLOC' not in eff and 'DEALLOC' not in eff:
            continue
        nfun += 1
        eng.walk(f, [rule])
    return {'reports': list(rule.reports.values()), 'functions': nfun, 'sites': len(rule.sites),
            'stats': dict(eng.stats)}
