"""C16 part `exist` -- R16.4 (every comparison operator and non-member function exists, is
unambiguous and has the documented result type, for equal and different inline capacities, with
and without `operator<=>` on the element, under every standard, also next to `std::rel_ops`) and
the `noexcept`-mirroring clause of R16.2 for the non-member `swap`.

Engine E1 only: `static_assert`s over `decltype` / `noexcept` / a detection idiom, plus one
ordinary function per witness that *names* the operation so that the selected overload's body is
instantiated (an `operator<=` that forwards to a missing mixed-capacity `operator>=` is only
ill-formed there).  -fsyntax-only under g++ and clang++; nothing is executed, the constant
evaluator is not involved.

Oracles, none of them the header:
  * comparisons: the standard's container requirements (`bool`; for `<=>` the category that
    `std::vector` would give: `std::compare_three_way_result_t<T>` when T is three-way comparable,
    `std::weak_ordering` from `<` otherwise);
  * `swap`, `erase`, `erase_if`, `begin ... data`, `ssize`, CTAD: the README brief
    (`noexcept (noexcept (lhs.swap (rhs)))`, `requires MoveInsertable && Swappable`, `size_type`,
    `decltype (v.begin ())`, `common_type_t<ptrdiff_t, make_signed_t<size_type>>`, the guide
    `small_vector (InputIt, InputIt, Allocator = Allocator ())`);
  * availability of `<=>` and CTAD: the standard's feature-test macros as reported by each
    compiler/standard (a feature witness), never a per-standard table.

Not decided here: what the operators compute (R16.1, E3), that the non-members agree with the
members in value (R16.3, E4).  Not claimed: `swap` viability for element types that are
MoveInsertable and Swappable but not move-assignable (the README's constraint and its `noexcept`
expression disagree there), and for N == 0 with non-movable elements.
"""
from .. import common, witness

HDR = common.HEADER_REL

PRELUDE = r'''
#include <gch/small_vector.hpp>
#include "c16_types.hpp"
#include <cstddef>
#include <cstdint>
#include <memory>
#include <type_traits>
#include <utility>
namespace c16d
{
  template <typename V, typename = void> struct has_gch_swap : std::false_type { };
  template <typename V>
  struct has_gch_swap<V, typename c16::voider<decltype (gch::swap (std::declval<V&> (),
                                                                   std::declval<V&> ()))>::type>
    : std::true_type { };
  template <typename V, typename = void> struct has_adl_swap : std::false_type { };
  template <typename V>
  struct has_adl_swap<V, typename c16::voider<decltype (swap (std::declval<V&> (),
                                                              std::declval<V&> ()))>::type>
    : std::true_type { };
}
'''

FEATURE_PRELUDE = r'''
#include "c16_types.hpp"
'''

FEATURES = [witness.W('feature|three_way', 'static_assert (C16_THREE_WAY, "SVW");'),
            witness.W('feature|ctad', 'static_assert (C16_CTAD, "SVW");')]

PAIRS = [(0, 0), (3, 3), (0, 3), (3, 0), (2, 5)]
RELOPS = [('==', 'operator=='), ('!=', 'operator!='), ('<', 'operator<'), ('<=', 'operator<='),
          ('>', 'operator>'), ('>=', 'operator>=')]
# element, needs three-way support to exist at all, category of <=>
ELEMENTS = [('int', None, 'std::strong_ordering'),
            ('double', None, 'std::partial_ordering'),
            ('c16::EqLt', None, 'std::weak_ordering'),
            ('c16::Spaceship', 'three_way', 'std::strong_ordering')]
RANGE = ['begin', 'end', 'cbegin', 'cend', 'rbegin', 'rend', 'crbegin', 'crend', 'size', 'ssize',
         'empty', 'data']
ALLOCS = {'std': lambda t: 'std::allocator<%s>' % t,
          'SA': lambda t: 'c16::SA<%s>' % t,
          'SA16': lambda t: 'c16::SA<%s, std::uint16_t>' % t}


class Gen:
    def __init__(self):
        self.ws = []

    def add(self, rule, group, function, key, code, needs=None, what=''):
        tag = '|'.join([group, function] + [str(v) for v in key.values()])
        ns = 'w%d' % len(self.ws)
        k = dict(key)
        k['function'] = function
        self.ws.append(witness.W(tag, 'namespace %s {\n%s\n}' % (ns, code),
                                 info={'rule': rule, 'group': group, 'function': function,
                                       'key': k, 'needs': needs, 'what': what}))


def make_witnesses():
    g = Gen()
    # ------------------------------------------------------------------ comparisons
    for scope, using in (('plain', ''), ('rel_ops', 'using namespace std::rel_ops;\n')):
        for elem, eneeds, cat in ELEMENTS:
            for n, m in PAIRS:
                types = ('%susing L = gch::small_vector<%s, %d>; using R = gch::small_vector<%s, %d>;\n'
                         % (using, elem, n, elem, m))
                key = {'element': elem, 'capacities': '(%d,%d)' % (n, m), 'scope': scope}
                for op, name in RELOPS:
                    g.add('R16.4', 'compare', name, key, types +
                          'static_assert (std::is_same<decltype (std::declval<const L&> () %s '
                          'std::declval<const R&> ()), bool>::value, "SVW");\n'
                          'bool f (const L& a, const R& b) { return a %s b; }' % (op, op),
                          needs=eneeds, what='exists, is unambiguous and returns bool')
                g.add('R16.4', 'compare', 'operator<=>', key, types +
                      'static_assert (std::is_same<decltype (std::declval<const L&> () <=> '
                      'std::declval<const R&> ()), %s>::value, "SVW");\n'
                      'auto f (const L& a, const R& b) { return a <=> b; }' % cat,
                      needs='three_way', what='exists, is unambiguous and returns ' + cat)
    # ------------------------------------------------------------------ swap
    for elem in ('c16::NT', 'c16::TH'):
        for n in (0, 3):
            for an in ('std', 'SA'):
                v = 'using V = gch::small_vector<%s, %d, %s>;\n' % (elem, n, ALLOCS[an](elem))
                key = {'element': elem, 'capacities': '(%d,%d)' % (n, n), 'allocator': an}
                for form, call in (('adl', 'swap'), ('qualified', 'gch::swap')):
                    k = dict(key, form=form)
                    g.add('R16.4', 'swap', 'swap', k, v +
                          'static_assert (std::is_same<decltype (%s (std::declval<V&> (), '
                          'std::declval<V&> ())), void>::value, "SVW");\n'
                          'void f (V& a, V& b) { %s (a, b); }' % (call, call),
                          what='non-member swap exists for equal capacities'
                               + (' and is found by ADL' if form == 'adl' else ''))
                    g.add('R16.2', 'swap_noexcept', 'swap', k, v +
                          'static_assert (noexcept (%s (std::declval<V&> (), std::declval<V&> ())) '
                          '== noexcept (std::declval<V&> ().swap (std::declval<V&> ())), "SVW");' % call,
                          what='noexcept (swap (a, b)) == noexcept (a.swap (b))')
                if an == 'SA':
                    # only gch::swap can be reached: ADL must find it
                    g.add('R16.4', 'swap', 'swap', dict(key, form='adl-detected'), v +
                          'static_assert (c16d::has_adl_swap<V>::value && c16d::has_gch_swap<V>::value, "SVW");',
                          what='the detector sees gch::swap through ADL (positive control)')
    for elem, why in (('c16::NoMove', 'not MoveInsertable'), ('c16::NoAssign', 'not Swappable')):
        for an in ('std', 'SA'):
            v = 'using V = gch::small_vector<%s, 3, %s>;\n' % (elem, ALLOCS[an](elem))
            key = {'element': elem, 'capacities': '(3,3)', 'allocator': an}
            g.add('R16.4', 'swap_constraint', 'swap', dict(key, form='qualified'), v +
                  'static_assert (! c16d::has_gch_swap<V>::value, "SVW");',
                  what='gch::swap must not be viable: README `requires MoveInsertable && Swappable`, '
                       'element is ' + why)
            if an == 'SA':
                g.add('R16.4', 'swap_constraint', 'swap', dict(key, form='adl'), v +
                      'static_assert (! c16d::has_adl_swap<V>::value, "SVW");',
                      what='no viable swap through ADL: README `requires MoveInsertable && '
                           'Swappable`, element is ' + why)
    # ------------------------------------------------------------------ erase / erase_if
    for n in (0, 3):
        for an in ('std', 'SA16'):
            v = 'using V = gch::small_vector<int, %d, %s>;\n' % (n, ALLOCS[an]('int'))
            for form, pre in (('qualified', 'gch::'), ('adl', '')):
                key = {'element': 'int', 'capacities': '(%d)' % n, 'allocator': an, 'form': form}
                g.add('R16.4', 'erase', 'erase', key, v +
                      'static_assert (std::is_same<decltype (%serase (std::declval<V&> (), 1)), '
                      'typename V::size_type>::value, "SVW");\n'
                      'typename V::size_type f (V& v) { return %serase (v, 1); }' % (pre, pre),
                      what='erase (v, value) exists and returns size_type')
                g.add('R16.4', 'erase', 'erase_hetero', key, v +
                      'static_assert (std::is_same<decltype (%serase (std::declval<V&> (), c16::Key ())), '
                      'typename V::size_type>::value, "SVW");\n'
                      'typename V::size_type f (V& v) { return %serase (v, c16::Key ()); }' % (pre, pre),
                      what='erase (v, value) accepts any value type U for which `element == value` is valid '
                           '(std::erase takes const U&, not const value_type&)')
                g.add('R16.4', 'erase', 'erase_if', key, v +
                      'static_assert (std::is_same<decltype (%serase_if (std::declval<V&> (), c16::Pred ())), '
                      'typename V::size_type>::value, "SVW");\n'
                      'typename V::size_type f (V& v) { return %serase_if (v, c16::Pred ()); }' % (pre, pre),
                      what='erase_if (v, pred) exists and returns size_type')
    # ------------------------------------------------------------------ begin ... data
    for n in (0, 3):
        for an in ('std', 'SA16'):
            for cv in ('V', 'const V'):
                v = ('using V = gch::small_vector<int, %d, %s>; using CV = %s;\n'
                     % (n, ALLOCS[an]('int'), cv))
                for name in RANGE:
                    if name == 'ssize':
                        expect = ('typename std::common_type<std::ptrdiff_t, typename std::make_signed<'
                                  'typename V::size_type>::type>::type')
                    else:
                        expect = 'decltype (std::declval<CV&> ().%s ())' % name
                    for form, pre in (('qualified', 'gch::'), ('adl', '')):
                        key = {'argument': cv.replace('V', 'small_vector') + '&',
                               'capacities': '(%d)' % n, 'allocator': an, 'form': form}
                        g.add('R16.4', 'range_access', name, key, v +
                              'static_assert (noexcept (%s%s (std::declval<CV&> ())), "SVW-noexcept");\n'
                              'static_assert (std::is_same<decltype (%s%s (std::declval<CV&> ())), %s>::value, '
                              '"SVW-type");' % (pre, name, pre, name, expect),
                              what='non-member %s exists, is noexcept and returns %s'
                                   % (name, 'the README\'s common_type' if name == 'ssize'
                                      else 'what the member returns'))
    # ------------------------------------------------------------------ CTAD
    dflt = 'gch::default_buffer_size<std::allocator<%s> >::value'
    for it, args, deduced in (
            ('int *', '', 'gch::small_vector<int>'),
            ('const int *', '', 'gch::small_vector<int>'),
            ('c16::FwdLong', '', 'gch::small_vector<long>'),
            ('int *', ', c16::SA<int> ()', 'gch::small_vector<int, %s, c16::SA<int> >' % (dflt % 'int'))):
        key = {'iterator': it, 'allocator_argument': args.strip(', ') or 'none'}
        g.add('R16.4', 'ctad', 'deduction guide small_vector (InputIt, InputIt, Allocator)', key,
              'using It = %s;\n'
              'static_assert (std::is_same<decltype (gch::small_vector (std::declval<It> (), '
              'std::declval<It> ()%s)), %s>::value, "SVW");\n'
              'void f (It first, It last) { gch::small_vector v (first, last%s); '
              'static_assert (std::is_same<decltype (v), %s>::value, "SVW"); }'
              % (it, args, deduced, args, deduced),
              needs='ctad', what='small_vector v (first, last) deduces ' + deduced)
    return g.ws


def configs(tier):
    if tier == 'quick':
        return [('', ('c++11', 'c++17', 'c++20'), ())]
    return [('', tuple(common.STDS), ()),
            ('-DGCH_DISABLE_CONCEPTS', ('c++20', 'c++2b'), ('-DGCH_DISABLE_CONCEPTS',))]


def collect(ck, tier):
    ws = make_witnesses()
    if len(set(w.tag for w in ws)) != len(ws):
        raise common.AnalysisBroken('c16_exist: duplicate witness tags')
    results = {}      # cfg -> {tag: (status, msg)}  (only the witnesses demanded in that cfg)
    feats = {}
    for label, stds, flags in configs(tier):
        fres = witness.compile_battery('c16exist-features', FEATURE_PRELUDE, FEATURES, stds=stds,
                                       extra_flags=flags, shards=1)
        have = {k: set(t.split('|')[1] for t, (st, _) in r.items() if st == 'ok')
                for k, r in fres.items()}
        res = witness.compile_battery(
            'c16exist', PRELUDE, ws, stds=stds, extra_flags=flags,
            shards=max(1, (2 * common.JOBS) // (2 * len(stds))),
            per_config_filter=lambda w, comp, std: (w.info['needs'] is None
                                                    or w.info['needs'] in have[(comp, std)]))
        for (comp, std), r in res.items():
            cfg = '%s -std=%s%s' % (comp, std, (' ' + label) if label else '')
            results[cfg] = r
            feats[cfg] = sorted(have[(comp, std)])
            ck.unit(cfg)

    counts = {}
    for w in ws:
        info = w.info
        demanded = [cfg for cfg in sorted(results) if w.tag in results[cfg]]
        if not demanded:
            continue          # e.g. <=> in a tier without a three-way configuration
        fails = [(cfg, results[cfg][w.tag][1]) for cfg in demanded if results[cfg][w.tag][0] != 'ok']
        counts[info['group']] = counts.get(info['group'], 0) + 1
        if not fails:
            ck.ok(info['rule'], sample=dict(info['key'], obligation=info['what'],
                                            configs=len(demanded)))
            continue
        k = info['key']
        where = ', '.join('%s=%s' % (a, b) for a, b in k.items() if a != 'function')
        ck.violation(info['rule'], k,
                     '%s: non-member %s [%s]: %s -- fails in %d of %d configurations (first: %s: %s)'
                     % (HDR, info['function'], where, info['what'], len(fails), len(demanded),
                        fails[0][0], fails[0][1][:240]),
                     {'file': HDR, 'rule': info['rule'], 'witness': w.code,
                      'configs': [{'config': c, 'compiler_says': m} for c, m in fails[:12]]})

    three_way_cfgs = sum(1 for f in feats.values() if 'three_way' in f)
    n_ops = counts.get('compare', 0)
    # 2 scopes x 5 capacity pairs x 6 operators x 3 elements (+ 1 element and <=> with three-way)
    ck.floor('c16_exist operator overload witnesses', n_ops,
             2 * 5 * 6 * 3 + (2 * 5 * (6 + 4) if three_way_cfgs else 0))
    ck.floor('c16_exist configurations with operator<=>', three_way_cfgs, 2)
    ck.floor('c16_exist range-access witnesses', counts.get('range_access', 0), 2 * 2 * 2 * 12 * 2)
    ck.floor('c16_exist swap witnesses',
             counts.get('swap', 0) + counts.get('swap_noexcept', 0) + counts.get('swap_constraint', 0),
             16 + 16 + 4 + 6)
    ck.floor('c16_exist erase witnesses', counts.get('erase', 0), 24)
    ck.floor('c16_exist CTAD witnesses', counts.get('ctad', 0), 4)
    ck.extra['c16_exist'] = {'witnesses_by_group': counts, 'features': feats,
                             'configs': sorted(results)}
    ck.assumptions += [
        'overload resolution, partial ordering and rewritten comparison candidates as implemented '
        'by g++ 12 and clang++ 14 (an ambiguity is a diagnostic in at least one of them)']
