"""C16 — comparisons and non-member functions (DESIGN section 6, C16)."""
from .. import common
from . import parts


def run(tier):
    ck = common.Check('C16', tier)
    parts.run_parts(ck, tier, witness_parts=('c16_exist', 'c16_forms'), ir_parts=('ir_compare',))
    ck.finish(
        'R16.4 (type level): every comparison operator / <=> / non-member swap, erase, erase_if, begin..data, ssize and CTAD '
        'exists, is unambiguous (also under using namespace std::rel_ops), has the required return type and noexcept, for '
        'equal and mixed inline capacities under every standard. R16.1/R16.2 (IR): each operator reduces to EQ or LT of the '
        'standard algorithms with the operand order and negation of the mathematical table; erase/erase_if are the '
        'erase-remove idiom returning the size difference. R16.3: non-member observers have the same -O2 normal form as the '
        'members. The value of a comparison is the standard algorithm\'s and is not separately decided.')
