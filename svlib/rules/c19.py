"""C19 — default inline capacity sizes the object to 64 bytes; empty base costs nothing.

Engine E1 only: every obligation is a `static_assert` over `sizeof`/`alignof`/`offsetof` and
`default_buffer_size<A>::value`, decided by two compilers' type checkers.  Nothing is executed:
layout constants are not container operations.  The oracle is the C++ object model itself
(the statement's own words: "largest count for which the whole object occupies at most 64 bytes").
"""
from .. import common, witness

PRELUDE = r'''
#include <gch/small_vector.hpp>
#include <cstddef>
#include <cstdint>
#include <memory>
namespace c19 {
template <std::size_t S, std::size_t A> struct alignas (A) E { unsigned char b[S]; };
template <std::size_t N> struct state { unsigned char s[N]; };
template <> struct state<0> { };
// minimal allocator: `size_type` and the number of bytes of state are the grid axes
template <typename T, typename SizeT, std::size_t StateBytes>
struct GA : state<StateBytes>
{
  using value_type = T;
  using size_type = SizeT;
  GA () = default;
  template <typename U> GA (const GA<U, SizeT, StateBytes>&) noexcept { }
  template <typename U> struct rebind { using other = GA<U, SizeT, StateBytes>; };
  T *allocate (std::size_t);
  void deallocate (T *, std::size_t) noexcept;
};
template <typename T, typename U, typename S, std::size_t N>
bool operator== (const GA<T, S, N>&, const GA<U, S, N>&) noexcept;
template <typename T, typename U, typename S, std::size_t N>
bool operator!= (const GA<T, S, N>&, const GA<U, S, N>&) noexcept;
template <typename T, typename A> constexpr unsigned D () { return gch::default_buffer_size<A>::value; }
template <typename T, unsigned N, typename A> constexpr std::size_t SZ () { return sizeof (gch::small_vector<T, N, A>); }
constexpr std::size_t roundup (std::size_t n, std::size_t a) { return (n + a - 1) / a * a; }
}
using namespace c19;
'''

ST = {8: 'std::uint8_t', 16: 'std::uint16_t', 32: 'std::uint32_t', 64: 'std::uint64_t'}
STATES = [0, 1, 4, 8, 16, 24]
ALIGNS = [1, 2, 4, 8, 16, 32, 64]
QUICK_SIZES = [1, 2, 3, 4, 8, 12, 16, 24, 40, 64, 72]
QUICK_STATES = [0, 1, 8, 24]
LIMIT = 64  # GCH_SMALL_VECTOR_DEFAULT_SIZE, the figure the statement names


def cells(tier):
    sizes = range(1, 73) if tier == 'thorough' else QUICK_SIZES
    for s in sizes:
        for a in ALIGNS:
            if s % a:
                continue
            for bits in (8, 16, 32, 64):
                for st in (STATES if tier == 'thorough' else QUICK_STATES):
                    yield (s, a, 'GA', bits, st)
            yield (s, a, 'std', 64, 0)


def cell_id(c):
    s, a, kind, bits, st = c
    if kind == 'std':
        return 'S%d.A%d.std_allocator' % (s, a)
    return 'S%d.A%d.u%d.state%d' % (s, a, bits, st)


def types(c):
    s, a, kind, bits, st = c
    T = 'E<%d,%d>' % (s, a)
    if kind == 'std':
        return T, 'std::allocator<%s>' % T
    return T, 'GA<%s,%s,%d>' % (T, ST[bits], st)


def make_witnesses(tier):
    ws = []
    for c in cells(tier):
        T, A = types(c)
        cid = cell_id(c)
        d = 'D<%s,%s> ()' % (T, A)
        sz = lambda n: 'SZ<%s,%s,%s> ()' % (T, n, A)  # noqa: E731
        # fits: the default fits in 64 bytes, or it is 1 and not even one element fits
        ws.append(witness.W(cid + ':fits',
                            'static_assert (%s <= %d || (%s == 1 && %s > %d), "SVW");'
                            % (sz(d), LIMIT, d, sz('1'), LIMIT), info=c))
        # maximal: one more element would not fit
        ws.append(witness.W(cid + ':maximal',
                            'static_assert (%s > %d, "SVW");' % (sz(d + ' + 1'), LIMIT), info=c))
        # never 0 (the statement: "or 1 when not even one element fits")
        ws.append(witness.W(cid + ':nonzero', 'static_assert (%s >= 1, "SVW");' % d, info=c))
        # inline_capacity () reports the template argument
        for n in (('0', '1', d, d + ' + 1') if tier == 'thorough' else ('0', d)):
            ws.append(witness.W(
                cid + ':reports:' + n.replace(' ', ''),
                'static_assert (gch::small_vector<%s, %s, %s>::inline_capacity () == %s '
                '&& gch::small_vector<%s, %s, %s>::inline_capacity_v == %s, "SVW");'
                % (T, n, A, n, T, n, A, n), info=c))
        # alignment: the object is at least as aligned as its elements and the inline buffer
        # sits at a multiple of alignof (T)  (member access through -fno-access-control)
        ws.append(witness.W(
            cid + ':aligned',
            'static_assert (alignof (gch::small_vector<%s, %s, %s>) >= alignof (%s), "SVW");'
            % (T, d, A, T), info=c))
        s, a, kind, bits, st = c
        if kind == 'std' or st == 0:
            szt = 'std::size_t' if kind == 'std' else ST[bits]
            ws.append(witness.W(
                cid + ':empty_layout',
                'static_assert (%s == roundup (sizeof (void *) + 2 * sizeof (%s), alignof (void *)), "SVW");'
                % (sz('0'), szt), info=c))
    return ws


README_PRELUDE = PRELUDE + r'''
// The README's own example (Q&A "Can I specify the size_type"), copied verbatim in structure.
template <typename T>
struct tiny_allocator : std::allocator<T>
{
  using size_type = std::uint16_t;
  using std::allocator<T>::allocator;
  template <typename U> struct rebind { using other = tiny_allocator<U>; };
  void max_size (void) = delete;
};
'''


def run(tier):
    ck = common.Check('C19', tier, level='proof')
    ws = make_witnesses(tier)
    stds = ('c++17',) if tier == 'quick' else tuple(common.STDS)
    res = witness.compile_battery('c19grid', PRELUDE, ws, stds=('c++17',),
                                  extra_flags=('-fno-access-control',), shards=common.JOBS)
    if tier == 'thorough':
        # the other standards on the quick sub-grid (layout does not depend on the standard; this
        # is the C17 cross-check, not a second proof)
        res2 = witness.compile_battery('c19grid-stds', PRELUDE, make_witnesses('quick'),
                                       stds=[s for s in stds if s != 'c++17'],
                                       extra_flags=('-fno-access-control',), shards=4)
        res.update(res2)
    # README example + std::allocator<int> documented figures (sizeof 64, capacity 10)
    rw = [
        witness.W('readme:std_int_sizeof64', 'static_assert (sizeof (gch::small_vector<int>) == 64, "SVW");'),
        witness.W('readme:std_int_capacity10', 'static_assert (gch::default_buffer_size<std::allocator<int>>::value == 10, "SVW");'),
        witness.W('readme:tiny_sizeof64',
                  'static_assert (sizeof (gch::small_vector<int, gch::default_buffer_size<tiny_allocator<int>>::value, tiny_allocator<int>>) == 64, "SVW");'),
        witness.W('readme:default_arg_is_default_buffer_size',
                  'static_assert (std::is_same<gch::small_vector<int>, gch::small_vector<int, gch::default_buffer_size<std::allocator<int>>::value, std::allocator<int>>>::value, "SVW");'),
    ]
    rres = witness.compile_battery('c19readme', README_PRELUDE, rw, stds=stds)
    # inline buffer offset: named members, so a rename is analysis-broken, not a violation
    ow = []
    for c in cells('quick'):
        s, a, kind, bits, st = c
        if s not in (1, 4, 16, 64) or (kind == 'GA' and (bits, st) not in ((8, 1), (64, 0), (16, 24))):
            continue
        T, A = types(c)
        ow.append(witness.W(
            cell_id(c) + ':buffer_offset',
            'static_assert (__builtin_offsetof (gch::small_vector<%s, D<%s,%s> (), %s>, m_data.m_storage) %% alignof (%s) == 0, "SVW");'
            % (T, T, A, A, T), info=c))
    try:
        ores = witness.compile_battery('c19offset', PRELUDE, ow, compilers=('clang++',), stds=('c++17',),
                                       extra_flags=('-fno-access-control', '-Wno-invalid-offsetof'))
    except common.AnalysisBroken as e:
        ores = {}
        ck.note('buffer-offset witnesses not evaluated: ' + str(e)[:300])

    ncell = len(set(cell_id(w.info) for w in ws))
    for (comp, std) in sorted(set(res) | set(rres) | set(ores)):
        ck.unit('%s/%s' % (comp, std))
    # an obligation holds iff it holds under every compiler/standard explored
    merged = {}
    for table in (res, rres, ores):
        for (comp, std), r in table.items():
            for tag, (status, msg) in r.items():
                m = merged.setdefault(tag, [])
                if status != 'ok':
                    m.append('%s -std=%s: %s' % (comp, std, msg))
    for tag, fails in sorted(merged.items()):
        cid, _, obl = tag.partition(':')
        if not fails:
            ck.ok(obl.split(':')[0], sample={'cell': cid, 'obligation': obl})
        else:
            ck.violation(obl.split(':')[0], {'cell': cid, 'obligation': obl},
                         'C19 %s fails for %s (%s)' % (obl, cid, fails[0][:200]),
                         {'configs': fails[:10], 'file': common.HEADER_REL,
                          'construct': 'gch::default_buffer_size / small_vector layout'})
    ck.floor('grid cells', ncell, 300 if tier == 'quick' else 3500)
    ck.extra['grid_cells'] = ncell
    ck.extra['configs'] = sorted('%s/%s' % k for k in res)
    ck.assumptions += ['Itanium C++ ABI layout as implemented by g++ 12 and clang++ 14 on x86-64',
                       'sizeof is monotone in InlineCapacity (so "N = D+1 does not fit" implies no larger N fits, and "N = 1 does not fit" implies none does)']
    ck.finish(
        'Type-level proof over the statement\'s finite grid: for every (sizeof, alignof) element '
        'shape, allocator state size and size_type width, static_asserts over sizeof/alignof '
        'decide fits(D), maximal(D), D >= 1, inline_capacity() == N, empty-container layout and '
        'buffer alignment; each static_assert is evaluated by g++ and clang++ (-fsyntax-only). '
        'Cells listed in known_findings.jsonl (F9) are reported as KNOWN-FINDING and are not '
        'counted as discharged.',
        trusted_base=['g++ 12 and clang++ 14 constant evaluation of sizeof/alignof', 'svlib/witness.py diagnostic attribution'],
        checker_cmd='bin/svcheck C19 --tier ' + tier,
        exhaustive=(tier == 'thorough'))
