"""C15 rules: single-pass inputs are consumed exactly once, in order, never past the end.

R15.1  typestate per input-iterator object (the opaque probe iterator InIt: its operator*, ++, ==
       and copy constructor are distinct undefined externals):
         UNKNOWN --(== / != against the end says "not at end")--> CHECKED --(*)--> READ --(++)--> UNKNOWN
       `*` outside CHECKED, `++` outside READ, and any use of a copy that shares its position with
       an iterator that has since been advanced are violations.  Handing an iterator to an opaque
       callee that can advance it advances it an unknown number of times (copies go stale).
R15.2  the generator constructor calls the generator exactly once per loop iteration, on every
       path through the loop body, and the loop runs from begin to begin + count.
"""
from .. import sym, cg, irrules
from ..sym import single_atom, atom, const_of
from ..irrules import Report, base_name, where

ADV = {'ITER_INC', 'ITER_POSTINC', 'ITER_ARITH', 'ITER_DEREF'}


def itkey(t):
    """Iterator objects are identified by the address term of the object."""
    return t


class IterRule(sym.Rule):
    name = 'R15.1'

    def __init__(self, eng, cfg):
        self.eng = eng
        self.cfg = cfg
        self.orc = eng.oracle
        self.reports = {}
        self.events = 0

    def init(self, f, eng):
        # (objects: frozenset of (key, posid, state), pending: frozenset of (ret atom, kind, a, b))
        return (frozenset(), frozenset())

    def _get(self, objs, key):
        for (k, p, s) in objs:
            if k == key:
                return (k, p, s)
        return None

    def _set(self, objs, key, pos, state):
        return frozenset(x for x in objs if x[0] != key) | {(key, pos, state)}

    def _viol(self, f, ev, what):
        bn = base_name(f.pretty)
        dk = (f.name, what, ev.ins.line if ev.ins is not None else 0)
        if dk not in self.reports:
            self.reports[dk] = Report(
                'R15.1', False, {'function': bn, 'defect': what},
                'R15.1: %s: %s (at %s) (%s)' % (bn, what, where(ev, self.orc), self.cfg.name),
                {'function': f.pretty[:300], 'config': self.cfg.name, 'at': where(ev, self.orc),
                 'file': 'source/include/gch/small_vector.hpp'})

    def on_event(self, rs, ev, st, f, eng):
        objs, pending = rs
        if ev.kind == 'branch':
            if not pending:
                return rs
            pos, pol = sym.strip_not(ev.cond)
            a = single_atom(pos)
            for (r, kind, x, y) in pending:
                if a is not None and a == r:
                    taken = ev.taken if pol else (not ev.taken)
                    not_at_end = (kind == 'ITER_EQ' and taken is False) or (kind == 'ITER_NE' and taken is True)
                    if not_at_end:
                        for key in (x, y):
                            o = self._get(objs, key)
                            if o is None or o[2] == 'UNKNOWN':
                                objs = self._set(objs, key, o[1] if o else ('p0', repr(key)[:40]), 'CHECKED')
                    return (objs, pending - {(r, kind, x, y)})
            return rs
        if ev.kind not in ('call', 'throw') or not ev.callee or not ev.args:
            return rs
        kind = self.orc.kind.get(ev.callee)
        pretty = self.orc.pretty.get(ev.callee, '')
        if kind and kind.startswith('ITER_') and 'svp::InIt<' not in pretty:
            return rs      # forward / random-access probes are multi-pass
        if kind in ('ITER_EQ', 'ITER_NE'):
            self.events += 1
            for key in (ev.args[0], ev.args[1]):
                o = self._get(objs, key)
                if o is not None and o[2] == 'STALE':
                    self._viol(f, ev, 'a copy of an already-advanced input iterator is compared')
            if ev.ret is not None and ev.kind == 'call':
                pending = pending | {(single_atom(ev.ret), kind, ev.args[0], ev.args[1])}
            return (objs, pending)
        if kind == 'ITER_COPY':
            self.events += 1
            src = self._get(objs, ev.args[1])
            if src is None:
                src = (ev.args[1], ('p0', repr(ev.args[1])[:60]), 'UNKNOWN')
                objs = objs | {src}
            if src[2] == 'STALE':
                self._viol(f, ev, 'a copy of an already-advanced input iterator is copied and used')
            objs = self._set(objs, ev.args[0], src[1], src[2])
            return (objs, pending)
        if kind == 'ITER_DEREF':
            self.events += 1
            o = self._get(objs, ev.args[0])
            state = o[2] if o else 'UNKNOWN'
            if state == 'UNKNOWN':
                self._viol(f, ev, 'input iterator dereferenced without a preceding comparison against the end')
            elif state == 'READ':
                self._viol(f, ev, 'input iterator dereferenced twice at the same position')
            elif state == 'STALE':
                self._viol(f, ev, 'a copy of an already-advanced input iterator is dereferenced')
            pos = o[1] if o else ('p0', repr(ev.args[0])[:60])
            # every copy at this position has now been read
            objs = frozenset((k, p, ('READ' if (p == pos and s in ('CHECKED', 'UNKNOWN', 'READ')) else s))
                             for (k, p, s) in objs if k != ev.args[0]) | {(ev.args[0], pos, 'READ')}
            return (objs, pending)
        if kind in ('ITER_INC', 'ITER_POSTINC'):
            self.events += 1
            o = self._get(objs, ev.args[-1] if kind == 'ITER_POSTINC' and len(ev.args) > 2 else ev.args[0])
            key = ev.args[0] if kind == 'ITER_INC' else (ev.args[1] if len(ev.args) >= 2 and self._get(objs, ev.args[1]) else ev.args[0])
            o = self._get(objs, key)
            state = o[2] if o else 'UNKNOWN'
            if state in ('UNKNOWN', 'CHECKED'):
                self._viol(f, ev, 'input iterator incremented without reading the element (an element is skipped or the end is passed)')
            elif state == 'STALE':
                self._viol(f, ev, 'a copy of an already-advanced input iterator is incremented')
            oldpos = o[1] if o else None
            newpos = ('p', ev.ins.line if ev.ins is not None else 0, repr(key)[:40])
            objs = frozenset((k, p, ('STALE' if (p == oldpos and k != key) else s)) for (k, p, s) in objs if k != key) \
                | {(key, newpos, 'UNKNOWN')}
            return (objs, pending)
        # opaque callee that may advance an iterator it receives
        eff = self.orc.effects.get(ev.callee, frozenset())
        if eff & ADV and 'svp::InIt<' in pretty:
            for i, a in enumerate(ev.args):
                ty = (ev.argtys or [None] * len(ev.args))[i]
                if ty and 'svp::InIt' in ty:
                    o = self._get(objs, a)
                    if o is not None and o[2] == 'STALE':
                        self._viol(f, ev, 'a copy of an already-advanced input iterator is passed on')
                    oldpos = o[1] if o else ('p0', repr(a)[:60])
                    newpos = ('pc', ev.ins.line if ev.ins is not None else 0, i)
                    objs = frozenset((k, p, ('STALE' if (p == oldpos and k != a) else s)) for (k, p, s) in objs if k != a) \
                        | {(a, newpos, 'UNKNOWN')}
            return (objs, pending)
        return rs

    def on_exit(self, rs, kind, st, f, eng, rv=None):
        dk = (f.name, 'ok')
        if dk not in self.reports and kind in ('ret', 'unwind'):
            self.reports[dk] = Report('R15.1', True, None, sample={'function': base_name(f.pretty), 'config': self.cfg.name})


class FwdRule(sym.Rule):
    """R15.3: a multi-pass range is not walked past `last`.  Advancing a caller's forward /
    random-access iterator by k (through std::advance / next / copy_n-style helpers that take the
    iterator and a count) needs evidence on the path: for k == 1 a comparison of that position
    with the end that said "not equal"; for a symbolic k a condition k < L or k <= L with L a
    measured length (the result of a call on the caller's iterators)."""
    name = 'R15.3'

    def __init__(self, eng, cfg):
        self.orc = eng.oracle
        self.cfg = cfg
        self.reports = {}
        self.public = False
        self.advances = 0

    def init(self, f, eng):
        # (not-at-end positions: frozenset of iterator object keys; pending comparisons; copies: (dst, src); compared-any)
        return (frozenset(), frozenset(), frozenset(), False)

    def on_event(self, rs, ev, st, f, eng):
        notend, pending, copies, tested = rs
        if ev.kind == 'branch' and pending:
            pos, pol = sym.strip_not(ev.cond)
            a = single_atom(pos)
            for (r, kind, x, y) in pending:
                if a is not None and a == r:
                    taken = ev.taken if pol else (not ev.taken)
                    ne = (kind == 'ITER_EQ' and taken is False) or (kind == 'ITER_NE' and taken is True)
                    if ne:
                        notend = notend | {x, y}
                    return (notend, pending - {(r, kind, x, y)}, copies, True)
            return rs
        if ev.kind not in ('call', 'throw') or not ev.callee or not ev.args:
            return rs
        kind = self.orc.kind.get(ev.callee)
        pretty = self.orc.pretty.get(ev.callee, '')
        multi = 'svp::FwIt<' in pretty or 'svp::RaIt<' in pretty
        if not multi:
            return rs
        if kind in ('ITER_EQ', 'ITER_NE') and ev.kind == 'call' and ev.ret is not None:
            return (notend, pending | {(single_atom(ev.ret), kind, ev.args[0], ev.args[1])}, copies, tested)
        if kind == 'ITER_COPY' and len(ev.args) >= 2:
            src = ev.args[1]
            if src in notend:
                notend = notend | {ev.args[0]}
            return (notend, pending, copies | {(ev.args[0], src)}, tested)
        eff = self.orc.effects.get(ev.callee, frozenset())
        if kind is None and (eff & {'ITER_INC', 'ITER_ARITH', 'ITER_POSTINC'}) and ev.kind == 'call':
            tys = ev.argtys or []
            its = [a for i, a in enumerate(ev.args) if i < len(tys) and tys[i] and ('svp::FwIt' in tys[i] or 'svp::RaIt' in tys[i])]
            ints = [a for i, a in enumerate(ev.args) if i < len(tys) and tys[i] and tys[i].strip() in ('i64', 'i32', 'i16', 'i8')]
            # advance-style helpers: exactly one iterator and one count
            if len(its) == 1 and len(ints) == 1 and ' std::distance<' not in ' ' + pretty:
                self.advances += 1
                k = ints[0]
                it = its[0]
                ok = None
                if const_of(k) == 1:
                    ok = it in notend
                elif const_of(k) == 0:
                    ok = True
                else:
                    from .ir_bounds import cmp_atom
                    for (c, v) in st.conds:
                        a = cmp_atom(c)
                        if a is None:
                            continue
                        if a[1] in ('ult', 'ule') and v is True and a[2] == k and any(x[0] == 'ret' for x in sym.atoms_of(a[3])):
                            ok = True
                        if a[1] in ('ult',) and v is False and a[3] == k and any(x[0] == 'ret' for x in sym.atoms_of(a[2])):
                            ok = True
                    if ok is None:
                        ok = False
                bn = base_name(f.pretty)
                dk = (f.name, ev.ins.line if ev.ins is not None else 0, ok)
                if ok:
                    if dk not in self.reports:
                        self.reports[dk] = Report('R15.3', True, None, sample={'function': bn, 'advance_by': repr(k)[:60], 'config': self.cfg.name})
                elif self.public or tested:
                    if dk not in self.reports:
                        self.reports[dk] = Report(
                            'R15.3', False, {'function': bn, 'defect': 'multi-pass iterator advanced without evidence that it stays within the range'},
                            'R15.3: %s advances a caller-supplied forward iterator by %s (at %s) on a path with no comparison against '
                            'the end / no bound by the measured length: an empty or shorter range is walked past `last` (%s)'
                            % (bn, 'one' if const_of(k) == 1 else 'a count', where(ev, self.orc), self.cfg.name),
                            {'function': f.pretty[:300], 'config': self.cfg.name, 'file': 'source/include/gch/small_vector.hpp'})
        return (notend, pending, copies, tested)


def generator_loops(eng, cfg):
    """R15.2, structural: in every function that calls the generator directly."""
    orc = eng.oracle
    reports = []
    n = 0
    for f in irrules.gch_roots(eng):
        sites = []
        for b, ins in f.instrs():
            if ins.op in ('call', 'invoke') and ins.callee and orc.kind.get(ins.callee[1:]) == 'GEN':
                sites.append((b.label, ins))
        if not sites:
            continue
        n += 1
        bn = base_name(f.pretty)
        back, body = eng.loop_info(f)
        ok = True
        why = ''
        if len(sites) != 1:
            ok, why = False, 'the generator is called at %d sites' % len(sites)
        else:
            lb, ins = sites[0]
            hdrs = [h for h, blk in body.items() if lb in blk]
            if len(hdrs) != 1:
                ok, why = False, 'the generator call is not inside exactly one loop'
            else:
                h = hdrs[0]
                latches = [s for (s, d) in back if d == h]
                # every path header -> latch passes through the generator block
                seen = set()
                work = [h]
                bypass = False
                while work:
                    x = work.pop()
                    if x in seen or x == lb:
                        continue
                    seen.add(x)
                    if x in latches and x != lb:
                        bypass = True
                        break
                    for (s, k) in f.blocks[x].succs:
                        if s in body[h] and k != 'unwind':
                            work.append(s)
                if bypass:
                    ok, why = False, 'an iteration can complete without calling the generator'
                # the loop's exit test compares the induction pointer with begin + count
                hb = f.blocks[h]
                phis = [i for i in hb.instrs if i.op == 'phi']
                if ok and len(phis) < 1:
                    ok, why = False, 'no induction variable'
        key = {'function': bn, 'defect': why}
        if ok:
            reports.append(Report('R15.2', True, None, sample={'function': bn, 'config': cfg.name}))
        else:
            reports.append(Report('R15.2', False, key, 'R15.2: %s: %s (%s)' % (bn, why, cfg.name),
                                  {'function': f.pretty[:300], 'config': cfg.name}))
    return reports, n


class GenBound(sym.Rule):
    """R15.2 bound: the first loop test compares begin with begin + count * sizeof."""
    name = 'R15.2'

    def __init__(self, eng, cfg):
        self.orc = eng.oracle
        self.cfg = cfg
        self.found = {}

    def init(self, f, eng):
        return 0

    def on_event(self, rs, ev, st, f, eng):
        if ev.kind == 'branch' and rs == 0:
            pos, pol = sym.strip_not(ev.cond)
            a = single_atom(pos)
            if a is not None and a[0] == 'cmp' and a[1] == 'eq':
                d = a[2]
                # d = +- sizeof * count  with count one of the function's arguments
                if d[1] == 0 and len(d[2]) == 1 and d[2][0][0][0] == 'arg':
                    self.found[f.name] = d[2][0][0][1]
                    return 1
        return rs


def analyse_tu(eng, cfg):
    orc = eng.oracle
    rule = IterRule(eng, cfg)
    n = 0
    for f in irrules.gch_roots(eng):
        if 'svp::InIt<' not in (f.pretty or ''):
            continue
        eff = orc.effects.get(f.name, frozenset())
        if not (eff & {'ITER_DEREF', 'ITER_INC', 'ITER_EQ', 'ITER_NE', 'ITER_COPY'}):
            continue
        n += 1
        eng.walk(f, [rule])
    reports = list(rule.reports.values())
    greps, ng = generator_loops(eng, cfg)
    reports += greps
    gb = GenBound(eng, cfg)
    for f in irrules.gch_roots(eng):
        if any(ins.op in ('call', 'invoke') and ins.callee and orc.kind.get(ins.callee[1:]) == 'GEN'
               for b, ins in f.instrs()):
            eng.walk(f, [gb])
            bn = base_name(f.pretty)
            if f.name in gb.found:
                reports.append(Report('R15.2', True, None, sample={'function': bn, 'bound': 'begin + count (argument %d)' % gb.found[f.name],
                                                                   'config': cfg.name}))
            else:
                reports.append(Report('R15.2', False, {'function': bn, 'defect': 'loop bound is not begin + count'},
                                      'R15.2: %s: the generator loop is not bounded by begin + count (%s)' % (bn, cfg.name),
                                      {'function': f.pretty[:300], 'config': cfg.name}))
    fr = FwdRule(eng, cfg)
    nf = 0
    for f in irrules.gch_roots(eng):
        p = f.pretty or ''
        if 'svp::FwIt<' not in p and 'svp::RaIt<' not in p:
            continue
        eff = orc.effects.get(f.name, frozenset())
        if not (eff & {'ITER_INC', 'ITER_ARITH'}):
            continue
        head = p.split('(')[0]
        fr.public = 'gch::small_vector<' in head and 'detail::' not in head
        nf += 1
        eng.walk(f, [fr])
    reports += list(fr.reports.values())
    return {'reports': reports, 'functions': n, 'iterator_events': rule.events, 'generator_functions': ng,
            'multipass_functions': nf, 'advances': fr.advances}
