"""C10 — no reallocation while capacity suffices (DESIGN section 6, C10)."""
from .. import common
from . import parts


def run(tier):
    ck = common.Check('C10', tier)
    res = parts.run_parts(ck, tier, ir_parts=('ir_growth',), rule_filter=lambda p, x: x.rule.startswith('R10'))
    from .. import irrules
    irrules.run_canaries(ck, {'ir_growth': [('R10.1', 'canary_realloc_when_fits'), ('R10.2', 'canary_grow_unchecked')]})
    r = res.get('ir_growth', [])
    ck.floor('complete paths judged', sum(x['res']['judged_paths'] for x in r), 8000 if tier == 'quick' else 80000)
    ck.floor('erase-family entry points', sum(x['res']['erase_roots'] for x in r), 60 if tier == 'quick' else 600)
    ck.extra['paths_not_judged_here'] = sum(x['res']['unjudged_paths'] for x in r)
    ck.assumptions += ['size() <= capacity() and capacity() >= inline_capacity() on entry (C02)',
                       'helpers are expanded into the public entry points up to the summary bound (48 paths); a path through an '
                       'opaque helper that rewrites the container words is not judged at that level but in the helper itself']
    ck.finish(
        'For every complete path of push_back/emplace_back/insert/emplace/append/resize/reserve/assign/copy-assignment (helpers '
        'expanded) and of every internal function that tests the capacity itself: a path that installs a freshly allocated buffer '
        'carries a path condition implying old capacity < committed size (or < requested capacity for reserve); a path that commits '
        'a larger size into the existing buffer carries one implying new size <= old capacity; erase/pop_back/clear paths contain no '
        'allocator traffic and no write of the data pointer or capacity; at most one allocation per path for multi-pass inputs. '
        'Conditions are matched as linear atoms (capacity < X, capacity - size < n, size < capacity); no solver. '
        'Not decided: that the untouched prefix is not touched.')
