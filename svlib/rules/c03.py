"""C03 — element lifetimes are conserved (DESIGN section 6, C03)."""
from .. import common
from . import parts


def run(tier):
    ck = common.Check('C03', tier)
    res = parts.run_parts(ck, tier, ir_parts=('ir_lifetime', 'ir_size', 'ir_laws', 'ir_ctor'),
                          rule_filter=lambda part, x: part != 'ir_laws' or x.rule in ('R03.7', 'R03.8'))
    led = sum(x['res']['ledgered'] for x in res.get('ir_laws', []))
    ck.floor('normal-return paths with an exact lifetime ledger', led, 1500 if tier == 'quick' else 10000)
    ledu = sum(x['res']['ledgered_unwind'] for x in res.get('ir_laws', []))
    ck.floor('exceptional exits with an exact ledger of a temporary block', ledu, 1000 if tier == 'quick' else 8000)
    from .. import irrules
    irrules.run_canaries(ck, {'ir_size': [('R06.3', 'canary_size_first')]})
    r = res.get('ir_lifetime', [])
    ck.floor('construct/destroy wrappers', sum(x['res']['wrappers'] for x in r), 40 if tier == 'quick' else 400)
    ck.floor('releases of an entry buffer examined', sum(x['res']['releases'] for x in r), 2000 if tier == 'quick' else 20000)
    ck.floor('throw paths out of constructing loops', sum(x['res']['throw_paths'] for x in r), 100 if tier == 'quick' else 1000)
    ck.assumptions += ['element flavours with non-trivial destructors (trivially destructible ones have no destroy calls to order)',
                       'a constructor/destructor applied to a stack temporary of the calling function is not an element operation']
    ck.finish(
        'R03.1: every function compiled from the header that reaches an element constructor or destructor without passing through '
        'another header function is a pure construct/destroy wrapper (no loop, no container word written) - there is no stray '
        'placement-new or destructor call; R03.2: in every function whose own loop constructs elements into storage not yet covered by '
        'size, an exception leaves only after the range ending at the failing element was destroyed; R03.3: a buffer held on entry is '
        'released only after destroy of [data, data + size) of that container; R06.3/R03.5: size changes are ordered with the '
        'construction/destruction of the elements they cover; R03.7 (exact ledger on normal-return paths of the public modifiers, '
        'from the element range effects of svlib/rules/ir_laws.py): in storage that held live elements on entry elements are assigned '
        '(or destroyed and re-constructed), beyond it and in fresh buffers they are constructed - never the other way round; the '
        'elements that leave the sequence ([new end, old end) when it shrinks in place, the whole old buffer when it is relocated) are '
        'destroyed exactly, and nothing that stays is destroyed; R03.8 (every function compiled from the header, exceptional exits): '
        'what was constructed in a block obtained on the path that is not a container\'s buffer afterwards (the new buffer of a failed '
        'reallocation, a heap temporary) is tiled exactly by the destructions that follow - a roll-back handler that destroys a different '
        'count than was constructed is reported. Not decided: exact once-ness over whole histories.')
