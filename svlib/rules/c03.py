"""C03 — element lifetimes are conserved (DESIGN section 6, C03)."""
from .. import common
from . import parts


def run(tier):
    ck = common.Check('C03', tier)
    res = parts.run_parts(ck, tier, ir_parts=('ir_lifetime', 'ir_size'))
    from .. import irrules
    irrules.run_canaries(ck, {'ir_size': [('R06.3', 'canary_size_first')]})
    r = res.get('ir_lifetime', [])
    ck.floor('construct/destroy wrappers', sum(x['res']['wrappers'] for x in r), 40 if tier == 'quick' else 400)
    ck.floor('releases of an entry buffer examined', sum(x['res']['releases'] for x in r), 2000 if tier == 'quick' else 20000)
    ck.floor('throw paths out of constructing loops', sum(x['res']['throw_paths'] for x in r), 100 if tier == 'quick' else 1000)
    ck.assumptions += ['element flavours with non-trivial destructors (trivially destructible ones have no destroy calls to order)',
                       'a constructor/destructor applied to a stack temporary of the calling function is not an element operation']
    ck.finish(
        'R03.1: every function compiled from the header that reaches an element constructor or destructor without passing through '
        'another header function is a pure construct/destroy wrapper (no loop, no container word written) - there is no stray '
        'placement-new or destructor call; R03.2: in every function whose own loop constructs elements into storage not yet covered by '
        'size, an exception leaves only after the range ending at the failing element was destroyed; R03.3: a buffer held on entry is '
        'released only after destroy of [data, data + size) of that container; R06.3/R03.5: size changes are ordered with the '
        'construction/destruction of the elements they cover. Not decided: "no construct over a live element" inside the tail-split '
        'insert paths; exact once-ness over histories.')
