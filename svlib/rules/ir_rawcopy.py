"""R13.3: extent of raw copies.  Every memcpy/memmove issued by a function compiled from the
header copies count * sizeof (value_type) bytes, where the byte length is exactly the distance
between two of the function's pointer parameters or sizeof * a count parameter, starts at the
range's own begin addresses, and the pointer the function returns is begin + that length
(destination or source side) - or the function returns the destination begin and begin + length
is one of its parameters (backward move).  A single-element construct copies exactly sizeof."""
from .. import sym, irrules
from ..sym import const_of, single_atom, atom, lin_add, lin_sub, lin_scale, L
from ..irrules import Report, base_name, where

ESZ = {'TR': 8, 'int': 4, 'intp': 8}


class RawRule(sym.Rule):
    name = 'R13.3'

    def __init__(self, eng, cfg):
        self.orc = eng.oracle
        self.cfg = cfg
        self.s = ESZ[cfg.elem]
        self.reports = {}
        self.sites = 0

    def init(self, f, eng):
        return ()

    def on_event(self, rs, ev, st, f, eng):
        if ev.kind == 'call' and ev.callee and (ev.callee.startswith('llvm.memcpy') or ev.callee.startswith('llvm.memmove')) \
                and ev.fn is f and len(ev.args) >= 3:
            return rs + ((ev.args[0], ev.args[1], ev.args[2], ev.ins.line),)
        if ev.kind == 'call' and ev.callee and ev.callee.startswith('llvm.memset') and ev.fn is not None \
                and self.orc.is_gch(ev.fn.name) and len(ev.args) >= 1:
            dst = ev.args[0]
            roots = [a for a, c in dst[2]]
            if roots and not any(r[0] == 'alloca' for r in roots):
                # R13.4: a byte fill over element storage is not a value-initialisation for every
                # trivially default constructible type (null pointers to data members are -1)
                bn = base_name(ev.fn.pretty)
                dk = ('memset', ev.fn.name, ev.ins.line)
                self.sites += 1
                if dk not in self.reports:
                    self.reports[dk] = Report(
                        'R13.4', False, {'function': bn, 'defect': 'element storage is byte-filled instead of value-initialised'},
                        'R13.4: %s fills element storage with memset (line %d): for a trivially default constructible type whose '
                        'value-initialised representation is not all-zero bytes the elements differ from value_type () (%s)'
                        % (bn, ev.ins.line, self.cfg.name),
                        {'function': ev.fn.pretty[:300], 'config': self.cfg.name, 'file': 'source/include/gch/small_vector.hpp'})
            return rs
        return rs

    def on_exit(self, rs, kind, st, f, eng, rv=None):
        if kind != 'ret' or not rs:
            return
        bn = base_name(f.pretty)
        for (dst, src, ln, line) in rs:
            # aggregate copies of iterator objects etc. have small constant lengths and stack operands
            roots = [a for a, c in dst[2]] + [a for a, c in src[2]]
            if any(r[0] == 'alloca' for r in roots) and const_of(ln) is not None and not bn.startswith('construct'):
                continue
            self.sites += 1
            why = None
            k = const_of(ln)
            if k is not None:
                if k != self.s:
                    why = 'copies %d bytes where sizeof (value_type) is %d' % (k, self.s)
            else:
                q = sym.lin_div_exact(ln, self.s)
                args = [atom(('arg', i)) for i in range(len(f.params))]
                if q is None:
                    # a pointer difference: must be (param - param)
                    okd = any(ln == lin_sub(a, b) for a in args for b in args if a != b)
                    if not okd:
                        why = 'length is not a whole number of elements'
                elif not any(q == a for a in args) and not any(ln == lin_sub(a, b) for a in args for b in args if a != b):
                    why = 'length is not sizeof (value_type) x (a count parameter or the distance of two range parameters)'
                if why is None:
                    if not any(dst == a for a in args) and not any(lin_add(dst, ln) == a for a in args):
                        why = 'destination is neither a range begin parameter nor ends at one'
                    elif rv is not None and rv not in (lin_add(dst, ln), lin_add(src, ln), dst):
                        why = 'returned position is not begin + copied length'
            dk = (f.name, line, why)
            if dk in self.reports:
                continue
            if why is None:
                self.reports[dk] = Report('R13.3', True, None, sample={'function': bn, 'line': line, 'config': self.cfg.name})
            else:
                self.reports[dk] = Report('R13.3', False, {'function': bn, 'defect': why},
                                          'R13.3: %s: raw copy at line %d: %s (%s)' % (bn, line, why, self.cfg.name),
                                          {'function': f.pretty[:300], 'config': self.cfg.name, 'length': repr(ln)[:200],
                                           'file': 'source/include/gch/small_vector.hpp'})


def analyse_tu(eng, cfg):
    if cfg.elem not in ESZ:
        return {'reports': [], 'functions': 0, 'sites': 0}
    rule = RawRule(eng, cfg)
    n = 0
    for f in irrules.gch_roots(eng):
        if not any(ins.op == 'call' and ins.callee and (ins.callee.startswith('@llvm.memcpy') or ins.callee.startswith('@llvm.memmove')
                                                         or ins.callee.startswith('@llvm.memset'))
                   for b, ins in f.instrs()):
            continue
        n += 1
        eng.walk(f, [rule])
    return {'reports': list(rule.reports.values()), 'functions': n, 'sites': rule.sites}
