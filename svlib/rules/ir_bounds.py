"""C12 rules over IR.

R12.1  every allocation request is bounded by max_size(): the count passed to the allocator is a
       constant, the size/capacity of an existing container, max_size itself, or a term for
       which the path carries a guard against max_size (directly, as `max - size < n`, as
       `max == size` for n = size + 1, or through the saturating growth computation).
R12.2  the exception thrown by those guards is std::length_error; at() throws std::out_of_range.
R12.3  a narrowing conversion of a caller-supplied range length is dominated by a check against
       the narrow maximum.
"""
from .. import sym, cg, irrules
from ..sym import const_of, single_atom, atom, L, lin_sub, lin_add, lin_scale, is_lin
from ..irrules import Report, base_name, obj_of, where


def is_max_term(t):
    """max_size of some allocator, or the numeric bound get_max_size() takes the minimum with."""
    a = single_atom(t)
    if a is not None and a[0] == 'max_size':
        return True
    c = const_of(t)
    if c is not None and c >= 127 and (c + 1) & c == 0:
        return True      # 2^k - 1: numeric_limits<difference_type>::max ()
    return False


def field_init(t, eng, which):
    a = single_atom(t)
    if a is not None and a[0] == 'init' and eng.field_tag.get(a[1]) in which:
        return True
    return False


_UNS = {'slt': 'ult', 'sle': 'ule'}


def cmp_atom(c):
    """Comparison atom with signed predicates mapped to unsigned ones: sizes narrower than int
    are zero-extended before they are compared, so the signed comparison of the promoted values
    is the unsigned comparison of the sizes."""
    a = single_atom(c)
    if a is not None and a[0] == 'cmp':
        if a[1] in _UNS:
            return ('cmp', _UNS[a[1]], a[2], a[3])
        return a
    return None


def facts(st):
    """Path conditions as order facts in one normal form: ('lt', x, y) means x < y, ('le', x, y)
    means x <= y - so that `x < y`, `!(y <= x)`, and for the weak form `x <= y`, `!(y < x)` are the
    same fact however the source spelled the test."""
    out = []
    for (c, v) in st.conds:
        a = cmp_atom(c)
        if a is None:
            continue
        if a[1] == 'ult':
            out.append(('lt', a[2], a[3]) if v else ('le', a[3], a[2]))
        elif a[1] == 'ule':
            out.append(('le', a[2], a[3]) if v else ('lt', a[3], a[2]))
    return out


def known_lt(fs, x, y):
    return any(f[0] == 'lt' and f[1] == x and f[2] == y for f in fs)


def known_le(fs, x, y):
    return x == y or any(f[1] == x and f[2] == y for f in fs)


def bounded(t, st, eng, depth=0):
    """-> reason string or None"""
    c = const_of(t)
    if c is not None:
        return 'constant %d' % c
    if is_max_term(t):
        return 'max_size itself (saturated)'
    if field_init(t, eng, (1, 2)):
        return 'size/capacity of an existing container'
    fs = facts(st)
    # a comparison of an already computed SUM (size + count, 2 * capacity) with max_size () bounds the
    # wrapped value, not the mathematical one: it is a guard only for a quantity that was not computed
    # by adding non-constant terms (the overflow-safe spellings `max - size < count` etc. are below)
    summed = sum(1 for at, co in t[2] if co > 0) >= 2 or any(co >= 2 for at, co in t[2])
    for (kind, x, y) in fs:
        # t <= MAX  (spelled `!(max < t)` or `t <= max`)
        if kind == 'le' and x == t and is_max_term(y) and not summed:
            return 'guard n <= max_size'
        if kind == 'lt' and x == t and is_max_term(y) and not summed:
            return 'guard n < max_size'
        # s < MAX with t == s + 1  (spelled `!(max <= size)`; the `max == size` spelling is below)
        if kind == 'lt' and is_max_term(y) and lin_add(x, L(1)) == t \
                and not (sum(1 for at, co in x[2] if co > 0) >= 2 or any(co >= 2 for at, co in x[2])):
            return 'guard size < max_size (n = size + 1)'
        # k <= MAX - s  with t == s + k   (spelled `!(max - size < n)`)
        if kind == 'le' and y[2] and lin_add(x, y) != x:
            s_part = None
            for at, co in y[2]:
                if co == 1 and at[0] == 'max_size':
                    s_part = lin_sub(atom(at), y)
                    break
            if s_part is None and y[1] and is_max_term(L(y[1])):
                s_part = lin_sub(L(y[1]), y)
            if s_part is not None and lin_add(s_part, x) == t:
                return 'guard max_size - size < n is false'
    for (cond, v) in st.conds:
        a = cmp_atom(cond)
        if a is None:
            continue
        pred, x, y = a[1], a[2], a[3]
        # MAX == s is false, t == s + 1
        if pred == 'eq' and v is False:
            d = x   # canonical: d == 0
            for sign in (1, -1):
                dd = lin_scale(d, sign)
                # dd = M - s
                for at, co in dd[2]:
                    if co == 1 and at[0] == 'max_size':
                        s_part = lin_sub(atom(at), dd)
                        if lin_add(s_part, L(1)) == t:
                            return 'guard max_size == size is false (n = size + 1)'
                if dd[1] > 0 and is_max_term(L(dd[1])):
                    s_part = lin_sub(L(dd[1]), dd)
                    if lin_add(s_part, L(1)) == t:
                        return 'guard max_size == size is false (n = size + 1)'
    # doubling: t == 2*c with no-overflow guard  not (MAX - c <= c)
    half = sym.lin_div_exact(t, 2)
    if half is not None and depth < 2:
        # doubling without overflow: capacity < max - capacity  (spelled `!(max - cap <= cap)`)
        for (kind, x, y) in facts(st):
            if kind == 'lt' and x == half:
                for at, co in y[2]:
                    if co == 1 and at[0] == 'max_size' and lin_sub(atom(at), y) == half:
                        return 'doubling guarded by capacity < max_size - capacity'
                if y[1] > 0 and is_max_term(L(y[1])) and lin_sub(L(y[1]), y) == half:
                    return 'doubling guarded by capacity < max_size - capacity'
    return None


class BoundsRule(sym.Rule):
    name = 'R12.1'

    def __init__(self, eng, cfg):
        self.eng = eng
        self.cfg = cfg
        self.orc = eng.oracle
        self.reports = {}
        self.sites = 0
        self.truncs = 0
        self.callers = irrules.callers_map(eng)

    def init(self, f, eng):
        return None

    def on_event(self, rs, ev, st, f, eng):
        if ev.kind in ('call', 'throw') and ev.callee and self.orc.kind.get(ev.callee) == 'ALLOC' \
                and ev.args and len(ev.args) >= 2:
            n = ev.args[1]
            why = bounded(n, st, eng)
            an = single_atom(n)
            if why is None and an is not None and an[0] == 'arg' and eng.summary(f.name) is not sym.OPAQUE \
                    and any(self.orc.is_gch(c) for c in self.callers.get(f.name, ())):
                why = 'delegated: the count is this helper\'s own parameter and the helper is expanded in its callers'
            site = where(ev, self.orc)
            bn = base_name(f.pretty)
            dk = (f.name, site, why is None)
            if dk not in self.reports:
                self.sites += 1
                if why is not None:
                    self.reports[dk] = Report('R12.1', True, None,
                                              sample={'function': bn, 'allocation': site, 'bounded_by': why,
                                                      'config': self.cfg.name})
                else:
                    self.reports[dk] = Report(
                        'R12.1', False, {'function': bn, 'defect': 'unbounded allocation request'},
                        'R12.1: %s asks the allocator for a count that no path condition bounds by max_size() '
                        '(no length_error guard dominates the allocation at %s) (%s)' % (bn, site, self.cfg.name),
                        {'function': f.pretty[:300], 'function_line': f.src_line, 'count': repr(n)[:300],
                         'path_conditions': [repr(c)[:200] + '=' + str(v) for c, v in st.conds][-6:],
                         'config': self.cfg.name, 'file': 'source/include/gch/small_vector.hpp'})
            return rs
        if ev.kind == 'trunc':
            v = ev.val
            ins = ev.ins
            # caller-supplied length: a difference of two of the function's own pointer arguments,
            # or the result of an opaque call on caller iterators (std::distance, operator-)
            prov = None
            ats = [a for a, c in v[2]]
            argp = [a for a in ats if a[0] == 'arg']
            if len(ats) == 2 and len(argp) == 2 and v[1] == 0 and sorted(c for a, c in v[2]) == [-1, 1]:
                prov = 'difference of two iterator arguments'
            a1 = single_atom(v)
            if a1 is not None and a1[0] == 'ret':
                prov = 'result of a call on caller iterators'
            if prov is None:
                return rs
            import re
            m = re.match(r'i(\d+)$', ins.ty2 or '')
            if not m:
                return rs
            kmax = (1 << int(m.group(1))) - 1
            ok = False
            for (cond, val) in st.conds:
                a = cmp_atom(cond)
                if a and a[1] == 'ult' and val is False and const_of(a[2]) is not None \
                        and const_of(a[2]) <= kmax and a[3] == v:
                    ok = True
            bn = base_name(f.pretty)
            dk = ('trunc', f.name, ins.line, ok)
            if dk not in self.reports:
                self.truncs += 1
                if ok:
                    self.reports[dk] = Report('R12.3', True, None,
                                              sample={'function': bn, 'line': ins.line, 'to': ins.ty2,
                                                      'provenance': prov, 'config': self.cfg.name})
                else:
                    self.reports[dk] = Report(
                        'R12.3', False, {'function': bn, 'defect': 'unchecked narrowing of a range length'},
                        'R12.3: %s narrows a caller-supplied range length to %s without a dominating check against '
                        'the narrow maximum (line %d; %s)' % (bn, ins.ty2, ins.line, self.cfg.name),
                        {'function': f.pretty[:300], 'line': ins.line, 'config': self.cfg.name,
                         'file': 'source/include/gch/small_vector.hpp'})
        return rs


def analyse_tu(eng, cfg):
    orc = eng.oracle
    rule = BoundsRule(eng, cfg)
    nfun = 0
    # the narrowing rule recognises a caller-supplied length by the function's own parameters, so
    # with an 8-bit size_type every function is walked on its own as well
    for f in (irrules.gch_roots(eng) if cfg.sizet == 'u8' else irrules.maximal_roots(eng)):
        if 'ALLOC' not in orc.effects.get(f.name, ()) and cfg.sizet != 'u8':
            continue
        nfun += 1
        eng.walk(f, [rule])
    reports = list(rule.reports.values())
    # R12.2: thrown types
    nthrow = 0
    for f in irrules.gch_roots(eng):
        for b, ins in f.instrs():
            if ins.op in ('call', 'invoke') and ins.callee and orc.kind.get(ins.callee[1:]) == 'CXA_THROW':
                nthrow += 1
                t = orc.throw_type.get((f.name, id(ins)))
                if t not in ('THROW_LENGTH', 'THROW_RANGE'):
                    reports.append(Report('R12.2', False, {'function': base_name(f.pretty), 'defect': 'throws another type'},
                                          'R12.2: %s throws something other than std::length_error / std::out_of_range (line %d)'
                                          % (base_name(f.pretty), ins.line), {'config': cfg.name}))
                else:
                    reports.append(Report('R12.2', True, None, sample={'function': base_name(f.pretty), 'throws': t,
                                                                      'config': cfg.name}))
    for n, f in eng.mod.funcs.items():
        if not orc.is_gch(n):
            continue
        bn = base_name(f.pretty)
        th = orc.throws.get(n, frozenset())
        if bn == 'at' and '::small_vector<' in f.pretty:
            ok = 'THROW_RANGE' in th and 'THROW_LENGTH' not in th
            reports.append(Report('R12.2', ok, {'function': 'at', 'defect': 'does not throw out_of_range'},
                                  None if ok else 'R12.2: at() cannot throw std::out_of_range (%s)' % cfg.name,
                                  {'config': cfg.name}, sample={'function': 'at', 'throws': sorted(th), 'config': cfg.name}))
    return {'reports': reports, 'functions': nfun, 'allocation_sites': rule.sites, 'truncs': rule.truncs,
            'throw_sites': nthrow}
