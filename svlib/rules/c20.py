"""C20 — the shipped debugger visualisers show what size(), capacity() and iteration report.

Running GDB or Visual Studio is dynamic; what is decided here is the structural content
(engines E5 svlib/artifact.py + E4 svlib/norm.py), for every instantiation of a small corpus
(N = 0 and N > 0; empty-base and stateful allocator; int and class elements; iterator and
const_iterator) under every language standard of the tier:

R20.1  every member path the GDB pretty-printer reads (`val['m_data']`, cast to
       `fields ()[0]` of its type, `['m_data_ptr']`, `['m_size']`, `['m_capacity']`, iterator
       `['m_ptr']`) resolves under GDB's lookup rules in the debug-info record clang emits for the
       instantiation, and resolves to *the very bytes* (offset and width) that the -O2 normal forms
       of `size ()`, `capacity ()`, `data ()` and `*it` load.  The quantity each path feeds
       (length / capacity / first element / element count / iterator target) is taken from the
       printer's own code (symbolic interpretation of the printer classes), so a printer that reads
       `m_capacity` for the length is a violation, and so is a header whose `size ()` stops reading
       the word the printer shows.
R20.2  the regexes the pretty-printer registers select the right printer class for the DWARF type
       names of those instantiations (first match in registration order, `re.search`, as
       gdb.printing.RegexpCollectionPrettyPrinter does), for containers, iterators and
       const_iterators; the natvis `Type Name` patterns match likewise.
R20.3  every natvis expression is compiled, as C++, in the scope of the object (that *is* C++ member
       lookup; `-fno-access-control` stands for the debugger ignoring access): it must be well-formed
       and its -O2 normal form must be the field `size ()` / `capacity ()` / `data ()` / `*it` loads;
       the condition shown as "(inlined)" must be `inlined ()`'s normal form (under the invariant
       N <= capacity, which C02 establishes) and the one shown as "(allocated)" its negation;
       `m_alloc` must resolve to the allocator where the allocator is a data member (not an
       empty base).

Not decided: the text a debugger prints; behaviour of MSVC's own layout (the natvis paths are
resolved by name, the layout used for agreement is the Itanium one).
A visualiser file that cannot be parsed / a printer construct that is not understood is
analysis-broken; a member path that no longer exists in the header's layout is a violation.
"""
import re

from .. import artifact, common, norm

PP_REL = 'source/support/python/gch/gdb/prettyprinters/small_vector/prettyprinter.py'
NV_REL = 'source/support/visualstudio/small_vector.natvis'
HDR = common.HEADER_REL

ORACLE = {'size': ('svn_m_size', 'size ()'), 'capacity': ('svn_m_capacity', 'capacity ()'),
          'data': ('svn_m_data', 'data ()')}


def oracle_fields(m, failed, inst, std):
    """The fields the public observers load: {'size': (k, off, nbytes) | None, ...} and their
    normal forms."""
    out = {}
    forms = {}
    for role, (w, spelled) in list(ORACLE.items()) + [('target', ('svn_it_deref', '&*it')),
                                                      ('ctarget', ('svn_cit_deref', '&*cit')),
                                                      ('begin', ('svn_m_begin', 'begin ().base ()'))]:
        if w in failed:
            raise common.AnalysisBroken('C20: observer `%s` does not compile for %s -std=%s: %s'
                                        % (spelled, inst.V, std, failed[w]))
        nf = m.normal_form(w)
        forms[role] = nf
        out[role] = norm.pure_field(nf.expr)
    return out, forms


def check_printer(ck, model, inst, std, m, fields, forms, counters):
    rec = m.param_record('svn_m_size', 0)
    irec = m.param_record('svn_it_deref', 0)
    crec = m.param_record('svn_cit_deref', 0)
    where = {'instantiation': inst.V, 'std': std, 'dwarf_type': rec.qualified}

    def alt_names(n):
        # clang 14 spells unsigned template arguments `3U`; g++ spells them `3`
        return sorted(set([n, re.sub(r'\b(\d+)U\b', r'\1', n)]))

    # ---- R20.2: which printer class does gdb pick for each type name
    chosen = {}
    for kind, r in (('container', rec), ('iterator', irec), ('iterator', crec)):
        for tn in alt_names(r.qualified):
            k, reg = artifact.first_match(model, tn)
            counters['regex'] += 1
            key = {'artefact': PP_REL, 'construct': 'add_printer regex', 'for': kind}
            if reg is None:
                ck.violation('R20.2', key,
                             '%s: no registered printer regex %s matches the type name `%s` (%s of %s); the %s would be '
                             'shown raw' % (PP_REL, [x[1] for x in model.registrations], tn, kind, inst.V, kind),
                             dict(where, typename=tn))
                continue
            ckind = model.classes[reg[2]]['kind']
            if ckind != kind:
                ck.violation('R20.2', key,
                             '%s: type name `%s` (%s of %s) is first matched by regex `%s` → class %s, which is the %s '
                             'printer, not the %s printer' % (PP_REL, tn, kind, inst.V, reg[1], reg[2], ckind, kind),
                             dict(where, typename=tn, regex=reg[1]))
                continue
            chosen[r.tid] = reg[2]
            ck.ok('R20.2', sample=dict(where, typename=tn, regex=reg[1], printer_class=reg[2], kind=kind))
    # ---- R20.1: member paths
    for kind, r, okey in (('container', rec, None), ('iterator', irec, 'target'), ('iterator', crec, 'ctarget')):
        classes = [c for c, i in model.classes.items() if i['kind'] == kind]
        cname = chosen.get(r.tid) or (classes[0] if classes else None)
        if cname is None:
            raise common.AnalysisBroken('C20: %s registers no %s printer' % (PP_REL, kind))
        for rd in model.classes[cname]['reads']:
            path = artifact.steps_str(rd.steps)
            key = {'artefact': PP_REL, 'printer': cname, 'shows': rd.role, 'path': path}
            role = okey if kind == 'iterator' else rd.role
            spelled = {'size': 'size ()', 'capacity': 'capacity ()', 'data': 'data ()',
                       'target': '*it', 'ctarget': '*it (const_iterator)'}[role]
            try:
                loc, deref = artifact.gdb_resolve(r, rd.steps)
            except artifact.Unresolved as e:
                ck.violation('R20.1', key,
                             '%s: %s reads `%s` (%s) but that path does not resolve in `%s` as laid out by %s: %s'
                             % (PP_REL, cname, path, rd.use, r.qualified, HDR, e), dict(where, reason=str(e)))
                continue
            counters['paths'] += 1
            f = fields[role]
            want_kind = 'pointer' if role in ('data', 'target', 'ctarget') else 'int'
            if f is None:
                ck.violation('R20.1', dict(key, observer=spelled),
                             '%s: `%s` no longer reads a single field (normal form `%s`), so the value %s shows from `%s` '
                             'cannot be what %s reports (%s)' % (HDR, spelled, norm.show(forms[role].expr), cname, path,
                                                                 spelled, inst.V), where)
            elif (loc.offset, loc.size) != (f[1], f[2]) or f[0] != 0 or loc.kind != want_kind:
                ck.violation('R20.1', dict(key, observer=spelled),
                             '%s: %s shows the %s from `%s` = bytes [%d,+%d) (%s) of the object, but `%s` loads bytes '
                             '[%d,+%d) (normal form `%s`) for %s'
                             % (PP_REL, cname, rd.role, path, loc.offset, loc.size or 0, loc.kind, spelled, f[1], f[2],
                                norm.show(forms[role].expr), inst.V),
                             dict(where, printer_offset=loc.offset, printer_size=loc.size, observer_field=f))
            else:
                ck.ok('R20.1', sample=dict(where, printer=cname, shows=rd.role, path=path, offset=loc.offset,
                                           width=loc.size, agrees_with=spelled))
    # data () and begin () load the same word (the printer's first element is where iteration starts)
    if fields['data'] is not None and fields['data'] == fields['begin']:
        ck.ok('R20.1', sample=dict(where, statement='data () and begin ().base () load the same word', field=fields['data']))
    else:
        ck.violation('R20.1', {'artefact': HDR, 'observer': 'begin ()'},
                     '%s: `begin ().base ()` (`%s`) and `data ()` (`%s`) do not load the same word for %s, so the element '
                     'sequence a visualiser shows from the data pointer is not what iteration visits'
                     % (HDR, norm.show(forms['begin'].expr), norm.show(forms['data'].expr), inst.V), where)
    return rec, irec, crec


def natvis_wrappers(types, rec_names):
    """Wrappers for every natvis expression of the Type entries that match the container /
    iterator / const_iterator type names."""
    W = norm.Wrapper
    ws = []
    plan = []
    for tk, (params, tnames) in rec_names.items():
        for ti, t in enumerate(types):
            if not all(artifact.natvis_matches(t.pattern, n) for n in tnames):
                continue
            for ii, it in enumerate(t.items):
                base = 'svn_nv_%s_%d_%d' % (tk, ti, ii)
                cx = artifact.natvis_to_cxx(it['expr'], 'v')
                if it['role'][1] == 'allocator' and it['mode'] == 'value':
                    ws.append(W(base + '_adr', params, '&(%s)' % cx))
                    ws.append(W(base + '_alc', params,
                                'std::is_same<typename std::decay<decltype ((%s))>::type, V::allocator_type>::value' % cx))
                elif tk != 'c' and it['role'] == ('label', None):
                    ws.append(W(base + '_adr', params, '&(%s)' % cx))    # an element: compare its address
                else:
                    ws.append(W(base + '_val', params, '(%s)' % cx))
                plan.append((tk, ti, ii, base, t, it))
            break   # first matching Type entry
    return ws, plan


def check_natvis(ck, types, inst, std, m, fields, forms, recs, counters):
    rec, irec, crec = recs
    where = {'instantiation': inst.V, 'std': std}
    rec_names = {
        'c': ('V& v', [rec.qualified]),
        'i': ('V::iterator& v', [irec.qualified]),
        'k': ('V::const_iterator& v', [crec.qualified]),
    }
    # R20.2 (natvis side): a Type entry matches each name
    for tk, (params, tnames) in rec_names.items():
        for tn in tnames:
            counters['regex'] += 1
            hit = [t for t in types if artifact.natvis_matches(t.pattern, tn)]
            kind = 'container' if tk == 'c' else 'iterator'
            is_container = lambda t: any(i['role'] == ('label', 'data') for i in t.items)   # noqa: E731
            if not hit:
                ck.violation('R20.2', {'artefact': NV_REL, 'construct': 'Type Name', 'for': kind},
                             '%s: no <Type Name=…> pattern %s matches `%s` (%s of %s)'
                             % (NV_REL, [t.pattern for t in types], tn, kind, inst.V), dict(where, typename=tn))
            elif is_container(hit[0]) != (kind == 'container'):
                ck.violation('R20.2', {'artefact': NV_REL, 'construct': 'Type Name', 'for': kind},
                             '%s: `%s` (%s of %s) is matched by <Type Name="%s">, which is the visualiser of the other kind'
                             % (NV_REL, tn, kind, inst.V, hit[0].pattern), dict(where, typename=tn))
            else:
                ck.ok('R20.2', sample=dict(where, typename=tn, natvis_type=hit[0].pattern, kind=kind))
    ws, plan = natvis_wrappers(types, rec_names)
    nm, nfailed = norm.compile_wrappers('natvis-' + inst.tag, norm.observer_prelude(inst), ws, std=std,
                                        flags=norm.O2_FLAGS + ('-fno-access-control',))
    ck.unit('natvis-%s/%s' % (inst.tag, std))
    cap = fields['capacity']
    ranges = None
    if cap is not None:
        ranges = {('mem', (norm.arg(0) + cap[1]).key(), cap[2]): (inst.N, None)}
    try:
        inl = m.normal_form('svn_m_inlined').expr
    except common.AnalysisBroken as e:
        # the observer is no longer a closed form the normaliser understands (e.g. the raw word does
        # not hold the capacity any more): the inlined/allocated announcements cannot be compared,
        # the by-field comparisons below still are
        inl = None
        ck.note('inlined () has no normal form for %s: %s' % (inst.V, str(e)[:200]))
    for tk, ti, ii, base, t, it in plan:
        role = it['role']
        expr = it['expr']
        key = {'artefact': NV_REL, 'type': t.pattern, 'where': it['where'], 'expression': expr}
        tdesc = {'c': inst.V, 'i': 'iterator of ' + inst.V, 'k': 'const_iterator of ' + inst.V}[tk]

        def nf(suffix):
            if base + suffix in nfailed:
                return None
            try:
                return nm.normal_form(base + suffix)
            except common.AnalysisBroken:
                return None

        # the allocator item: only meaningful where the allocator is a data member
        if role[1] == 'allocator':
            resolved = (base + '_adr') not in nfailed if it['mode'] == 'value' else (base + '_val') not in nfailed
            if inst.ebo:
                counters['ebo_alloc_unresolved' if not resolved else 'ebo_alloc_resolved'] += 1
                continue
            if not resolved:
                ck.violation('R20.3', key,
                             '%s: expression `%s` (%s) is ill-formed in the scope of %s, whose allocator is a data member: %s'
                             % (NV_REL, expr, it['where'], tdesc, nfailed.get(base + '_adr') or nfailed.get(base + '_val')),
                             where)
                continue
            counters['paths'] += 1
            if it['mode'] == 'value':
                a = nf('_alc')
                if a is not None and a.expr == norm.TRUE:
                    ck.ok('R20.3', sample=dict(where, expression=expr, where_=it['where'], resolves_to='the allocator_type member'))
                else:
                    ck.violation('R20.3', key, '%s: `%s` (%s) resolves in %s but is not the container\'s allocator_type object'
                                 % (NV_REL, expr, it['where'], tdesc), where)
            else:
                ck.ok('R20.3', sample=dict(where, expression=expr, where_=it['where'], resolves=True))
            continue
        need = '_adr' if (tk != 'c' and role == ('label', None)) else '_val'
        if base + need in nfailed:
            ck.violation('R20.3', key,
                         '%s: expression `%s` (%s) does not resolve by C++ member lookup in the scope of %s as declared by %s: %s'
                         % (NV_REL, expr, it['where'], tdesc, HDR, nfailed[base + need]), where)
            continue
        got = nf(need)
        if got is None:
            raise common.AnalysisBroken('C20: natvis expression `%s` compiles for %s but its -O2 form is not a closed form'
                                        % (expr, tdesc))
        counters['paths'] += 1
        if tk == 'c' and role[0] == 'label' and role[1] in ORACLE:
            f = fields[role[1]]
            spelled = ORACLE[role[1]][1]
            if f is not None and got.expr == norm.field(*f):
                ck.ok('R20.3', sample=dict(where, expression=expr, where_=it['where'], normal_form=norm.show(got.expr),
                                           agrees_with=spelled))
            else:
                ck.violation('R20.3', dict(key, observer=spelled),
                             '%s: `%s` (%s) reads `%s` but `%s` reads `%s` for %s: the visualiser does not show what %s reports'
                             % (NV_REL, expr, it['where'], norm.show(got.expr), spelled, norm.show(forms[role[1]].expr),
                                inst.V, spelled), where)
        elif tk == 'c' and role[0] == 'state':
            if role[1] is None:
                raise common.AnalysisBroken('C20: %s: cannot tell which state the DisplayString with condition `%s` announces'
                                            % (NV_REL, expr))
            if inl is None:
                ck.note('state announcement `%s` not compared: inlined () has no normal form' % expr)
                continue
            if not isinstance(got.expr, norm.Pred) or not isinstance(inl, norm.Pred):
                raise common.AnalysisBroken('C20: condition `%s` or inlined () did not normalise to a comparison' % expr)
            want = inl if role[1] == 'inlined' else norm.not_(inl)
            a = norm.renorm(got.expr, ranges)
            b = norm.renorm(want, ranges)
            if a == b:
                ck.ok('R20.3', sample=dict(where, expression=expr, announces=role[1], normal_form=norm.show(a),
                                           inlined_normal_form=norm.show(inl), invariant='N <= capacity'))
            else:
                ck.violation('R20.3', dict(key, observer='inlined ()'),
                             '%s: the condition `%s` under which "(%s)" is displayed normalises to `%s`, but %s`inlined ()` is `%s` '
                             '(both under the invariant N <= capacity) for %s'
                             % (NV_REL, expr, role[1], norm.show(a), '' if role[1] == 'inlined' else '!', norm.show(b), inst.V), where)
        elif tk in ('i', 'k'):
            f = fields['target' if tk == 'i' else 'ctarget']
            if f is not None and got.expr == norm.field(*f):
                ck.ok('R20.3', sample=dict(where, expression=expr, where_=it['where'], normal_form=norm.show(got.expr),
                                           agrees_with='&*it'))
            else:
                ck.violation('R20.3', dict(key, observer='*it'),
                             '%s: `%s` (%s) reads `%s` but dereferencing the %s goes through `%s`'
                             % (NV_REL, expr, it['where'], norm.show(got.expr), tdesc,
                                norm.show(forms['target' if tk == 'i' else 'ctarget'].expr)), where)
        else:
            ck.ok('R20.3', sample=dict(where, expression=expr, where_=it['where'], resolves=True,
                                       normal_form=norm.show(got.expr)))


def collect(ck, tier):
    model = artifact.analyse_printer()
    types = artifact.parse_natvis()
    insts = norm.corpus(tier)
    stds = norm.stds(tier)
    norm.prefetch_observers(insts, stds)
    counters = {'paths': 0, 'regex': 0, 'ebo_alloc_unresolved': 0, 'ebo_alloc_resolved': 0}
    jobs = [(i, s) for i in insts for s in stds]
    prepared = {}
    for inst, std in jobs:
        m, failed = norm.observers(inst, std)
        ck.unit('observers-%s/%s' % (inst.tag, std))
        fields, forms = oracle_fields(m, failed, inst, std)
        recs = check_printer(ck, model, inst, std, m, fields, forms, counters)
        prepared[(inst.tag, std)] = (m, fields, forms, recs)

    # natvis TUs in parallel (compile only), then evaluate sequentially
    def pre(j):
        inst, std = j
        m, fields, forms, recs = prepared[(inst.tag, std)]
        rec, irec, crec = recs
        rec_names = {'c': ('V& v', [rec.qualified]), 'i': ('V::iterator& v', [irec.qualified]),
                     'k': ('V::const_iterator& v', [crec.qualified])}
        ws, plan = natvis_wrappers(types, rec_names)
        try:
            norm.compile_wrappers('natvis-' + inst.tag, norm.observer_prelude(inst), ws, std=std,
                                  flags=norm.O2_FLAGS + ('-fno-access-control',))
        except common.AnalysisBroken:
            pass
    common.pmap(pre, jobs)
    for inst, std in jobs:
        m, fields, forms, recs = prepared[(inst.tag, std)]
        check_natvis(ck, types, inst, std, m, fields, forms, recs, counters)
    nu = len(jobs)
    ck.floor('C20 member paths resolved (printer reads + natvis expressions)', counters['paths'], 15 * nu)
    ck.floor('C20 type-name patterns checked (printer regexes + natvis Type names)', counters['regex'], 6 * nu)
    ck.extra['c20'] = {
        'printer': {'collection': model.collection, 'registrations': model.registrations,
                    'classes': dict((c, {'kind': i['kind'], 'display_hint': i['hint'],
                                         'reads': [{'shows': r.role, 'path': artifact.steps_str(r.steps), 'use': r.use}
                                                   for r in i['reads']]}) for c, i in model.classes.items())},
        'natvis': [{'pattern': t.pattern, 'expressions': [(i['where'], i['expr']) for i in t.items]} for t in types],
        'instantiations': len(insts), 'standards': stds, 'paths_resolved': counters['paths'],
        'patterns_checked': counters['regex'],
    }
    if counters['ebo_alloc_unresolved']:
        ck.note('natvis `m_alloc` (Item [allocator] and its Condition) does not resolve in the %d empty-base-allocator '
                'units (e.g. std::allocator): expected by DESIGN R20.3, which requires it only where the allocator is a data '
                'member.  The Item carries no Optional="true"; whether Visual Studio then drops only the item or the whole '
                '<Type> entry cannot be decided without the debugger — not claimed.' % counters['ebo_alloc_unresolved'])
    for a in ("GDB's documented semantics: Value.__getitem__(name) looks through base classes; Type.fields() lists base "
              "classes first, then data members, in DWARF order; Value.cast to a base class yields the sub-object; "
              "RegexpCollectionPrettyPrinter picks the first sub-printer whose regex `search`es the type's tag",
              'natvis expressions follow C++ member lookup in the scope of the object with access checks disabled; `*` in a '
              'Type Name matches any template-argument list',
              'type names are those of clang 14 DWARF (and the same with g++\'s spelling of unsigned template arguments)',
              'LLVM 14 -O2 as the normaliser of loop-free observers (E4)',
              norm.TOOLCHAIN_NOTE,
              'invariant N <= capacity (C02 R02.4) when comparing the natvis inlined condition with inlined ()'):
        if a not in ck.assumptions:
            ck.assumptions.append(a)


def run(tier):
    ck = common.Check('C20', tier, level='other')
    collect(ck, tier)
    ck.finish(
        'Static cross-artefact agreement: the GDB pretty-printer (Python ast) and the natvis file (XML) are parsed without a '
        'debugger; every member path they use is resolved — under GDB\'s lookup rules in clang\'s debug-info records, resp. '
        'by compiling the natvis expression as C++ in the object\'s scope — for every instantiation of the corpus, and must '
        'denote exactly the bytes the -O2 normal forms of size(), capacity(), data()/begin() and iterator dereference load; '
        'the registered regexes / natvis type patterns must select the right visualiser for the DWARF type names.',
        trusted_base=['clang++ 14 debug info and -O2 normal forms', 'svlib/norm.py IR evaluator and struct layout',
                      'svlib/artifact.py model of gdb.Value/gdb.Type lookup'],
        checker_cmd='bin/svcheck C20 --tier ' + tier)
