"""C04 — allocations are paired; the inline buffer avoids the allocator (DESIGN section 6, C04)."""
from .. import common, corpus, irrules


def run(tier):
    ck = common.Check('C04', tier)
    from . import parts
    res_all = parts.run_parts(ck, tier, ir_parts=('ir_alloc', 'ir_steal', 'ir_growth', 'ir_ctor'),
                              rule_filter=lambda p, x: p in ('ir_alloc', 'ir_ctor') or x.rule in ('R04.6', 'R04.3', 'R10.1'))
    res = res_all.get('ir_alloc', [])
    sites = sum(r['res']['sites'] for r in res)
    funs = sum(r['res']['functions'] for r in res)
    ck.floor('allocation sites (function x site, summed over TUs)', sites, 200 if tier == 'quick' else 2000)
    ck.extra['allocation_sites'] = sites
    ck.extra['functions_walked'] = funs
    # R02.7 (ir_pair, assert flavour): a block from the allocator is committed only with a capacity shown to
    # exceed the inline capacity - otherwise the container looks inlined and the block is never released
    from .c02 import assert_flavour
    res7 = corpus.run_over(assert_flavour(corpus.corpus(tier)), 'svlib.rules.ir_pair', 'analyse_tu')
    for r in res7:
        if r['ok']:
            r['res']['reports'] = [x for x in r['res']['reports'] if x.rule == 'R02.7']
    irrules.aggregate(ck, res7)
    ck.floor('commits of a fresh block judged against the inline capacity (R02.7)',
             sum(1 for r in res7 if r['ok'] for x in r['res']['reports'] if x.rule == 'R02.7'), 100 if tier == 'quick' else 1000)
    rc = res_all.get('ir_ctor', [])
    ck.floor('constructors walked for the clean-up rule (R04.7)', sum(x['res']['constructors'] for x in rc), 300 if tier == 'quick' else 3000)
    ck.floor('constructors in which a callee installs state and the clean-up is present (R04.7)',
             sum(1 for x in rc for y in x['res']['reports'] if y.ok), 6 if tier == 'quick' else 60)
    irrules.run_canaries(ck, {'ir_alloc': [('R04.1', 'canary_leak_on_throw'), ('R04.5', 'canary_free_inline')]},
                         silent=('canary_ok_alloc',))
    irrules.run_canaries(ck, {'ir_pair': [('R02.7', 'canary_fresh_unproved')]}, silent=('canary_ok_alloc',), assert_flavour=True)
    ck.assumptions += ['Allocator requirements: deallocate/copy/== do not throw',
                       'clang 14 -O0 lowering of try/catch/noexcept (invoke/landingpad/terminate pads)',
                       'summary inlining bound: loop-free callees with <= 10 paths are expanded in place, others are opaque with may-throw/may-write summaries']
    ck.finish(
        'Path-sensitive typestate over unoptimised LLVM IR of every instantiated gch:: function that can reach '
        'an allocation: from each allocator call (A::allocate / allocator_traits<std::allocator>::allocate, '
        'identified as external probe primitives) every CFG path, including invoke unwind edges and catch '
        'handlers, must either store the pointer and the same count into one container\'s (m_data_ptr, m_capacity) '
        'pair, return/hand the pointer over, or pass it to deallocate with the same allocator object and the same '
        'count; in constructor context a commit does not discharge an unwind exit. Decides the pairing clause per '
        'operation; does not decide exact-once over whole histories. R04.5: only blocks obtained on the path, or the entry buffer under an established capacity > inline capacity, are handed to deallocate (never the inline buffer). R04.7: an exception leaving a constructor body after a callee installed a buffer / constructed elements in the object is preceded by the object\'s destructor (delegating constructor) or a release. R02.7: a block obtained from the allocator is committed only with a capacity that the path (with the header\'s asserts and the entry invariant capacity >= N) shows to exceed the inline capacity, so that it is recognised as an allocation and released later. R04.6: a heap buffer changes owner only together with its allocator or between containers whose allocators compared equal / are always equal.')
