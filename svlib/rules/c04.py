"""C04 — allocations are paired; the inline buffer avoids the allocator (DESIGN section 6, C04)."""
from .. import common, corpus, irrules


def run(tier):
    ck = common.Check('C04', tier)
    cfgs = corpus.corpus(tier)
    res = corpus.run_over(cfgs, 'svlib.rules.ir_alloc', 'analyse_tu')
    irrules.aggregate(ck, res)
    sites = sum(r['res']['sites'] for r in res)
    funs = sum(r['res']['functions'] for r in res)
    ck.floor('allocation sites (function x site, summed over TUs)', sites, 200 if tier == 'quick' else 2000)
    ck.extra['allocation_sites'] = sites
    ck.extra['functions_walked'] = funs
    ck.extra['paths_explored'] = sum(r['res']['stats']['paths'] for r in res)
    try:
        from . import ir_inplace
        res2 = corpus.run_over(cfgs, 'svlib.rules.ir_inplace', 'analyse_tu')
        irrules.aggregate(ck, res2)
    except ImportError:
        ck.note('R04.3 (no allocation on the in-place edge) is decided under C10 (R10.1)')
    ck.assumptions += ['Allocator requirements: deallocate/copy/== do not throw',
                       'clang 14 -O0 lowering of try/catch/noexcept (invoke/landingpad/terminate pads)',
                       'summary inlining bound: loop-free callees with <= 10 paths are expanded in place, others are opaque with may-throw/may-write summaries']
    ck.finish(
        'Path-sensitive typestate over unoptimised LLVM IR of every instantiated gch:: function that can reach '
        'an allocation: from each allocator call (A::allocate / allocator_traits<std::allocator>::allocate, '
        'identified as external probe primitives) every CFG path, including invoke unwind edges and catch '
        'handlers, must either store the pointer and the same count into one container\'s (m_data_ptr, m_capacity) '
        'pair, return/hand the pointer over, or pass it to deallocate with the same allocator object and the same '
        'count; in constructor context a commit does not discharge an unwind exit. Decides the pairing clause per '
        'operation; does not decide exact-once over whole histories.')
