"""C07 part `select` -- R07.1 "overload selection is the trait" and the type-level half of R07.4.

Engine E1 only (compile-pass / compile-fail witnesses, -fsyntax-only, g++ and clang++,
-fno-access-control because `maybe_*`, `copy_assign`, ... live in `gch::detail`).  Nothing is
executed; the constant evaluator is not used either: every verdict is "this fragment is
well-formed" / "this fragment is ill-formed, and for the reason planted by the probe".

The probe allocators (`/verif/probes/c07_alloc.hpp`) take the four traits
`propagate_on_container_{copy_assignment,move_assignment,swap}` and `is_always_equal` from four
bits (all 16 combinations) and come in four flavours of the same shape:

  PA     every operation present and opaque (declared, never defined)
  PAx    copy assignment, move assignment and swap are *traps*
  PAeq   operator== / operator!= are traps
  PAsel  select_on_container_copy_construction is a trap

A trap is an inline definition whose body is `static_assert (<dependent false>, "C07_..._USED")`.
It changes no declaration, hence no overload resolution, SFINAE or concept outcome; it turns
"the header's selected function body odr-uses this allocator operation" into a compile error
carrying a text that is ours.  (`= delete`, which the task first suggested, is not used: a deleted
`==` fails the header's C++20 Allocator concept, `std::allocator_traits` silently falls back to a
plain copy for a deleted s_o_c_c_c, and a defaulted-but-deleted move assignment of the header's
`allocator_inliner` is skipped in favour of the copy assignment -- each would hide the effect.)

Encodings (one individually tagged obligation per (trait combination, N, operation, observable)):

 a. `maybe_copy` / `maybe_move` / `maybe_swap`, called with no explicit template arguments on a
    `small_vector_base<A, N>`:
      uses_allocator_op   with A = PAx the call is ill-formed *with the planted text* iff the
                          corresponding propagate trait is true.  The observable is the effect of
                          the overload that ran ("assigns / swaps the allocator" vs "leaves it
                          alone"), so it does not depend on how the header spells the SFINAE.
                          Swapping the `Propagate` / `! Propagate` bodies fails both directions;
                          two empty bodies or two assigning bodies fail one direction each.
      well_formed         with A = PA the call is well-formed for every combination: flipping one
                          `!` in an enable_if makes the call ambiguous for one trait value and
                          without candidates for the other, which lands here.
 b. `copy_assign` / `move_assign` / `swap` of `small_vector_base`, reached through the public
    `operator=` / `assign` / `swap` of `small_vector<int, N, A>`:
      compares_allocators with A = PAeq the operation is ill-formed with "C07_EQ_USED" iff the
                          README's / the statement's condition selects the run-time-equality path
                          (move: !(is_same<std::allocator> || POCMA || is_always_equal);
                          swap: the same with POCS; copy: POCCA && !is_always_equal).
      well_formed         the same operation with A = PA is well-formed.
      noexcept            `noexcept (v = std::move (w))`, `noexcept (v.assign (std::move (w)))`,
                          `noexcept (v.swap (w))` equal the README's expression for a
                          nothrow-everything element (`int`): true exactly on the compile-time path.
                          Together with compares_allocators this is also the truthfulness of that
                          `noexcept` with respect to the allocator comparison branch.
    The mixed-capacity forms (`assign (small_vector<T, M, A>&&)` for M < N, `assign (const
    small_vector<T, M, A>&)` in both directions) are separate operations.  `M > N` move
    assignment legitimately compares allocators on every path and is not an obligation.
 c. R07.4, type level: with A = PAsel, `small_vector (const small_vector&)` (and the converting
    copy constructor from another capacity) is ill-formed with "C07_SOCCC_USED"; the
    allocator-extended copy constructor, the move constructor and the allocator-extended move
    constructor are well-formed (they must not call it).

`is_always_equal` enters an expectation only where `__cpp_lib_allocator_traits_is_always_equal`
says the library has it; the value of that macro is asked from each compiler/standard by a
feature witness and from `c07::traits_of` inside the `noexcept` witnesses (never a per-standard
table).  An ill-formed witness whose message does not carry the planted text is not a verdict:
if its PA control is well-formed too, the run is analysis-broken.

Not decided here: which allocator *value* ends up in the container (R07.2/R07.3, E3), anything
about elements.
"""
from .. import common, witness

PRELUDE = r'''
#include <gch/small_vector.hpp>
#include "c07_alloc.hpp"
#include <memory>
#include <utility>
'''

FEATURE_PRELUDE = r'''
#include <memory>
#include "c07_alloc.hpp"
'''

TRAP_TEXT = {'assign': 'C07_ASSIGN_USED', 'swap': 'C07_SWAP_USED', 'eq': 'C07_EQ_USED',
             'soccc': 'C07_SOCCC_USED'}
HDR = common.HEADER_REL


def traits(bits):
    return {'POCCA': bool(bits & 1), 'POCMA': bool(bits & 2), 'POCS': bool(bits & 4),
            'IAE': bool(bits & 8)}


def traits_label(bits):
    if bits == 'std':
        return 'std::allocator'
    t = traits(bits)
    return ' '.join('%s=%d' % (k, t[k]) for k in ('POCCA', 'POCMA', 'POCS', 'IAE'))


class Gen:
    """Builds the witness list; every witness gets its own namespace and its own Salt."""

    def __init__(self):
        self.ws = []
        self.n = 0

    def alloc(self, flavour, bits):
        if bits == 'std':
            return 'std::allocator<int>'
        self.n += 1
        return 'c07::%s<int, %d, %s, %d>' % (flavour, bits, 'false' if bits & 8 else 'true', self.n)

    def add(self, rule, part, function, op, obs, bits, ncap, flavour, body, expect, params,
            use_base=False, extra_types=''):
        """expect: 'ok' | ('trap', kind) | callable (traits dict with effective IAE) -> one of those."""
        a = self.alloc(flavour, bits)
        tag = '%s|%s|%s|%s|%s' % (part, op, obs, bits, ncap)
        ns = 'w%d' % len(self.ws)
        n = ncap if isinstance(ncap, int) else ncap[0]
        lines = ['namespace %s {' % ns,
                 'using A = %s;' % a,
                 'using V = gch::small_vector<int, %d, A>;' % n,
                 'using B = gch::detail::small_vector_base<A, %d>;' % n]
        if not isinstance(ncap, int):
            lines += ['using V2 = gch::small_vector<int, %d, A>;' % ncap[1]]
        if extra_types:
            lines += [extra_types]
        lines += [body if params is None else 'void f (%s) { %s }' % (params, body), '}']
        self.ws.append(witness.W(tag, '\n'.join(lines), info={
            'rule': rule, 'part': part, 'function': function, 'operation': op, 'observable': obs,
            'bits': bits, 'N': ncap, 'flavour': flavour, 'expect': expect,
            'control': '%s|%s|%s|%s|%s' % (part, op, 'well_formed', bits, ncap)}))


def make_witnesses():
    g = Gen()
    combos = list(range(16))
    for bits in combos + ['std']:
        for n in (0, 2):
            # ---------------------------------------------------------------- a. maybe_*
            for fn, trait, kind, params, call in (
                    ('maybe_copy', 'POCCA', 'assign', 'B& a, const B& b', 'a.maybe_copy (b);'),
                    ('maybe_move', 'POCMA', 'assign', 'B& a, B& b', 'a.maybe_move (std::move (b));'),
                    ('maybe_swap', 'POCS', 'swap', 'B& a, B& b', 'a.maybe_swap (b);')):
                g.add('R07.1', 'a', 'allocator_interface::' + fn, fn, 'well_formed', bits, n, 'PA',
                      call, 'ok', params)
                if bits != 'std':
                    g.add('R07.1', 'a', 'allocator_interface::' + fn, fn, 'uses_allocator_op', bits,
                          n, 'PAx', call,
                          (lambda t, trait=trait, kind=kind: ('trap', kind) if t[trait] else 'ok'),
                          params)
            # ---------------------------------------------------------------- b. *_assign / swap
            runtime_move = lambda t: ('trap', 'eq') if not (t['POCMA'] or t['IAE']) else 'ok'  # noqa: E731
            runtime_swap = lambda t: ('trap', 'eq') if not (t['POCS'] or t['IAE']) else 'ok'   # noqa: E731
            runtime_copy = lambda t: ('trap', 'eq') if (t['POCCA'] and not t['IAE']) else 'ok'  # noqa: E731
            ops = [
                ('small_vector_base::move_assign', 'move_assign', n, 'V& a, V& b',
                 'a = std::move (b);', runtime_move),
                ('small_vector_base::swap', 'swap', n, 'V& a, V& b', 'a.swap (b);', runtime_swap),
                ('small_vector_base::copy_assign', 'copy_assign', n, 'V& a, const V& b', 'a = b;',
                 runtime_copy),
                ('small_vector_base::copy_assign', 'copy_assign_mixed', (n, 2 - n),
                 'V& a, const V2& b', 'a.assign (b);', runtime_copy),
            ]
            if n == 2:
                ops.append(('small_vector_base::move_assign', 'move_assign_mixed', (2, 0),
                            'V& a, V2& b', 'a.assign (std::move (b));', runtime_move))
            for fn, op, ncap, params, call, exp in ops:
                g.add('R07.1', 'b', fn, op, 'well_formed', bits, ncap, 'PA', call, 'ok', params)
                if bits != 'std':
                    g.add('R07.1', 'b', fn, op, 'compares_allocators', bits, ncap, 'PAeq', call, exp,
                          params)
            # README noexcept expressions, evaluated against std::allocator_traits by the oracle
            g.add('R07.1', 'b', 'small_vector::operator= (small_vector&&)', 'move_assign', 'noexcept',
                  bits, n, 'PA',
                  'static_assert (noexcept (std::declval<V&> () = std::declval<V&&> ()) '
                  '== c07::traits_of<A>::move_without_comparing, "SVW");\n'
                  'static_assert (noexcept (std::declval<V&> ().assign (std::declval<V&&> ())) '
                  '== c07::traits_of<A>::move_without_comparing, "SVW");', 'ok', None)
            g.add('R07.1', 'b', 'small_vector::swap', 'swap', 'noexcept', bits, n, 'PA',
                  'static_assert (noexcept (std::declval<V&> ().swap (std::declval<V&> ())) '
                  '== c07::traits_of<A>::swap_without_comparing, "SVW");', 'ok', None)
            if n == 2:
                g.add('R07.1', 'b', 'small_vector::assign (small_vector<T, LessI, A>&&)',
                      'move_assign_mixed', 'noexcept', bits, (2, 0), 'PA',
                      'static_assert (noexcept (std::declval<V&> ().assign (std::declval<V2&&> ())) '
                      '== c07::traits_of<A>::move_without_comparing, "SVW");', 'ok', None)
            # ---------------------------------------------------------------- c. constructors
            ctor = 'small_vector (const small_vector&)'
            g.add('R07.4', 'c', ctor, 'copy_ctor', 'well_formed', bits, n, 'PA', 'V c (a);', 'ok',
                  'const V& a')
            g.add('R07.4', 'c', 'small_vector (const small_vector<T, I, A>&)', 'copy_ctor_mixed',
                  'well_formed', bits, (n, 2 - n), 'PA', 'V c (a);', 'ok', 'const V2& a')
            if bits != 'std':
                g.add('R07.4', 'c', ctor, 'copy_ctor', 'uses_select_on_container_copy_construction',
                      bits, n, 'PAsel', 'V c (a);', ('trap', 'soccc'), 'const V& a')
                g.add('R07.4', 'c', 'small_vector (const small_vector<T, I, A>&)', 'copy_ctor_mixed',
                      'uses_select_on_container_copy_construction', bits, (n, 2 - n), 'PAsel',
                      'V c (a);', ('trap', 'soccc'), 'const V2& a')
                for fn, op, params, call in (
                        ('small_vector (const small_vector&, const allocator_type&)',
                         'copy_ctor_alloc_extended', 'const V& a, const A& al', 'V c (a, al);'),
                        ('small_vector (small_vector&&)', 'move_ctor', 'V& a', 'V c (std::move (a));'),
                        ('small_vector (small_vector&&, const allocator_type&)',
                         'move_ctor_alloc_extended', 'V& a, const A& al', 'V c (std::move (a), al);')):
                    g.add('R07.4', 'c', fn, op, 'no_select_on_container_copy_construction', bits, n,
                          'PAsel', call, 'ok', params)
    return g.ws


FEATURES = [witness.W('feature|iae',
                      'static_assert (c07::traits_of<std::allocator<int> >::has_iae, "SVW");')]


def configs(tier):
    """[(label, stds, extra_flags)]"""
    if tier == 'quick':
        return [('', ('c++17', 'c++20'), ())]
    return [('', tuple(common.STDS), ()),
            ('-DGCH_DISABLE_CONCEPTS', ('c++20', 'c++2b'), ('-DGCH_DISABLE_CONCEPTS',))]


def describe(info, what):
    n = info['N']
    ncap = ('N=%d' % n) if isinstance(n, int) else ('N=%d from M=%d' % n)
    return ('%s: %s [%s, %s], allocator traits {%s}: %s'
            % (HDR, info['function'], info['operation'], ncap, traits_label(info['bits']), what))


def collect(ck, tier):
    ws = make_witnesses()
    by_tag = {w.tag: w for w in ws}
    if len(by_tag) != len(ws):
        raise common.AnalysisBroken('c07_select: duplicate witness tags')
    results = {}     # config label -> {tag: (status, msg)}
    has_iae = {}
    for label, stds, flags in configs(tier):
        fres = witness.compile_battery('c07sel-features', FEATURE_PRELUDE, FEATURES, stds=stds,
                                       extra_flags=flags, shards=1)
        res = witness.compile_battery('c07sel', PRELUDE, ws, stds=stds,
                                      extra_flags=('-fno-access-control',) + tuple(flags),
                                      shards=max(1, common.JOBS // (2 * len(stds)) + 1))
        for (comp, std), r in res.items():
            cfg = '%s -std=%s%s' % (comp, std, (' ' + label) if label else '')
            results[cfg] = r
            has_iae[cfg] = fres[(comp, std)]['feature|iae'][0] == 'ok'
            ck.unit(cfg)

    # anchors: `maybe_*` are internal names.  If a call is ill-formed for *every* allocator
    # (std::allocator included) under every configuration, the name or its home is gone: that is
    # a vanished anchor, not a verdict about overload selection.
    for fn in ('maybe_copy', 'maybe_move', 'maybe_swap'):
        ctl = [w for w in ws if w.info['part'] == 'a' and w.info['operation'] == fn
               and w.info['observable'] == 'well_formed']
        if ctl and all(results[cfg][w.tag][0] != 'ok' for w in ctl for cfg in results):
            raise common.AnalysisBroken(
                'c07_select: gch::detail::small_vector_base<A, N>::%s (other) is not callable for '
                'any allocator under any configuration (anchor vanished?): %s'
                % (fn, results[sorted(results)[0]][ctl[0].tag][1][:300]))

    cells = set()
    planted_seen = 0
    for w in ws:
        info = w.info
        fails = []          # (cfg, what, msg)
        foreign = []
        for cfg in sorted(results):
            status, msg = results[cfg][w.tag]
            exp = info['expect']
            if callable(exp):
                t = dict(traits(info['bits']))
                t['IAE'] = t['IAE'] and has_iae[cfg]
                exp = exp(t)
            if exp == 'ok':
                if status != 'ok':
                    trap = next((k for k, v in TRAP_TEXT.items() if v in msg), None)
                    fails.append((cfg, 'expected well-formed, got '
                                  + ('the planted %s' % TRAP_TEXT[trap] if trap else 'an error'), msg))
            else:
                text = TRAP_TEXT[exp[1]]
                if status == 'ok':
                    fails.append((cfg, 'expected ill-formed with %s, but it is well-formed' % text, ''))
                elif text in msg or (exp[1] == 'swap' and TRAP_TEXT['assign'] in msg):
                    planted_seen += 1   # (a swap may legitimately go through the assignments)
                else:
                    foreign.append((cfg, msg))
        if foreign:
            ctl = info['control']
            ctl_bad = [cfg for cfg, _ in foreign if results[cfg][ctl][0] != 'ok']
            if len(ctl_bad) != len(foreign):
                cfg, msg = [f for f in foreign if f[0] not in ctl_bad][0]
                raise common.AnalysisBroken(
                    'c07_select: witness %s is ill-formed under %s for a reason that is not the '
                    'planted one although its control is well-formed: %s' % (w.tag, cfg, msg[:300]))
            for cfg, msg in foreign:
                fails.append((cfg, 'ill-formed for a reason other than the planted one '
                              '(the PA control fails too)', msg))
        sample = {'function': info['function'], 'operation': info['operation'],
                  'observable': info['observable'], 'traits': traits_label(info['bits']),
                  'inline_capacity': info['N'], 'probe_allocator': info['flavour'],
                  'configs': len(results)}
        cells.add((info['bits'], info['operation']))
        if not fails:
            ck.ok(info['rule'], sample=sample)
            continue
        meaning = {
            'uses_allocator_op': 'the overload selected by the call without template arguments '
                                 'must assign/swap the allocator exactly when the propagate trait is true',
            'compares_allocators': 'the run-time-equality overload must be selected exactly when the '
                                   'README condition (is_same<std::allocator> || propagate || '
                                   'is_always_equal; copy: POCCA && !is_always_equal) says so',
            'well_formed': 'the operation must be well-formed (no ambiguity, one viable overload)',
            'noexcept': 'noexcept of the public operation must equal the README expression',
            'uses_select_on_container_copy_construction':
                'copy construction must obtain the allocator from select_on_container_copy_construction',
            'no_select_on_container_copy_construction':
                'this constructor must not call select_on_container_copy_construction',
        }[info['observable']]
        key = {'function': info['function'], 'operation': info['operation'],
               'observable': info['observable'], 'traits': traits_label(info['bits']),
               'inline_capacity': str(info['N'])}
        ck.violation(info['rule'], key,
                     describe(info, '%s -- %s; %s (%d of %d configurations, first: %s)'
                              % (info['observable'], meaning, fails[0][1], len(fails), len(results),
                                 fails[0][0])),
                     {'file': HDR, 'configs': [{'config': c, 'what': wh, 'compiler_says': m}
                                                for c, wh, m in fails[:12]],
                      'witness': w.code, 'rule': info['rule']})

    ncombo = len(set(b for b, _ in cells if b != 'std'))
    ck.floor('c07_select trait combinations', ncombo, 16)
    ck.floor('c07_select (trait combination, operation) cells', len(cells), 16 * 13 + 10)
    ck.floor('c07_select witnesses', len(ws), 808)
    # a battery in which no trap ever fires proves nothing about the 'ok' half either
    ck.floor('c07_select planted diagnostics observed per configuration',
             planted_seen // max(1, len(results)), 0 if ck.violations else 148)
    ck.extra['c07_select'] = {'witnesses': len(ws), 'cells': len(cells),
                              'planted_diagnostics_observed': planted_seen,
                              'configs': sorted(results), 'has_is_always_equal': has_iae}
    ck.assumptions += [
        'probe allocators meet the Allocator requirements (copy/move/==/swap/deallocate noexcept); '
        'trait values are read by the oracle from std::allocator_traits, not from the header',
        'a function template specialisation or class-template member body is instantiated iff it '
        'is odr-used (traps fire exactly on use), as implemented by g++ 12 and clang++ 14']
