"""R18.2 / R18.3 / R06.4: no throwing path under `noexcept`; exceptions reach the caller.

R18.2/3: in code compiled from the header, an `invoke` whose unwind destination is a terminate
pad (clang's lowering of a call inside a `noexcept` function) must not have a callee from which a
caller-controlled exception kind (element operation, allocator, caller iterator, generator,
length_error) can escape.  The may-throw sets come from the whole-module fixpoint in svlib.cg,
whose sources are the probe types' undefined operations.
R06.4: every catch-all handler in gch:: code re-throws on every path.
"""
from .. import cg, irrules
from ..irrules import Report, base_name


def analyse_tu(eng, cfg):
    orc = eng.oracle
    reports = []
    n_noexcept = 0
    n_edges = 0
    n_catch = 0
    for f in irrules.gch_roots(eng):
        tp = orc.terminate_pads(f)
        bn = base_name(f.pretty)
        if tp:
            n_noexcept += 1
            for b, ins in f.instrs():
                if ins.op != 'invoke' or ins.unwind not in tp or not ins.callee:
                    continue
                cn = ins.callee[1:].strip('"')
                th = orc.throws.get(cn, frozenset())
                if orc.kind.get(cn) == 'CXA_THROW':
                    th = frozenset([orc.throw_type.get((f.name, id(ins)), 'THROW_OTHER')])
                bad = sorted(k for k in th if k in cg.CALLER_KINDS)
                n_edges += 1
                callee_p = orc.pretty.get(cn, cn)
                if bad:
                    fam = sorted(set(k.split('_')[0] for k in bad))
                    reports.append(Report(
                        'R18.2', False,
                        {'function': bn, 'callee': base_name(callee_p), 'source': '+'.join(fam)},
                        'R18.2: %s is non-throwing (noexcept) but calls %s, from which %s exceptions can escape '
                        '-> std::terminate instead of reaching the caller (%s:%d; %s)'
                        % (bn, base_name(callee_p), '/'.join(fam), 'small_vector.hpp', ins.line, cfg.name),
                        {'function': f.pretty[:300], 'line': ins.line, 'callee': callee_p[:300],
                         'kinds': bad, 'config': cfg.name, 'file': 'source/include/gch/small_vector.hpp'}))
                else:
                    reports.append(Report('R18.2', True, None,
                                          sample={'function': bn, 'line': ins.line,
                                                  'callee': base_name(callee_p),
                                                  'escaping_kinds': sorted(th), 'config': cfg.name}))
        # R06.4: catch-all handlers re-throw
        for lb, blk in f.blocks.items():
            if not blk.instrs or blk.instrs[0].op != 'landingpad' or lb in tp:
                continue
            lp = blk.instrs[0]
            if not any(c.startswith('catch') for c in (lp.clauses or [])):
                continue
            n_catch += 1
            # explore from the pad: must hit __cxa_rethrow before leaving the handler
            seen = set()
            work = [lb]
            swallowed = None
            while work:
                x = work.pop()
                if x in seen:
                    continue
                seen.add(x)
                b = f.blocks[x]
                rethrows = False
                ends = False
                for ins in b.instrs:
                    if ins.op in ('call', 'invoke') and ins.callee:
                        k = orc.kind.get(ins.callee[1:].strip('"'))
                        if k == 'CXA_RETHROW':
                            rethrows = True
                            break
                        if k == '__CXA_END_CATCH':
                            ends = True
                        if k == 'TERMINATE':
                            rethrows = True   # path ends in terminate: not a swallow
                            break
                if rethrows:
                    continue
                t = b.instrs[-1]
                if t.op == 'ret':
                    swallowed = t.line
                    break
                if t.op in ('resume', 'unreachable'):
                    continue
                for (s, kind) in b.succs:
                    work.append(s)
            if swallowed is not None:
                reports.append(Report('R06.4', False, {'function': bn, 'what': 'catch-all does not rethrow'},
                                      'R06.4: a catch (...) handler in %s can complete without re-throwing (near line %d; %s)'
                                      % (bn, swallowed, cfg.name),
                                      {'function': f.pretty[:300], 'line': swallowed, 'config': cfg.name}))
            else:
                reports.append(Report('R06.4', True, None,
                                      sample={'function': bn, 'handler_at_line': lp.line, 'config': cfg.name}))
    return {'reports': reports, 'noexcept_functions': n_noexcept, 'terminate_edges': n_edges,
            'catch_handlers': n_catch}
