"""C10 / C14 rules over IR, judged on complete paths of the public entry points (helpers are
expanded in place) and on internal functions whose own path tests the capacity.

R10.1/R10.2  a path that reallocates carries evidence that the committed size exceeds the capacity
             observed on entry (so it was necessary); a path that grows in place carries evidence
             that the committed size fits the old capacity.
R10.3        erase / pop_back / clear (and non-member erase/erase_if) never allocate, release or
             write the data pointer / capacity.
R10.4        at most one allocation per path unless the range is single-pass.
R14.1/R14.2  on a growing reallocation the committed capacity is >= the committed size and is
             2*old capacity, or a required size larger than that, or max_size (saturation).
"""
import re

from .. import sym, irrules
from ..sym import const_of, single_atom, atom, L, lin_sub, lin_add, lin_scale
from ..irrules import Report, base_name, obj_of, where
from .ir_bounds import cmp_atom, is_max_term, bounded, facts, known_lt, known_le
from .ir_pair import class_n

THIS = ((('arg', 0), 1),)
GROW_PUBLIC = {'push_back', 'emplace_back', 'insert', 'emplace', 'append', 'resize', 'reserve', 'assign',
               'operator='}
ERASE_PUBLIC = {'erase', 'pop_back', 'clear', 'erase_if'}


def versioned(t):
    for a in sym.atoms_of(t):
        if (a[0] == 'init' and len(a) > 2) or a[0] in ('hv', 'loopvar', 'phi?', 'undefval'):
            return True
    return False


def is_public(f):
    p = f.pretty or ''
    head = p.split('(')[0]
    return 'gch::small_vector<' in head and 'detail::' not in head.split('gch::small_vector<')[0]


def evidence_gt(cap0, size0, s, st):
    """path evidence for cap0 < s (any spelling of the test)"""
    fs = facts(st)
    if known_lt(fs, cap0, s):
        return 'capacity < new size'
    free = lin_sub(cap0, size0)
    for (kind, x, y) in fs:
        if kind == 'lt' and x == free and lin_add(size0, y) == s:
            return 'capacity - size < count'
    if s == lin_add(size0, L(1)) and known_le(fs, cap0, size0) and cap0 != size0:
        return 'capacity <= size, one element added'
    return None


def evidence_le(cap0, size0, s, st, ncls=None):
    """path evidence for s <= cap0"""
    fs = facts(st)
    if known_le(fs, s, cap0) and s != cap0:
        return 'new size <= capacity'
    if s == cap0:
        return 'new size == capacity'
    free = lin_sub(cap0, size0)
    for (kind, x, y) in fs:
        if kind == 'le' and y == free and lin_add(size0, x) == s:
            return 'count <= capacity - size'
        if ncls is not None and kind == 'le' and x == s and const_of(y) is not None and const_of(y) <= ncls:
            return 'new size <= inline capacity <= capacity (invariant capacity >= inline capacity)'
    if s == lin_add(size0, L(1)) and known_lt(fs, size0, cap0):
        return 'size < capacity, one element added'
    return None


def has_max(t):
    if is_max_term(t) or (t[1] > 0 and is_max_term(L(t[1]))):
        return True
    return any(a[0] == 'max_size' for a in sym.atoms_of(t))


def guard_tested(st, cap0, size0):
    """Does the path contain a capacity guard (capacity, or capacity - size, or size vs capacity,
    compared with something that is not derived from max_size)?  The growth computation's own
    comparisons (max - capacity <= capacity, 2*capacity < required) are not guards."""
    free = lin_sub(cap0, size0)
    for (kind, x, y) in facts(st):
        for u, w in ((x, y), (y, x)):
            if (u == cap0 or u == free) and not has_max(w) and const_of(w) is None:
                return True
    return False


def shrinks(s, size0):
    d = lin_sub(s, size0)
    if const_of(s) == 0:
        return True
    if d[1] <= 0 and all(c < 0 for a, c in d[2]) and (d[1] < 0 or d[2]):
        return True
    return d == sym.ZERO


class GrowthRule(sym.Rule):
    name = 'R10'

    def __init__(self, eng, cfg, mode):
        self.eng = eng
        self.cfg = cfg
        self.orc = eng.oracle
        self.mode = mode        # 'grow' or 'erase'
        self.reports = {}
        self.judged = 0
        self.unjudged = 0
        self.public = False
        self.single_pass = False
        self.other_family = False     # operations outside C10's list: only R04.3 applies

    def init(self, f, eng):
        # (allocs, n_alloc_events, alloc_eq_rets, touched)
        return (frozenset(), 0, frozenset(), False)

    def on_event(self, rs, ev, st, f, eng):
        if ev.kind in ('call', 'throw') and ev.callee:
            k = self.orc.kind.get(ev.callee)
            if k == 'ALLOC' and ev.kind == 'call' and ev.args and len(ev.args) >= 2:
                if self.mode == 'grow' and getattr(st, 'visits', None) and not self.single_pass:
                    # an allocation in a second or later iteration of a loop: the contents can be
                    # moved to a new buffer once per iteration
                    self._rep('R10.4', False, f, 'allocation inside a loop',
                              'an allocation is reachable in a repeated iteration of a loop although the element count is '
                              'known up front (multi-pass range): the contents may be relocated more than once',
                              {'at': where(ev, self.orc)})
                return (rs[0] | {(ev.ret, ev.args[1])}, rs[1] + 1, rs[2], True)
            if k == 'DEALLOC' and ev.kind == 'call':
                return (rs[0], rs[1], rs[2], True)
            if k in ('ALLOC_EQ', 'ALLOC_NE') and ev.ret is not None:
                return (rs[0], rs[1], rs[2] | {single_atom(ev.ret)}, rs[3])
        if ev.kind == 'store' and ev.field in (0, 1) and obj_of(ev.addr) == THIS:
            return (rs[0], rs[1], rs[2], True)
        return rs

    def _rep(self, rule, ok, f, what, msg=None, detail=None, sample=None):
        bn = base_name(f.pretty)
        dk = (rule, f.name, what, ok)
        if dk in self.reports:
            return
        if ok:
            s = {'function': bn, 'config': self.cfg.name}
            s.update(sample or {})
            self.reports[dk] = Report(rule, True, None, sample=s)
        else:
            d = {'function': f.pretty[:300], 'function_line': f.src_line, 'config': self.cfg.name,
                 'file': 'source/include/gch/small_vector.hpp'}
            d.update(detail or {})
            self.reports[dk] = Report(rule, False, {'function': bn, 'defect': what},
                                      '%s: %s: %s (%s)' % (rule, bn, msg, self.cfg.name), d)

    def on_exit(self, rs, kind, st, f, eng, rv=None):
        allocs, nalloc, eqrets, touched = rs
        if self.mode == 'erase':
            if kind in ('ret', 'unwind'):
                if touched:
                    self._rep('R10.3', False, f, 'storage traffic in an erasing operation',
                              'an erase/pop_back/clear path allocates, releases or writes the data pointer/capacity')
                else:
                    self._rep('R10.3', True, f, kind, sample={'exit': kind})
            return
        if kind != 'ret':
            return
        tags = eng.field_tag
        pa = ca = sa = None
        for a, k in tags.items():
            if a[2] == THIS:
                if k == 0:
                    pa = a
                elif k == 1:
                    ca = a
                elif k == 2:
                    sa = a
        if ca is None or sa is None:
            return
        cap0 = atom(('init', ca))
        size0 = atom(('init', sa))
        Cf = eng.load(st, ca)
        Sf = eng.load(st, sa)
        Pf = eng.load(st, pa) if pa is not None else None
        # R10.4 does not need closed terms for the words: count the allocations on the path
        if nalloc > 1 and not self.single_pass:
            self._rep('R10.4', False, f, 'more than one allocation on a path',
                      'a path allocates %d times although the element count is known up front (multi-pass range)' % nalloc)
        if versioned(Cf) or versioned(Sf) or (Pf is not None and versioned(Pf)):
            self.unjudged += 1
            return
        realloc = Pf is not None and any(Pf == p for (p, n) in allocs)
        cap_tested = guard_tested(st, cap0, size0)
        if not self.public and not cap_tested:
            self.unjudged += 1
            return      # the guard lives in a caller; judged where this helper is expanded
        self.judged += 1
        # unequal-allocator assignment is exempt from "only when needed"
        exempt = False
        for (c, v) in st.conds:
            pos, pol = sym.strip_not(c)
            a = single_atom(pos)
            if a is not None and a in eqrets:
                exempt = True
        if nalloc == 1:
            self._rep('R10.4', True, f, 'one', sample={'allocations_on_path': nalloc})
        if self.other_family and not realloc:
            return
        if realloc:
            if Sf == size0 and not self.other_family:
                # capacity-only operation (reserve): needed iff capacity < request
                ev = None
                for (kind, x, y) in facts(st):
                    if kind == 'lt' and x == cap0:
                        if Cf == y or is_max_term(Cf) or self._ge(Cf, y, st, cap0):
                            ev = 'capacity < request and new capacity >= request'
                if ev is None and not exempt:
                    self._rep('R10.1', False, f, 'reallocation without evidence that the request exceeds the capacity',
                              'a path replaces the buffer without a path condition implying capacity < requested capacity',
                              {'new_capacity': repr(Cf)[:200]})
                else:
                    self._rep('R10.1', True, f, 'reserve', sample={'evidence': ev})
                self._growth(f, st, cap0, size0, Cf, None)
                return
            e = evidence_gt(cap0, size0, Sf, st)
            if self.other_family:
                if e is None and not exempt:
                    self._rep('R04.3', False, f, 'allocation although the result may fit the capacity the container already has',
                              'a path installs a freshly allocated buffer without a path condition implying capacity < resulting size, '
                              'outside the operations that are allowed to (shrink_to_fit, unequal-allocator assignment/swap)',
                              {'new_size': repr(Sf)[:200]})
                else:
                    self._rep('R04.3', True, f, 'realloc', sample={'evidence': e or 'unequal allocators (exempt)'})
                return
            if e is None and not exempt:
                self._rep('R10.1', False, f, 'reallocation although the result may fit the old capacity',
                          'a path replaces the buffer without a path condition implying capacity < resulting size '
                          '(e.g. it reallocates when the contents fit exactly)',
                          {'new_size': repr(Sf)[:200], 'conditions': [repr(c)[:150] + '=' + str(v) for c, v in st.conds][-6:]})
            else:
                self._rep('R10.1', True, f, 'realloc', sample={'evidence': e or 'unequal allocators (exempt)'})
            if not exempt:
                self._growth(f, st, cap0, size0, Cf, Sf)
        else:
            if Cf != cap0:
                return   # capacity changed without a fresh allocation: steal/inline moves (C02/C09)
            if shrinks(Sf, size0):
                return
            e = evidence_le(cap0, size0, Sf, st, class_n(f))
            if e is None:
                self._rep('R10.2', False, f, 'in-place growth without evidence that the new size fits',
                          'a path commits a larger size into the existing buffer without a path condition implying '
                          'new size <= capacity', {'new_size': repr(Sf)[:200],
                                                   'conditions': [repr(c)[:150] + '=' + str(v) for c, v in st.conds][-6:]})
            else:
                self._rep('R10.2', True, f, 'inplace', sample={'evidence': e})

    def _ge(self, big, small, st, cap0):
        return known_le(facts(st), small, big)

    def _growth(self, f, st, cap0, size0, Cf, Sf):
        # G1: capacity >= committed size
        if Sf is not None:
            g1 = Cf == Sf or self._ge(Cf, Sf, st, cap0) or (is_max_term(Cf) and bounded(Sf, st, self.eng) is not None)
            if not g1:
                self._rep('R14.2', False, f, 'committed capacity not shown to cover the committed size',
                          'the capacity written is not the size written, nor guarded to be at least the size',
                          {'capacity': repr(Cf)[:200], 'size': repr(Sf)[:200]})
            else:
                self._rep('R14.2', True, f, 'covers', sample={'law': 'capacity >= size'})
        # G2: geometric
        two = lin_scale(cap0, 2)
        g2 = None
        if Cf == two:
            g2 = 'doubling'
        elif is_max_term(Cf):
            g2 = 'saturated at max_size'
        else:
            if known_lt(facts(st), two, Cf):
                g2 = 'required size larger than twice the capacity'
        if g2 is None:
            self._rep('R14.1', False, f, 'reallocation that is not geometric',
                      'the new capacity is neither 2 x old capacity, nor a required size above that, nor max_size',
                      {'capacity': repr(Cf)[:200]})
        else:
            self._rep('R14.1', True, f, g2, sample={'law': g2})


def analyse_tu(eng, cfg):
    orc = eng.oracle
    grow = GrowthRule(eng, cfg, 'grow')
    erase = GrowthRule(eng, cfg, 'erase')
    # growing operations: public entries, and what they reach (not constructors / destructors)
    pub_grow = []
    pub_erase = []
    for f in irrules.gch_roots(eng):
        bn = base_name(f.pretty)
        if is_public(f) and bn in GROW_PUBLIC:
            # assign / operator= taking an rvalue small_vector is move assignment: not a growing op
            args = f.pretty[f.pretty.find('('):]
            if bn in ('assign', 'operator=') and '&&' in args and 'small_vector<' in args:
                continue
            pub_grow.append(f)
        elif (is_public(f) and bn in ERASE_PUBLIC) or (bn in ('erase', 'erase_if') and f.pretty.startswith('gch::small_vector<') is False and ' gch::erase' in f.pretty):
            pub_erase.append(f)
    reach = set()
    work = [f.name for f in pub_grow]
    while work:
        n = work.pop()
        if n in reach:
            continue
        reach.add(n)
        for (cn, lb, ins) in orc._calls.get(n, ()):
            g = eng.mod.funcs.get(cn)
            if g is not None and orc.is_gch(cn) and not irrules.is_ctor(g) and not irrules.is_dtor(g):
                work.append(cn)
    if getattr(cfg, 'canary', False):
        reach |= set(f.name for f in irrules.gch_roots(eng) if 'canary_' in (f.pretty or ''))
    nroots = 0
    for n in sorted(reach):
        f = eng.mod.funcs[n]
        if not orc.writes_fields.get(n):
            continue
        grow.public = is_public(f)
        grow.single_pass = 'svp::InIt<' in f.pretty
        grow.other_family = False
        nroots += 1
        eng.walk(f, [grow])
    # R04.3 for the operations outside C10's list (move assignment family): a fresh allocation
    # needs evidence that the contents do not fit
    pub_other = []
    for f in irrules.gch_roots(eng):
        bn = base_name(f.pretty)
        args = f.pretty[f.pretty.find('('):]
        if is_public(f) and bn in ('assign', 'operator=') and '&&' in args and 'small_vector<' in args:
            pub_other.append(f)
    reach2 = set()
    work = [f.name for f in pub_other]
    while work:
        n = work.pop()
        if n in reach2 or n in reach:
            continue
        reach2.add(n)
        for (cn, lb, ins) in orc._calls.get(n, ()):
            g = eng.mod.funcs.get(cn)
            if g is not None and orc.is_gch(cn) and not irrules.is_ctor(g) and not irrules.is_dtor(g):
                work.append(cn)
    for n in sorted(reach2):
        f = eng.mod.funcs[n]
        if not orc.writes_fields.get(n) or 'ALLOC' not in orc.effects.get(n, ()):
            continue
        grow.public = is_public(f)
        grow.single_pass = False
        grow.other_family = True
        nroots += 1
        eng.walk(f, [grow])
    for f in pub_erase:
        eng.walk(f, [erase])
    reports = list(grow.reports.values()) + list(erase.reports.values())
    return {'reports': reports, 'roots': nroots, 'erase_roots': len(pub_erase), 'judged_paths': grow.judged,
            'unjudged_paths': grow.unjudged}
