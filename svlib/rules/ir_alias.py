"""R11.1: an lvalue argument that may alias one of the container's own elements is never read
after the container's existing elements or storage were disturbed.

CLOBBER = a call (after expansion of small helpers: an opaque callee or a primitive) that can
move from, assign to, destroy or release memory of the buffer the container held on entry:
its may-effect set contains an element move / assignment / destruction / swap (or it is
memcpy/memmove/deallocate) and one of its pointer arguments is based on the data pointer read
on entry.  USE = any later call that receives the tracked reference.
"""
import re

from .. import sym, cg, irrules
from ..sym import single_atom, atom
from ..irrules import Report, base_name, where
from .ir_bounds import cmp_atom

THIS = ((('arg', 0), 1),)
CLOBBER_KINDS = {'ELEM_MOVE', 'ELEM_COPY_ASSIGN', 'ELEM_MOVE_ASSIGN', 'ELEM_CONV_ASSIGN', 'ELEM_DTOR',
                 'ELEM_SWAP', 'DEALLOC'}


def tracked_params(f):
    """Indices of `const value_type&` / `value_type&` parameters (lvalue element references)."""
    p = f.pretty or ''
    k = p.rfind('(')
    depth = 0
    # split the parameter list of the demangled signature
    i = len(p) - 1
    close = p.rfind(')')
    j = close
    while j >= 0:
        if p[j] == ')':
            depth += 1
        elif p[j] == '(':
            depth -= 1
            if depth == 0:
                break
        j -= 1
    params = []
    cur = []
    d = 0
    for c in p[j + 1:close]:
        if c in '<(':
            d += 1
        elif c in '>)':
            d -= 1
        if c == ',' and d == 0:
            params.append(''.join(cur).strip())
            cur = []
        else:
            cur.append(c)
    if cur:
        params.append(''.join(cur).strip())
    out = []
    off = len(f.params) - len(params)     # `this` (and sret) come first in the IR signature
    for i, t in enumerate(params):
        if re.match(r'^(svp::(NM|TM|MO|MOT|CO|TR)|int|int\*)( const)?&$', t) and not t.endswith('&&'):
            out.append(i + off)
    return out


class AliasRule(sym.Rule):
    name = 'R11.1'

    def __init__(self, eng, cfg):
        self.eng = eng
        self.cfg = cfg
        self.orc = eng.oracle
        self.reports = {}
        self.tracked = ()
        self.entries = 0
        et = {'NM': '%"struct.svp::NM"*', 'TM': '%"struct.svp::TM"*', 'MO': '%"struct.svp::MO"*',
              'MOT': '%"struct.svp::MOT"*', 'NA': '%"struct.svp::NA"*', 'CO': '%"struct.svp::CO"*', 'TR': '%"struct.svp::TR"*',
              'int': 'i32*', 'intp': 'i32**'}[cfg.elem]
        self.elem_ptr_types = {et}
        self.esize = {'NM': 4, 'NA': 4, 'TM': 4, 'MO': 4, 'MOT': 4, 'CO': 4, 'TR': 8, 'int': 4, 'intp': 8}[cfg.elem]

    def init(self, f, eng):
        return None      # None = pristine; otherwise description of the clobbering event

    def maybe_live(self, t, ty, eng):
        """Can this pointer argument address an element that existed on entry?"""
        if ty is None or ty.strip() not in self.elem_ptr_types:
            return False
        roots = [at for at, c in t[2]]
        if not roots:
            return False           # null / constant
        for at in roots:
            if at[0] in ('ret', 'alloca', 'alloc', 'glob'):
                return False       # new buffer, temporary, global
            if at[0] == 'arg' and at[1] in self.tracked:
                return False       # the tracked reference itself
        # raw storage at or beyond the end observed on entry: DATA0 + sizeof * SIZE0 + (>= 0)
        data0 = size0 = None
        for a, k in eng.field_tag.items():
            if a[2] == THIS:
                if k == 0:
                    data0 = ('init', a)
                elif k == 2:
                    size0 = ('init', a)
        if data0 is not None and size0 is not None:
            d = dict(t[2])
            if d.get(data0) == 1 and d.get(size0, 0) > 0:
                rest = dict((a, c) for a, c in t[2] if a not in (data0, size0))
                # c * (X - Y) with a path condition Y < X (or Y <= X) is non-negative
                for (cnd, v) in self.cur_conds:
                    ca = cmp_atom(cnd)
                    if ca is None:
                        continue
                    lo = hi = None
                    if ca[1] in ('ult', 'ule') and v is True:
                        lo, hi = single_atom(ca[2]), single_atom(ca[3])
                    elif ca[1] in ('ult', 'ule') and v is False:
                        lo, hi = single_atom(ca[3]), single_atom(ca[2])
                    if lo is not None and hi is not None and rest.get(lo, 0) < 0 \
                            and rest.get(hi, 0) == -rest[lo]:
                        del rest[lo]
                        del rest[hi]
                if t[1] >= 0 and all(c >= 0 for c in rest.values()):
                    return False
            # t - END0 is a positive multiple of (y - x) for a path condition x < y (or x <= y):
            # e.g. pos + sizeof * count with (end - pos) / sizeof < count
            end0 = sym.lin_add(sym.atom(data0), sym.lin_scale(sym.atom(size0), self.esize))
            diff = sym.lin_sub(t, end0)
            for (cnd, v) in self.cur_conds:
                ca = cmp_atom(cnd)
                if ca is None or ca[1] not in ('ult', 'ule'):
                    continue
                x, y = (ca[2], ca[3]) if v is True else (ca[3], ca[2])
                for m in (self.esize, 1):
                    if sym.lin_scale(sym.lin_sub(y, x), m) == diff:
                        return False
        return True

    def on_event(self, rs, ev, st, f, eng):
        if ev.kind not in ('call', 'throw') or ev.args is None:
            return rs
        self.cur_conds = st.conds
        name = ev.callee
        if rs is not None:
            # USE after clobber?
            for a in ev.args:
                at = single_atom(a)
                if at is not None and at[0] == 'arg' and at[1] in self.tracked:
                    bn = base_name(f.pretty)
                    dk = (f.name, 'use', where(ev, self.orc))
                    if dk not in self.reports:
                        self.reports[dk] = Report(
                            'R11.1', False, {'function': bn, 'defect': 'argument read after the container was disturbed'},
                            'R11.1: %s reads its lvalue element argument (at %s) after existing elements/storage were '
                            'disturbed (by %s); if the argument aliases an element of the container the value used is '
                            'no longer the original (%s)' % (bn, where(ev, self.orc), rs, self.cfg.name),
                            {'function': f.pretty[:300], 'function_line': f.src_line, 'config': self.cfg.name,
                             'clobbered_by': rs, 'use_at': where(ev, self.orc),
                             'file': 'source/include/gch/small_vector.hpp'})
                    return rs
            return rs
        if name is None:
            return rs
        kind = self.orc.kind.get(name)
        eff = self.orc.effects.get(name, frozenset())
        clob = False
        tys = ev.argtys or [None] * len(ev.args)
        if name.startswith('llvm.memmove') or name.startswith('llvm.memcpy'):
            # destination is an i8* cast of an element pointer
            clob = self.maybe_live(ev.args[0], self.elem_ptr_types and next(iter(self.elem_ptr_types)), eng)
        elif kind == 'DEALLOC':
            clob = len(ev.args) > 1 and self.maybe_live(ev.args[1], tys[1] if len(tys) > 1 else None, eng)
        elif kind in CLOBBER_KINDS or (eff & CLOBBER_KINDS):
            clob = any(sym.is_lin(a) and self.maybe_live(a, tys[i] if i < len(tys) else None, eng)
                       for i, a in enumerate(ev.args))
        if clob:
            return '%s at %s' % (base_name(self.orc.pretty.get(name, name)), where(ev, self.orc))
        return rs

    def on_exit(self, rs, kind, st, f, eng, rv=None):
        if kind in ('ret', 'unwind'):
            dk = (f.name, 'path-ok')
            if dk not in self.reports:
                self.reports[dk] = Report('R11.1', True, None,
                                          sample={'function': base_name(f.pretty), 'tracked_parameters': list(self.tracked),
                                                  'config': self.cfg.name})


LISTED = {'push_back', 'emplace_back', 'insert', 'emplace', 'resize'}


def analyse_tu(eng, cfg):
    orc = eng.oracle
    rule = AliasRule(eng, cfg)
    pub = [f for f in irrules.gch_roots(eng)
           if 'gch::small_vector<' in (f.pretty or '').split('(')[0] and 'detail::' not in (f.pretty or '').split('(')[0]
           and base_name(f.pretty) in LISTED]
    reach = set()
    work = [f.name for f in pub]
    while work:
        x = work.pop()
        if x in reach:
            continue
        reach.add(x)
        for (cn, lb, ins) in orc._calls.get(x, ()):
            g = eng.mod.funcs.get(cn)
            if g is not None and orc.is_gch(cn) and not irrules.is_ctor(g) and not irrules.is_dtor(g):
                work.append(cn)
    if getattr(cfg, 'canary', False):
        reach |= set(f.name for f in irrules.gch_roots(eng) if 'canary_' in (f.pretty or ''))
    n = 0
    for name in sorted(reach):
        f = eng.mod.funcs[name]
        tp = tracked_params(f)
        if not tp or not orc.writes_fields.get(name):
            continue
        rule.tracked = tuple(tp)
        n += 1
        eng.walk(f, [rule])
    return {'reports': list(rule.reports.values()), 'entry_points': n}
