"""C13 — bulk-copy fast paths are unobservable; converting inputs are value-converted (DESIGN section 6, C13)."""
from .. import common
from . import parts


def run(tier):
    ck = common.Check('C13', tier)
    parts.run_parts(ck, tier, witness_parts=('c13_traits', 'c13_twins'), ir_parts=('ir_rawcopy',))
    # R13.5: law agreement between the byte-copy and the element-wise twins of the range helpers
    from .. import corpus, irrules
    from . import ir_twins
    res = corpus.run_over(corpus.corpus(tier), 'svlib.rules.ir_twins', 'analyse_tu')
    irrules.aggregate(ck, res)
    n = ir_twins.compare(ck, [r['res'] for r in res if r['ok']])
    ck.floor('range-helper laws compared between element flavours', n, 60 if tier == 'quick' else 600)
    ck.finish(
        'R13.5 (IR): every pure range helper (2-3 element pointers in, a position out) has the same inferred law - result and '
        'destination/source byte ranges - whether the configuration selects its memcpy/memmove implementation or its element-wise one. '
        'R13.1 (type level): over a grid of (From, To) value pairs and iterator kinds, whenever one of the header\'s byte-copy '
        'traits (is_memcpyable, is_uninitialized_memcpyable, is_memcpyable_integral, is_convertible_pointer, '
        'is_contiguous_iterator, is_(uninitialized_)memcpyable_iterator) says yes, an oracle written from [conv] and the Itanium '
        'ABI says the conversion is representation-preserving / the iterator is contiguous. R13.2: for every operation x '
        'minimal-requirement archetype, the trivially copyable twin compiles iff the non-trivial twin does (the shortcuts add no '
        'requirement), and a converting range accepted through a generic iterator is accepted through every contiguous kind, per '
        'compiler and standard. R13.3 (IR): every raw memcpy/memmove has length count x sizeof (value_type) with count the range '
        'length that also determines the returned end. Not decided: equality of results over whole histories.')
