"""C09 — moves and swaps steal heap buffers in O(1) and leave a clean source (DESIGN section 6, C09)."""
from .. import common
from . import parts


def run(tier):
    ck = common.Check('C09', tier)
    res = parts.run_parts(ck, tier, ir_parts=('ir_steal',))
    from .. import irrules
    irrules.run_canaries(ck, {'ir_steal': [('R09.1', 'canary_steal_then_touch')]})
    r = res.get('ir_steal', [])
    ck.floor('paths that adopt another container\'s buffer', sum(x['res']['steal_paths'] for x in r), 300 if tier == 'quick' else 3000)
    ck.floor('element-wise transfer paths', sum(x['res']['elementwise_paths'] for x in r), 300 if tier == 'quick' else 3000)
    ck.assumptions += ['allocator operator== decides interchangeability for non-propagating allocators',
                       'the noexcept side of the statement is decided under C18']
    ck.finish(
        'On every path of the move constructors, move assignment, assign(small_vector&&), swap and everything they reach: '
        'R09.1 a path that adopts another container\'s (pointer, capacity) words runs no element constructor/assignment/swap/'
        'destructor on a pointer based on that buffer (so element addresses are preserved and nothing in the buffer is touched); '
        'R09.2 a path that transfers elements one by one between two containers carries a path condition showing that stealing '
        'was not permitted (capacity(source) <= an inline capacity, or allocators compared unequal); R09.3 after a steal by a '
        'move operation the source holds its inline buffer, its inline capacity and size 0.')
