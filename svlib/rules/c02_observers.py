"""C02, E4 part — R02.6 (contiguity and iterator agreement) and the observer side of R02.3
(`capacity()` reads the discriminant word, `inlined()` is `!(N < CAP)`).

For every instantiation of a small corpus the public observers are compiled (never run) to their
`-O2` closed forms (svlib/norm.py) and compared with the formula the property states, written over
the three state words:

    size() = SIZE          capacity() = CAP         data() = DATA (mutable and const)
    &v[i] = DATA + i*sizeof(T)     &front() = DATA      &back() = DATA + (SIZE-1)*sizeof(T)
    end()-begin() = cend()-cbegin() = rend()-rbegin() = crend()-crbegin() = SIZE
    begin().base() = DATA   end().base() = DATA + SIZE*sizeof(T)   (all six flavours, reverse ones too)
    empty() = (SIZE == 0)   inlinable() = (SIZE <= N)   inlined() = !(N < CAP)   inline_capacity() = N
    &v.at(i) = DATA + i*sizeof(T) on the edge !(SIZE <= i), a noreturn call otherwise
    iterator: one pointer, trivially copyable, `*it` goes through the pointer stored at offset 0

Where the three words live is *not* taken from the normal forms: it comes from the record layout
clang's debug info gives for the members named m_data_ptr / m_capacity / m_size (the names the
shipped visualisers rely on), cross-checked against `-fdump-record-layouts`.  If those names do not
exist (a pure rename), the roles are discovered structurally instead (DATA/SIZE := the two words
`end()` is computed from — [container.requirements]: size() == distance(begin(), end()); CAP := the
remaining word of that record) and the run says so; every observer is still checked.

Not decided here: anything about *writers* (R02.1/2/4/5 are E3 rules); that DATA is a live block.
"""
from .. import common, norm

RULE6 = 'R02.6'
RULE3 = 'R02.3'
FILE = common.HEADER_REL

WORD_NAMES = ('m_data_ptr', 'm_capacity', 'm_size')


class Roles(object):
    """Where DATA / CAP / SIZE live in the object `arg0` refers to."""

    def __init__(self):
        self.data = self.cap = self.size = None     # (offset, nbytes)
        self.how = None

    def lin(self, which, k=0):
        off, nb = getattr(self, which)
        return norm.field(k, off, nb)

    def names(self, k=0):
        return {(k,) + self.data: 'DATA', (k,) + self.cap: 'CAP', (k,) + self.size: 'SIZE'}


def discover_roles(m, failed, what='svn_m_size'):
    """Roles from the debug-info record of the wrapper's parameter; see module docstring."""
    rec = m.param_record(what, 0)
    r = Roles()
    found = {}
    for nm in WORD_NAMES:
        hits = [e for e in norm.find_member(rec, nm) if not e['static']]
        if len(hits) == 1 and hits[0]['offset'] is not None and hits[0]['size']:
            found[nm] = (hits[0]['offset'], hits[0]['size'])
        elif len(hits) > 1:
            raise common.AnalysisBroken('C02 observers: member name %s is ambiguous in %s' % (nm, rec.qualified))
    if len(found) == 3:
        r.data, r.cap, r.size = found['m_data_ptr'], found['m_capacity'], found['m_size']
        r.how = 'by member name (debug info)'
        return r, rec
    # structural fallback
    if 'svn_m_end' in failed:
        raise common.AnalysisBroken('C02 observers: no member names and end() does not compile')
    e = m.normal_form('svn_m_end').expr
    if not isinstance(e, norm.Lin) or e.c != 0 or len(e.t) != 2:
        raise common.AnalysisBroken('C02 observers: members %s not found in %s and end().base() is not '
                                    'of the form p + S*n: %s' % ('/'.join(n for n in WORD_NAMES if n not in found),
                                                                 rec.qualified, norm.show(e)))
    data = size = None
    for a, k in e.t.items():
        f = norm.field_of_atom(a)
        if f is None or f[0] != 0:
            raise common.AnalysisBroken('C02 observers: end().base() reads something that is not a field of *this')
        if k == 1 and f[2] == 8 and data is None:
            data = (f[1], f[2])
        else:
            size = (f[1], f[2])
    if data is None or size is None:
        raise common.AnalysisBroken('C02 observers: cannot tell the pointer word from the count in ' + norm.show(e))
    # CAP: the other scalar of the innermost record that holds SIZE
    leaves = [x for x in norm.flatten(rec) if x['kind'] in ('pointer', 'int') and not x['static']]
    holder = None
    for x in leaves:
        if (x['offset'], x['size']) == size:
            holder = x['via'][:-1]
    sib = [x for x in leaves if x['via'][:-1] == holder and (x['offset'], x['size']) not in (size, data)]
    sib = [x for x in sib if x['size'] == size[1]]
    if holder is None or len(sib) != 1:
        raise common.AnalysisBroken('C02 observers: cannot identify the capacity word structurally in ' + rec.qualified)
    r.data, r.size, r.cap = data, size, (sib[0]['offset'], sib[0]['size'])
    r.how = ('structurally (member(s) %s not present: DATA/SIZE from end(), CAP = remaining word)'
             % ', '.join(n for n in WORD_NAMES if n not in found))
    return r, rec


def const_of(m, failed, name):
    if name in failed:
        raise common.AnalysisBroken('C02 observers: constant wrapper %s does not compile: %s' % (name, failed[name]))
    e = m.normal_form(name).expr
    if isinstance(e, norm.Lin) and e.is_const():
        return e.c
    if isinstance(e, norm.Pred) and e.kind in ('true', 'false'):
        return e.kind == 'true'
    raise common.AnalysisBroken('C02 observers: %s did not fold to a constant: %s' % (name, norm.show(e)))


def expectations(inst, roles, S, idx_bits):
    """[(rule, wrapper, public function, statement, expected expr or callable)]"""
    D, C, Z = roles.lin('data'), roles.lin('cap'), roles.lin('size')
    N = inst.N
    i = norm.arg(1, idx_bits)
    end = D + S * Z
    ex = [
        (RULE6, 'm_size', 'size', 'size() == SIZE', Z),
        (RULE3, 'm_capacity', 'capacity', 'capacity() == CAP', C),
        (RULE6, 'm_data', 'data', 'data() == DATA', D),
        (RULE6, 'm_data_c', 'data const', 'data() const == DATA', D),
        (RULE6, 'm_index', 'operator[]', '&v[i] == DATA + i*sizeof(T)', D + S * i),
        (RULE6, 'm_index_c', 'operator[] const', '&v[i] == DATA + i*sizeof(T)', D + S * i),
        (RULE6, 'm_front', 'front', '&front() == DATA', D),
        (RULE6, 'm_front_c', 'front const', '&front() == DATA', D),
        (RULE6, 'm_back', 'back', '&back() == DATA + (SIZE-1)*sizeof(T)', D + S * (Z - 1)),
        (RULE6, 'm_back_c', 'back const', '&back() == DATA + (SIZE-1)*sizeof(T)', D + S * (Z - 1)),
        (RULE6, 'm_diff', 'begin/end', 'end() - begin() == SIZE', Z),
        (RULE6, 'm_diff_c', 'begin/end const', 'end() - begin() == SIZE', Z),
        (RULE6, 'm_cdiff', 'cbegin/cend', 'cend() - cbegin() == SIZE', Z),
        (RULE6, 'm_rdiff', 'rbegin/rend', 'rend() - rbegin() == SIZE', Z),
        (RULE6, 'm_rdiff_c', 'rbegin/rend const', 'rend() - rbegin() == SIZE', Z),
        (RULE6, 'm_crdiff', 'crbegin/crend', 'crend() - crbegin() == SIZE', Z),
        (RULE6, 'm_begin', 'begin', 'begin().base() == DATA', D),
        (RULE6, 'm_begin_c', 'begin const', 'begin().base() == DATA', D),
        (RULE6, 'm_cbegin', 'cbegin', 'cbegin().base() == DATA', D),
        (RULE6, 'm_end', 'end', 'end().base() == DATA + SIZE*sizeof(T)', end),
        (RULE6, 'm_end_c', 'end const', 'end().base() == DATA + SIZE*sizeof(T)', end),
        (RULE6, 'm_cend', 'cend', 'cend().base() == DATA + SIZE*sizeof(T)', end),
        (RULE6, 'm_rbegin', 'rbegin', 'rbegin().base().base() == DATA + SIZE*sizeof(T)', end),
        (RULE6, 'm_rbegin_c', 'rbegin const', 'rbegin().base().base() == DATA + SIZE*sizeof(T)', end),
        (RULE6, 'm_crbegin', 'crbegin', 'crbegin().base().base() == DATA + SIZE*sizeof(T)', end),
        (RULE6, 'm_rend', 'rend', 'rend().base().base() == DATA', D),
        (RULE6, 'm_rend_c', 'rend const', 'rend().base().base() == DATA', D),
        (RULE6, 'm_crend', 'crend', 'crend().base().base() == DATA', D),
        (RULE6, 'm_begin_deref', 'begin', '&*begin() == DATA', D),
        (RULE6, 'm_empty', 'empty', 'empty() == (SIZE == 0)', norm.eq(Z, 0)),
        (RULE6, 'm_inlinable', 'inlinable', 'inlinable() == (SIZE <= N)', norm.le(Z, N)),
        (RULE3, 'm_inlined', 'inlined', 'inlined() == !(N < CAP)', norm.not_(norm.lt(N, C))),
        (RULE6, 'k_inline_capacity', 'inline_capacity', 'inline_capacity() == N', norm.Lin.const(N)),
    ]
    for w, fn in (('m_at', 'at'), ('m_at_c', 'at const')):
        ex.append((RULE6, w, fn, '&at(i) == DATA + i*sizeof(T) unless SIZE <= i (then a noreturn call)',
                   ('guarded', norm.not_(norm.le(Z, i)), D + S * i)))
    return ex


def check_instance(ck, inst, std, counters, conds):
    m, failed = norm.observers(inst, std)
    unit = 'observers-%s/%s' % (inst.tag, std)
    ck.unit(unit)
    roles, rec = discover_roles(m, failed)
    if not roles.how.startswith('by member name'):
        ck.note('%s: roles discovered %s' % (unit, roles.how))
        counters['structural'] += 1
    names = roles.names()
    # three independent sources must agree on sizeof (V): debug info, the front end's
    # dereferenceable(n), and (checked inside norm) the own layout of the IR struct type
    nf0 = m.normal_form('svn_m_size')
    if nf0.params and nf0.params[0][2] is not None and nf0.params[0][2] != rec.size:
        raise common.AnalysisBroken('C02 observers: sizeof (%s) is %d in debug info but the reference parameter is '
                                    'dereferenceable(%d)' % (inst.V, rec.size, nf0.params[0][2]))
    S = const_of(m, failed, 'svn_k_sizeof_T')
    f = m.function('svn_m_index') if 'svn_m_index' not in failed and 'svn_m_index' in m.functions else None
    idx_bits = 8 * roles.size[1]
    if f is not None and len(f.params) == 2:
        idx_bits = m.normal_form('svn_m_index').params[1][0]
    where = {'instantiation': inst.V, 'std': std, 'unit': unit, 'roles': roles.how,
             'DATA': roles.data, 'CAP': roles.cap, 'SIZE': roles.size, 'sizeof(T)': S}
    for rule, w, fn, stmt, want in expectations(inst, roles, S, idx_bits):
        name = 'svn_' + w
        key = {'function': 'small_vector::' + fn, 'statement': stmt}
        if name in failed:
            raise common.AnalysisBroken('C02 observers: wrapper %s (%s) does not compile for %s -std=%s: %s'
                                        % (name, stmt, inst.V, std, failed[name]))
        nf = m.normal_form(name)
        counters['normalised'] += 1
        for c in nf.conds:
            conds.add(c.split(' [')[0])
        got = nf.expr
        ok = False
        if isinstance(want, tuple) and want[0] == 'guarded':
            # Guarded already means: the other arm is {call; unreachable}, i.e. a call that does not return
            ok = isinstance(got, norm.Guarded) and got.cond == want[1] and got.value == want[2]
            want_s = '[%s] -> %s ; else noreturn call' % (norm.show(want[1], names), norm.show(want[2], names))
        else:
            ok = got == want
            want_s = norm.show(want, names)
        if ok and w in ('m_size', 'm_capacity') and nf.bits != 8 * roles.size[1]:
            ok = False
            want_s += ' as a %d-bit value' % (8 * roles.size[1])
        if ok:
            ck.ok(rule, sample={'instantiation': inst.V, 'std': std, 'statement': stmt,
                                'normal_form': norm.show(got, names), 'roles': roles.how})
        else:
            ck.violation(rule, key,
                         '%s: `%s` — %s does not hold: its -O2 normal form is `%s`, expected `%s` '
                         '(first seen for %s, -std=%s; DATA/CAP/SIZE located %s)'
                         % (FILE, 'gch::small_vector::' + fn, stmt, norm.show(got, names), want_s,
                            inst.V, std, roles.how),
                         dict(where, wrapper=name, got=norm.show(got), got_named=norm.show(got, names),
                              expected=want_s))
    # iterator: a single pointer
    irec = m.param_record('svn_it_deref', 0)
    crec = m.param_record('svn_cit_deref', 0)
    for label, rc, w in (('iterator', irec, 'svn_it_deref'), ('const_iterator', crec, 'svn_cit_deref'),
                         ('iterator', irec, 'svn_it_arrow')):
        leaves = [x for x in norm.flatten(rc) if x['kind'] not in ('base', 'static', 'record')]
        key = {'function': 'small_vector_iterator::operator' + ('->' if w.endswith('arrow') else '*'),
               'statement': 'iterator is a single pointer and dereferences through it'}
        nf = m.normal_form(w)
        counters['normalised'] += 1
        got = nf.expr
        ok = (len(leaves) == 1 and leaves[0]['kind'] == 'pointer' and leaves[0]['offset'] == 0
              and rc.size == leaves[0]['size'] and got == norm.field(0, 0, leaves[0]['size']))
        if ok:
            ck.ok(RULE6, sample={'instantiation': inst.V, 'std': std, 'statement': '&*it == the pointer stored in ' + rc.qualified,
                                 'normal_form': norm.show(got)})
        else:
            ck.violation(RULE6, key,
                         '%s: `%s` (%s of %s) is not a single-pointer wrapper dereferencing its stored pointer: '
                         'data members %s, sizeof %s, `&*it` normalises to `%s`'
                         % (FILE, rc.qualified, label, inst.V,
                            [(x['path'], x['offset'], x['size']) for x in leaves], rc.size, norm.show(got)),
                         dict(where, wrapper=w))
    sz_it = const_of(m, failed, 'svn_k_sizeof_iterator')
    sz_cit = const_of(m, failed, 'svn_k_sizeof_const_iterator')
    sz_p = const_of(m, failed, 'svn_k_sizeof_pointer')
    triv = const_of(m, failed, 'svn_k_iterator_trivially_copyable')
    if sz_it == sz_p == sz_cit and triv is True:
        ck.ok(RULE6, sample={'instantiation': inst.V, 'std': std,
                             'statement': 'sizeof(iterator) == sizeof(const_iterator) == sizeof(pointer), trivially copyable',
                             'value': sz_it})
    else:
        ck.violation(RULE6, {'function': 'small_vector_iterator', 'statement': 'sizeof(iterator) == sizeof(pointer), trivially copyable'},
                     '%s: small_vector_iterator of %s is not a thin pointer wrapper: sizeof(iterator)=%s, '
                     'sizeof(const_iterator)=%s, sizeof(pointer)=%s, trivially copyable=%s'
                     % (FILE, inst.V, sz_it, sz_cit, sz_p, triv), where)
    return roles, rec


def cross_check_layouts(ck, insts, std, recs):
    """Second source for the offsets: clang's record-layout dump must agree with the debug info."""
    probes = dict(('svn_probe_%d' % k, i.V) for k, i in enumerate(insts))
    dumped = norm.dump_layouts('c02-layouts', norm.PRELUDE, probes, std=std)
    n = 0
    for k, inst in enumerate(insts):
        rec = recs.get((inst.tag, std))
        if rec is None:
            continue
        di = norm.layout_dict(rec)
        dp = dumped['svn_probe_%d' % k]
        for path, (off, size) in di.items():
            q = 'm.' + path
            if q not in dp:
                raise common.AnalysisBroken('C02 observers: member path %s of %s is in the debug info but '
                                            'not in -fdump-record-layouts' % (path, inst.V))
            if dp[q] != off:
                raise common.AnalysisBroken('C02 observers: offset of %s in %s differs between debug info '
                                            '(%d) and -fdump-record-layouts (%d)' % (path, inst.V, off, dp[q]))
            n += 1
    return n


def collect(ck, tier):
    insts = norm.corpus(tier)
    stds = norm.stds(tier)
    norm.prefetch_observers(insts, stds)
    counters = {'normalised': 0, 'structural': 0}
    conds = set()
    recs = {}
    for inst in insts:
        for std in stds:
            roles, rec = check_instance(ck, inst, std, counters, conds)
            recs[(inst.tag, std)] = rec
    npaths = cross_check_layouts(ck, insts, 'c++17', recs)
    ck.floor('C02 observers normalised', counters['normalised'], 500 if tier == 'quick' else 15000)
    ck.floor('C02 layout paths cross-checked (debug info vs -fdump-record-layouts)', npaths,
             40 if tier == 'quick' else 500)
    ck.extra['c02_observers'] = {'instantiations': len(insts), 'standards': stds,
                                 'normalised': counters['normalised'],
                                 'layout_paths_cross_checked': npaths,
                                 'units_with_structural_roles': counters['structural']}
    for c in sorted(conds):
        a = 'E4 side condition: ' + c
        if a not in ck.assumptions:
            ck.assumptions.append(a)
    for a in ('LLVM 14 -O2 as the normaliser of loop-free observers (E4)', norm.TOOLCHAIN_NOTE,
              'x86-64 Itanium ABI layout as reported by clang 14 debug info and -fdump-record-layouts'):
        if a not in ck.assumptions:
            ck.assumptions.append(a)
