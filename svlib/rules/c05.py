"""C05 — strong exception guarantee (DESIGN section 6, C05)."""
from .. import common
from . import parts


def run(tier):
    ck = common.Check('C05', tier)
    def keep(p, x):
        if p != 'ir_alloc':
            return True
        # leak-freedom of the failed call (R04.1 on unwind exits) is part of the statement ("nothing leaked")
        return (x.ok and x.sample and x.sample.get('exit') == 'unwind') or (not x.ok and x.key.get('exit') == 'unwind')
    res = parts.run_parts(ck, tier, ir_parts=('ir_strong', 'ir_alloc'), rule_filter=keep)
    from .. import irrules
    irrules.run_canaries(ck, {'ir_strong': [('R05.2', 'canary_size_first')]}, silent=('canary_ok_alloc',))
    r = res.get('ir_strong', [])
    ck.floor('public entry points walked', sum(x['res']['entry_points'] for x in r), 200 if tier == 'quick' else 2000)
    ck.floor('complete paths judged', sum(x['res']['paths'] for x in r), 4000 if tier == 'quick' else 40000)
    ck.extra['single_pass_overloads_not_covered'] = sum(x['res']['single_pass_skipped'] for x in r)
    ck.assumptions += ['GCH_NO_STRONG_EXCEPTION_GUARANTEES is not defined (the documented opt-out)',
                       'only pointers based on the data pointer observed on entry address the container\'s elements at public entry points',
                       'construct-only helpers (uninitialized_*) destroy only what they built (checked separately as R03.2)']
    ck.finish(
        'On every complete path (helpers expanded, unwind edges included) of push_back, emplace_back, reserve, resize, shrink_to_fit, '
        'append (multi-pass) and of single-element insert/emplace sliced to pos == end(): R05.1 with a throwing-move copyable element no '
        'call that can move-construct from elements existing on entry is reachable; R05.2 no write of size/pointer/capacity, no '
        'move-from/assignment/destruction of existing elements and no release of the old buffer precedes a call from which an element '
        'constructor, the allocator or length_error can throw; plus no allocation is leaked on any unwind exit. Single-pass append '
        '(roll-back by handler) and append(small_vector&&)\'s source clause are reported as not covered.')
