"""C12 — max_size(), length_error, no wrap (DESIGN section 6, C12)."""
from .. import common, corpus
from . import parts


def narrow_corpus(tier):
    C = corpus.Cfg
    out = [C('int', 0, 0, 1, sizet='u8'), C('int', 2, 4, 0, sizet='u8'), C('NM', 2, 4, 0, sizet='u8'),
           C('TR', 2, 2, 7, sizet='u16'), C('NM', 2, 4, 0, sizet='u32')]
    if tier == 'thorough':
        for st in ('u8', 'u16', 'u32'):
            for e in ('int', 'NM', 'TM', 'TR'):
                for (n, m) in ((0, 2), (2, 4), (4, 2)):
                    out.append(C(e, n, m, 0, sizet=st))
                    out.append(C(e, n, m, 7, sizet=st, std='c++20'))
    return out


def run(tier):
    ck = common.Check('C12', tier)
    cfgs = corpus.corpus(tier)
    seen = set(c.name for c in cfgs)
    for c in narrow_corpus(tier):
        if c.name not in seen:
            seen.add(c.name)
            cfgs.append(c)
    res = parts.run_parts(ck, tier, ir_parts=('ir_bounds',), cfgs=cfgs)
    r = res.get('ir_bounds', [])
    from .. import irrules
    irrules.run_canaries(ck, {'ir_bounds': [('R12.1', 'canary_unbounded')]}, silent=('canary_ok_bounded',))
    ck.floor('allocation requests examined', sum(x['res']['allocation_sites'] for x in r),
             800 if tier == 'quick' else 8000)
    ck.floor('narrowing conversions of caller-supplied lengths examined', sum(x['res']['truncs'] for x in r), 2)
    ck.floor('throw sites examined', sum(x['res']['throw_sites'] for x in r), 20)
    ck.assumptions += ['max_size() of an allocator object does not change between calls',
                       'size() <= max_size() holds on entry (the property itself; used for n = size + 1 under the guard max_size != size)',
                       'sizes narrower than int are zero-extended, so signed comparisons of promoted sizes are unsigned comparisons']
    ck.finish(
        'R12.1: for every allocator call reachable in every instantiated function, the requested count is a constant, the '
        'size/capacity of an existing container, max_size() itself, or a term for which the path carries a length_error guard '
        '(max < n, max - size < n, max == size for size + 1, or the saturating growth computation with its overflow test). '
        'R12.2: guards throw std::length_error, at() throws std::out_of_range. R12.3: with an 8-bit size_type every narrowing '
        'of a caller-supplied range length is dominated by a check against the narrow maximum (NDEBUG flavour, as users build). '
        'Not decided: "never writes past what it obtained" beyond these guards; exhaustive 8-bit histories.')
