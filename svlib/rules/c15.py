"""C15 — single-pass inputs consumed exactly once, in order, never past the end (DESIGN section 6, C15)."""
from .. import common
from . import parts


def run(tier):
    ck = common.Check('C15', tier)
    def keep(part, x):
        if part != 'ir_laws':
            return True
        # of the operation laws (C01) only the single-pass / multi-pass iterator overloads: their result
        # must be the position std::vector specifies - the same as for a random-access range
        op = (x.key or {}).get('operation') if not x.ok else (x.sample or {}).get('operation')
        return x.rule == 'R01.2' and op is not None and ', x' in op
    res = parts.run_parts(ck, tier, ir_parts=('ir_iter', 'ir_laws'), rule_filter=keep)
    from .. import irrules
    irrules.run_canaries(ck, {'ir_iter': [('R15.1', 'canary_double_deref')]})
    r = res.get('ir_iter', [])
    ck.floor('functions receiving the opaque input iterator', sum(x['res']['functions'] for x in r), 80 if tier == 'quick' else 800)
    ck.floor('iterator operations interpreted', sum(x['res']['iterator_events'] for x in r), 5000 if tier == 'quick' else 50000)
    ck.floor('generator constructors', sum(x['res']['generator_functions'] for x in r), 10 if tier == 'quick' else 100)
    ck.assumptions += ['the probe input iterator\'s operator*, ++, ==, != and copy constructor are undefined externals, so every use is a visible call',
                       'loops are explored for zero, one and an arbitrary later iteration (typestate repeats)']
    ck.finish(
        'R15.1: typestate per input-iterator object on every path of every instantiated function that receives the opaque input '
        'iterator (constructor, assign, insert, append and their helpers): dereference only after a comparison against the end said '
        '"not at end", exactly one dereference per position, increment only after the read, and no use of a copy that shares its position '
        'with an iterator advanced since (handing an iterator to a callee that can advance it makes other copies stale). '
        'R15.2: the generator constructor calls the generator at exactly one site, inside one loop, on every path through the loop '
        'body, and the loop is bounded by begin + count. R01.2 (from the operation laws of C01, iterator-category overloads only): the '
        'iterator returned by insert/append with a single-pass or forward range is the specified position relative to data() after the '
        'call - in particular not an address computed before a step that may reallocate. Not decided: equality of the resulting '
        'contents with a random-access range; R15.3 '
        '(forward ranges not walked past last) is covered only through C12\'s length guards.')
