"""C16, E4 part — R16.3: every non-member of the `begin … crend, size, ssize, empty, data`
family has the same `-O2` normal form (and the same return type) as the corresponding member on
the same instantiation, and non-member `swap (a, b)` is `a.swap (b)`.

* begin/end families: `gch::f (v)` is reduced to the raw pointer it wraps (`.base ()`, twice for
  reverse iterators) and compared, as an expression over the words of `v`, with the member's form;
  both const and non-const overloads.  `decltype (gch::f (v))` must be `decltype (v.f ())`.
* `ssize`: same form as `static_cast<R> (v.size ())` with
  `R = common_type_t<ptrdiff_t, make_signed_t<size_type>>` ([iterator.range] std::ssize; the type the
  property's anchor names), and `decltype (gch::ssize (v))` must be `R`.
* `swap`: compiled `-O2 -fno-inline`, the body of `gch::swap<…>` must consist of exactly one call,
  to the function `a.swap (b)` itself calls, with the two references as arguments (either order:
  swap is symmetric).  If the body is not of that shape the two wrappers' fully inlined `-O2` forms
  are compared instead (possible when swap is loop-free: N == 0).  For N == 0 with an empty
  allocator the inlined form must in addition be the exchange of every word of the two objects.

The oracle is the member itself (which C02's observer rules tie to the state words), i.e. the
property's own words "agree with the corresponding members".  Not decided here: comparisons,
erase/erase_if (R16.1/2), overload existence (R16.4).
"""
from .. import common, norm
from . import c02_observers

RULE = 'R16.3'
FILE = common.HEADER_REL

SWAP_FLAGS = ('-O2', '-DNDEBUG', '-fno-inline')


def swap_wrappers():
    W = norm.Wrapper
    return [W('svn_m_swap', 'V& a, V& b', 'a.swap (b)', void=True),
            W('svn_n_swap', 'V& a, V& b', 'gch::swap (a, b)', void=True),
            W('svn_t_swap_noexcept', 'V& a, V& b', 'noexcept (gch::swap (a, b)) == noexcept (a.swap (b))')]


def single_call(nf):
    """(callee, args) if the normal form is `one call, no store, no value`."""
    if nf.expr is None and not nf.effects and len(nf.calls) == 1:
        return nf.calls[0]
    return None


def check_swap(ck, inst, std, counters):
    pre = norm.observer_prelude(inst)
    unit = 'swap-%s/%s' % (inst.tag, std)
    ck.unit(unit)
    key = {'function': 'gch::swap', 'statement': 'swap (a, b) is a.swap (b)'}
    where = {'instantiation': inst.V, 'std': std, 'unit': unit}
    m, failed = norm.compile_wrappers('swap-' + inst.tag, pre, swap_wrappers(), std=std, flags=SWAP_FLAGS)
    if 'svn_m_swap' in failed:
        raise common.AnalysisBroken('C16 forms: a.swap (b) does not compile for %s: %s' % (inst.V, failed['svn_m_swap']))
    if 'svn_n_swap' in failed:
        ck.violation(RULE, key, '%s: non-member `gch::swap (a, b)` is ill-formed for %s (-std=%s) although '
                     '`a.swap (b)` is well-formed: %s' % (FILE, inst.V, std, failed['svn_n_swap']), where)
        return
    a0, a1 = norm.arg(0), norm.arg(1)
    mem = single_call(m.normal_form('svn_m_swap'))
    non = single_call(m.normal_form('svn_n_swap'))
    counters['normalised'] += 2
    verdict = None
    detail = {}
    if mem is not None and non is not None and mem[1] == [a0, a1] and non[1] == [a0, a1]:
        target = mem[0]
        outer = non[0]
        if outer == target:
            verdict = True      # (cannot happen without inlining, but it would be the member itself)
        elif outer in m.functions:
            try:
                body = single_call(m.normal_form(outer))
            except common.AnalysisBroken as e:
                if 'invoke' not in str(e):
                    raise
                # the call of the member is an `invoke` with a terminate pad: the non-member is
                # declared non-throwing although the member swap it calls may throw
                body = None
                verdict = ('calls the member swap under a terminate pad: it is declared noexcept although `a.swap (b)` may throw '
                           'for this instantiation')
            counters['normalised'] += 1
            detail = {'non_member': outer, 'member': target, 'body': body and (body[0], [norm.show(x) for x in body[1]])}
            if body is not None:
                if body[0] == target and sorted(body[1], key=repr) == sorted([a0, a1], key=repr):
                    verdict = True
                elif body[0] == target:
                    verdict = ('calls the member swap with arguments (%s) instead of the two containers'
                               % ', '.join(norm.show(x) for x in body[1]))
                else:
                    verdict = 'calls %s, which is not the function a.swap (b) calls (%s)' % (body[0], target)
    if verdict is None:
        # fall back to fully inlined closed forms
        m2, failed2 = norm.compile_wrappers('swap-inl-' + inst.tag, pre, swap_wrappers(), std=std,
                                            flags=norm.O2_FLAGS)
        try:
            f1 = m2.normal_form('svn_m_swap')
            f2 = m2.normal_form('svn_n_swap')
        except common.AnalysisBroken as e:
            raise common.AnalysisBroken('C16 forms: gch::swap for %s is neither a single call of the member '
                                        'swap nor reducible to a closed form (%s)' % (inst.V, str(e)[:300]))
        counters['normalised'] += 2
        verdict = True if f1.same_value(f2) else 'its inlined -O2 form stores different values than a.swap (b)'
    if verdict is True:
        ck.ok(RULE, sample=dict(where, statement='body of gch::swap is one call of the function a.swap (b) calls',
                                **{k: str(v) for k, v in detail.items()}))
    else:
        ck.violation(RULE, key, '%s: non-member `gch::swap` for %s (-std=%s) is not `lhs.swap (rhs)`: it %s'
                     % (FILE, inst.V, std, verdict), dict(where, **detail))
    # noexcept mirrored (type-level, folded to a constant by the front end)
    if 'svn_t_swap_noexcept' not in failed:
        e = m.normal_form('svn_t_swap_noexcept').expr
        if e == norm.TRUE:
            ck.ok('R16.2', sample=dict(where, statement='noexcept (swap (a, b)) == noexcept (a.swap (b))'))
        else:
            ck.violation('R16.2', {'function': 'gch::swap', 'statement': 'noexcept mirrors the member'},
                         '%s: `noexcept (gch::swap (a, b))` differs from `noexcept (a.swap (b))` for %s (-std=%s)'
                         % (FILE, inst.V, std), where)
    # N == 0, empty allocator: the whole object is the three words; swap must exchange them
    if inst.N == 0 and inst.ebo:
        m2, failed2 = norm.compile_wrappers('swap-inl-' + inst.tag, pre, swap_wrappers(), std=std,
                                            flags=norm.O2_FLAGS + norm.DI_FLAGS)
        f1 = m2.normal_form('svn_m_swap')
        f2 = m2.normal_form('svn_n_swap')
        counters['normalised'] += 2
        rec = m2.param_record('svn_m_swap', 0)
        leaves = [x for x in norm.flatten(rec) if x['kind'] in ('pointer', 'int') and not x['static']]
        want = {}
        for x in leaves:
            want[(a0 + x['offset']).key()] = (x['size'], norm.field(1, x['offset'], x['size']))
            want[(a1 + x['offset']).key()] = (x['size'], norm.field(0, x['offset'], x['size']))
        k2 = {'function': 'gch::swap', 'statement': 'N == 0, empty allocator: swap exchanges every word of the two objects'}
        if f2.effects == want and f1.effects == want and not f1.calls and not f2.calls and sum(x['size'] for x in leaves) == rec.size:
            ck.ok(RULE, sample=dict(where, statement=k2['statement'], words=[(x['path'], x['offset'], x['size']) for x in leaves]))
        else:
            def eff(f):
                return sorted('%s := %s' % (norm.show(norm.lin_from_key(k)), norm.show(v[1])) for k, v in f.effects.items())
            ck.violation(RULE, k2, '%s: for %s (-std=%s) the -O2 form of `gch::swap (a, b)` / `a.swap (b)` is not the '
                         'exchange of the %d words of the objects: non-member stores %s; member stores %s'
                         % (FILE, inst.V, std, len(leaves), eff(f2), eff(f1)), where)


def check_instance(ck, inst, std, counters, conds):
    m, failed = norm.observers(inst, std)
    unit = 'observers-%s/%s' % (inst.tag, std)
    ck.unit(unit)
    where = {'instantiation': inst.V, 'std': std, 'unit': unit}
    try:   # names of the three words, for readable reports only
        names = c02_observers.discover_roles(m, failed)[0].names()
    except common.AnalysisBroken:
        names = None
    for nm, member, params, nexpr, mexpr, tail in norm.NONMEMBER_OBSERVERS:
        wn = 'svn_' + norm.nm_wrapper_name(nm)
        wm = 'svn_' + member
        wt = 'svn_t_' + nm.replace(' ', '_')
        key = {'function': 'gch::' + nm, 'statement': 'same normal form and type as the member'}
        if wm in failed:
            raise common.AnalysisBroken('C16 forms: member expression `%s` does not compile for %s -std=%s: %s'
                                        % (mexpr, inst.V, std, failed[wm]))
        if wn in failed:
            ck.violation(RULE, key, '%s: non-member `%s` is ill-formed for %s (-std=%s) although `%s` is '
                         'well-formed: %s' % (FILE, nexpr, inst.V, std, mexpr, failed[wn]), where)
            continue
        fn = m.normal_form(wn)
        fm = m.normal_form(wm)
        counters['normalised'] += 2
        for c in fn.conds + fm.conds:
            conds.add(c.split(' [')[0])
        same_type = None
        if wt not in failed:
            e = m.normal_form(wt).expr
            same_type = e == norm.TRUE
        if fn.same_value(fm) and same_type:
            ck.ok(RULE, sample=dict(where, non_member=nexpr + tail, member=mexpr + tail,
                                    normal_form=norm.show(fn.expr, names), same_type=True))
        elif not fn.same_value(fm):
            ck.violation(RULE, key,
                         '%s: non-member `gch::%s` does not agree with the member: `%s` normalises to `%s` but `%s` '
                         'normalises to `%s` (%d-bit vs %d-bit) for %s, -std=%s'
                         % (FILE, nm, nexpr + tail, norm.show(fn.expr, names), mexpr + tail, norm.show(fm.expr, names),
                            fn.bits, fm.bits, inst.V, std),
                         dict(where, non_member=norm.show(fn.expr), member=norm.show(fm.expr)))
        else:
            ck.violation(RULE, {'function': 'gch::' + nm, 'statement': 'same return type as the member'},
                         '%s: `decltype (%s)` is not `decltype (%s)` for %s, -std=%s%s'
                         % (FILE, nexpr, mexpr, inst.V, std,
                            ('' if same_type is not None else ' (type comparison ill-formed: %s)' % failed.get(wt))), where)


def collect(ck, tier):
    insts = norm.corpus(tier)
    stds = norm.stds(tier)
    norm.prefetch_observers(insts, stds)
    counters = {'normalised': 0}
    conds = set()
    for inst in insts:
        for std in stds:
            check_instance(ck, inst, std, counters, conds)
    # swap: every instantiation, every standard (small TUs)
    jobs = [(i, s) for i in insts for s in stds]

    def pre(j):
        try:
            norm.compile_wrappers('swap-' + j[0].tag, norm.observer_prelude(j[0]), swap_wrappers(), std=j[1], flags=SWAP_FLAGS)
            if j[0].N == 0 and j[0].ebo:
                norm.compile_wrappers('swap-inl-' + j[0].tag, norm.observer_prelude(j[0]), swap_wrappers(), std=j[1],
                                      flags=norm.O2_FLAGS + norm.DI_FLAGS)
        except common.AnalysisBroken:
            pass
    common.pmap(pre, jobs)
    for inst, std in jobs:
        check_swap(ck, inst, std, counters)
    ck.floor('C16 non-member/member normal forms compared', counters['normalised'], 600 if tier == 'quick' else 18000)
    ck.extra['c16_forms'] = {'instantiations': len(insts), 'standards': stds, 'normalised': counters['normalised']}
    for c in sorted(conds):
        a = 'E4 side condition: ' + c
        if a not in ck.assumptions:
            ck.assumptions.append(a)
    for a in ('LLVM 14 -O2 as the normaliser of loop-free observers (E4)', norm.TOOLCHAIN_NOTE):
        if a not in ck.assumptions:
            ck.assumptions.append(a)
