"""C13 / R13.2 — twin agreement over minimal-requirement archetypes; converting ranges (engine E1).

R13.2a  For every operation x archetype the call is instantiated (in a function template that is
        never called) for a NON-TRIVIAL twin (user-provided special members, declared only) and
        for a TRIVIALLY COPYABLE twin (the same members `= default`); the obligation is
            well-formed for the trivial twin  <=>  well-formed for the non-trivial twin
        under every compiler and standard explored.  This is the statement's "accept every element
        type the generic path accepts (no added requirement such as assignability)", and also its
        converse (a shortcut must not accept what the generic path rejects).  The oracle is the
        non-trivial twin itself, i.e. the header's generic path, not a table: where both twins fail
        alike (e.g. resize needs move assignment in both) nothing is reported.
R13.2b  Converting ranges: whenever `small_vector<To>` accepts a range of `From` through a
        non-contiguous iterator of the same value type (std::list<From>::iterator: the generic,
        element-by-element path), it must accept the same range through every contiguous iterator
        kind (From*, std::vector/std::array iterators, small_vector<From> iterators, move_iterator
        of those), under every standard.

Only the compile status of each witness is used (`-fsyntax-only`; nothing is linked or run).
Every witness uses an element type / allocator that is unique to it, because a diagnostic inside
an instantiation shared by two witnesses would be emitted only once.

Twin validity: a pair is only compared in a configuration in which the two twins agree on every
std::is_(nothrow_)X trait other than triviality.  g++ reports `noexcept(false) = default` members
of a trivial class as non-throwing, so the "throwing move" twins are compared under clang++ only.

Not decided: that the two twins produce the same *values* (R13.1, R13.3 and the dynamic part of
the statement), README requirement clauses.
"""
from .. import common, witness
from .c13_traits import grouped_jobs, merge_tables

PRELUDE = '#include "c13_archetypes.hpp"\n'


_TU = r'([0-9a-f]{24}\.cpp):(\d+)'


def _diagnostic_groups(stderr):
    """Split compiler output into one group per error: the context lines that precede it
    (g++: "In instantiation of", "required from"), the error line, the notes that follow it.
    Context lines are assigned by look-ahead: g++ prints an include stack ("In file included
    from") in front of a *note* as well, so a run of context lines belongs to the previous error
    if the next located line is a note and to the next error otherwise."""
    groups = []
    cur = None
    pend = []
    for ln in stderr.splitlines():
        m = witness._LOC.match(ln)
        rest = m.group('rest') if m else ''
        if m and (rest.startswith('error:') or rest.startswith('fatal error:')):
            cur = {'ctx': pend, 'error': ln, 'notes': []}
            groups.append(cur)
            pend = []
        elif m and rest.startswith('warning:'):
            cur = None
            pend = []
        elif m and rest.startswith('note:'):
            if cur is not None:
                cur['notes'] += pend + [ln]
            pend = []
        else:
            pend.append(ln)
    return groups


def status_battery(name, prelude, witnesses, compilers=('g++', 'clang++'), stds=('c++17',),
                   extra_flags=(), shards=1, per_config_filter=None):
    """Same contract, flags and cache as witness.compile_battery (one TU per (compiler, std)),
    for witnesses whose errors arise deep inside template instantiations.  Attribution of an error
    to a witness, in this order: the error's own location; the outermost "required from here"
    of its g++ context; the first "in instantiation of ... requested here" clang note; and, for a
    g++ error that mentions no line of the generated TU at all, the witness of the error before it
    (g++ prints the instantiation context once for consecutive diagnostics raised in the same
    instantiation).  Anything else is unattributable: analysis-broken."""
    import re
    results = {}
    problems = []
    jobs = [(c, s) for c in compilers for s in stds]

    def refs(lines, ranges):
        out = []
        mentioned = False
        for ln in lines:
            if ln.startswith('In file included from') or re.match(r'\s+from ', ln):
                continue        # include stack of a header location, not a witness line
            for m in re.finditer(_TU, ln):
                mentioned = True
                lno = int(m.group(2))
                w = next((w for a, b, w in ranges if a <= lno <= b), None)
                if w is not None:
                    out.append(w)
        return out, mentioned

    def one(job):
        comp, std = job
        part = [w for w in witnesses if per_config_filter is None or per_config_filter(w, comp, std)]
        src_lines = ['// generated battery %s' % name] + prelude.splitlines()
        ranges = []
        for w in part:
            a = len(src_lines) + 1
            src_lines += w.code.splitlines()
            ranges.append((a, len(src_lines), w))
        src = '\n'.join(src_lines) + '\n'
        out, rc, err = common.cached_tool(
            ('witness', name, comp, std, ' '.join(extra_flags)),
            lambda srcp, outp: witness._flags(comp, std, extra_flags) + [srcp], '.out', src_text=src)
        res = {w.tag: ['ok', ''] for w in part}
        groups = _diagnostic_groups(err)
        bad = []
        last = None
        for g in groups:
            own, m0 = refs([g['error']], ranges)
            ctx, m1 = refs(g['ctx'], ranges)
            notes, m2 = refs(g['notes'], ranges)
            if own:
                hit = own[0]
            elif ctx:
                hit = ctx[-1]
            elif notes:
                hit = notes[0]
            elif comp == 'g++' and not (m0 or m1):
                hit = last
            else:
                hit = None
            if hit is None:
                bad.append(g['error'])
            elif res[hit.tag][0] == 'ok':
                res[hit.tag] = ['error', g['error'].strip()[:400]]
            last = hit
        if rc != 0 and not groups:
            bad.append('compiler exit %d without a parsed error: %s' % (rc, err[-500:]))
        return comp, std, res, bad

    for comp, std, res, bad in common.pmap(one, jobs):
        results[(comp, std)] = res
        problems += ['%s -std=%s: %s' % (comp, std, b) for b in bad]
    if problems:
        raise common.AnalysisBroken('battery %s: %d diagnostic(s) not attributable to a witness, '
                                    'first: %s' % (name, len(problems), problems[0][:600]))
    return results


NS = 'c13t::'

# archetype -> needs (for documentation in evidence only)
ARCHETYPES = [
    ('default_only', 'default constructor only; copy/move deleted'),
    ('move_only', 'move constructor + move assignment, noexcept'),
    ('move_only_throwing', 'move constructor + move assignment, noexcept(false)'),
    ('move_construct_only', 'move constructor only, no assignment'),
    ('copy_construct_only', 'copy constructor only, no assignment'),
    ('default_copy_no_assign', 'default + copy constructor, assignment deleted'),
    ('const_member', 'const data member: copy constructor, no assignment'),
    ('default_move_only', 'default + move constructor + move assignment, noexcept'),
    ('default_move_only_throwing', 'default + move constructor + move assignment, noexcept(false)'),
    ('default_move_construct', 'default + move constructor, no assignment'),
    ('copy_only', 'copy constructor + copy assignment'),
    ('regular', 'all six special members, noexcept move'),
    ('regular_throwing_move', 'all six special members, move noexcept(false)'),
]
QUICK_ARCHETYPES = ['default_only', 'move_only', 'move_only_throwing', 'copy_construct_only',
                    'default_copy_no_assign', 'const_member', 'default_move_only']

# operation -> statement(s); available names: SV, T, v, w (SV&), cv (const SV&), m (T&),
# x (const T&), p (T*), cp (const T*), pos (SV::const_iterator)
_MV = 'std::make_move_iterator'
OPERATIONS = [
    ('ctor_default', 'SV a;'),
    ('ctor_count', 'SV a (3);'),
    ('ctor_count_value', 'SV a (3, x);'),
    ('ctor_range_ptr', 'SV a (p, p);'),
    ('ctor_range_const_ptr', 'SV a (cp, cp);'),
    ('ctor_range_small_vector_iterator', 'SV a (v.begin (), v.end ());'),
    ('ctor_range_small_vector_const_iterator', 'SV a (cv.begin (), cv.end ());'),
    ('ctor_range_move_ptr', 'SV a (%s (p), %s (p));' % (_MV, _MV)),
    ('ctor_range_move_small_vector_iterator', 'SV a (%s (v.begin ()), %s (v.end ()));' % (_MV, _MV)),
    ('ctor_range_vector_iterator', 'typename std::vector<T>::iterator i = c13t::any<typename std::vector<T>::iterator> (); SV a (i, i);'),
    ('ctor_range_list_iterator', 'typename std::list<T>::iterator i = c13t::any<typename std::list<T>::iterator> (); SV a (i, i);'),
    ('ctor_range_move_list_iterator', 'typename std::list<T>::iterator i = c13t::any<typename std::list<T>::iterator> (); SV a (%s (i), %s (i));' % (_MV, _MV)),
    ('ctor_range_input_iterator', 'c13t::input_it<T> i = c13t::any<c13t::input_it<T> > (); SV a (i, i);'),
    ('ctor_range_forward_iterator', 'c13t::forward_it<T> i; SV a (i, i);'),
    ('ctor_range_reverse_ptr', 'std::reverse_iterator<T *> i (p); SV a (i, i);'),
    ('ctor_initializer_list', 'SV a (c13t::any<std::initializer_list<T> > ());'),
    ('copy_ctor', 'SV a (cv);'),
    ('move_ctor', 'SV a (std::move (v));'),
    ('copy_ctor_other_capacity', 'gch::small_vector<T, 4> a (cv);'),
    ('move_ctor_other_capacity', 'gch::small_vector<T, 4> a (std::move (v));'),
    ('copy_assign', 'v = cv;'),
    ('move_assign', 'v = std::move (w);'),
    ('assign_count_value', 'v.assign (3, x);'),
    ('assign_range_ptr', 'v.assign (p, p);'),
    ('assign_range_const_ptr', 'v.assign (cp, cp);'),
    ('assign_range_move_ptr', 'v.assign (%s (p), %s (p));' % (_MV, _MV)),
    ('assign_range_list_iterator', 'typename std::list<T>::iterator i = c13t::any<typename std::list<T>::iterator> (); v.assign (i, i);'),
    ('assign_range_input_iterator', 'c13t::input_it<T> i = c13t::any<c13t::input_it<T> > (); v.assign (i, i);'),
    ('push_back_copy', 'v.push_back (x);'),
    ('push_back_move', 'v.push_back (std::move (m));'),
    ('emplace_back_copy', 'v.emplace_back (x);'),
    ('emplace_back_move', 'v.emplace_back (std::move (m));'),
    ('emplace_back_default', 'v.emplace_back ();'),
    ('emplace_move', 'v.emplace (pos, std::move (m));'),
    ('insert_value_copy', 'v.insert (pos, x);'),
    ('insert_value_move', 'v.insert (pos, std::move (m));'),
    ('insert_count_value', 'v.insert (pos, 3, x);'),
    ('insert_range_ptr', 'v.insert (pos, p, p);'),
    ('insert_range_move_ptr', 'v.insert (pos, %s (p), %s (p));' % (_MV, _MV)),
    ('insert_range_list_iterator', 'typename std::list<T>::iterator i = c13t::any<typename std::list<T>::iterator> (); v.insert (pos, i, i);'),
    ('insert_range_input_iterator', 'c13t::input_it<T> i = c13t::any<c13t::input_it<T> > (); v.insert (pos, i, i);'),
    ('erase_one', 'v.erase (pos);'),
    ('erase_range', 'v.erase (pos, pos);'),
    ('pop_back', 'v.pop_back ();'),
    ('resize_count', 'v.resize (3);'),
    ('resize_count_value', 'v.resize (3, x);'),
    ('reserve', 'v.reserve (8);'),
    ('shrink_to_fit', 'v.shrink_to_fit ();'),
    ('swap_member', 'v.swap (w);'),
    ('swap_nonmember', 'swap (v, w);'),
    ('append_range_ptr', 'v.append (p, p);'),
    ('append_range_move_ptr', 'v.append (%s (p), %s (p));' % (_MV, _MV)),
    ('append_range_list_iterator', 'typename std::list<T>::iterator i = c13t::any<typename std::list<T>::iterator> (); v.append (i, i);'),
    ('append_range_input_iterator', 'c13t::input_it<T> i = c13t::any<c13t::input_it<T> > (); v.append (i, i);'),
    ('append_copy_small_vector', 'v.append (cv);'),
    ('append_move_small_vector', 'v.append (std::move (w));'),
    ('clear', 'v.clear ();'),
]
QUICK_OPERATIONS = [
    'ctor_count', 'ctor_count_value', 'ctor_range_ptr', 'ctor_range_small_vector_iterator',
    'ctor_range_move_ptr', 'ctor_range_list_iterator', 'copy_ctor', 'move_ctor', 'copy_assign',
    'move_assign', 'assign_count_value', 'push_back_copy', 'push_back_move', 'insert_value_move',
    'insert_count_value', 'insert_range_ptr', 'erase_one', 'resize_count', 'resize_count_value',
    'reserve', 'shrink_to_fit', 'swap_member', 'append_range_ptr', 'clear',
]

LOCALS = ('typedef gch::small_vector<T, 2> SV; SV& v = c13t::any<SV&> (); SV& w = c13t::any<SV&> (); '
          'const SV& cv = c13t::any<const SV&> (); T& m = c13t::any<T&> (); const T& x = c13t::any<const T&> (); '
          'T *p = c13t::any<T *> (); const T *cp = c13t::any<const T *> (); '
          'typename SV::const_iterator pos = c13t::any<typename SV::const_iterator> ();')

VALIDITY_TRAITS = ['is_default_constructible', 'is_copy_constructible', 'is_move_constructible',
                   'is_copy_assignable', 'is_move_assignable', 'is_destructible',
                   'is_nothrow_default_constructible', 'is_nothrow_copy_constructible',
                   'is_nothrow_move_constructible', 'is_nothrow_copy_assignable',
                   'is_nothrow_move_assignable', 'is_nothrow_destructible']


def twin_witnesses(tier):
    ws = []
    archs = [a for a, _ in ARCHETYPES if tier == 'thorough' or a in QUICK_ARCHETYPES]
    ops = [(o, c) for o, c in OPERATIONS if tier == 'thorough' or o in QUICK_OPERATIONS]
    # twin validity
    for a in archs:
        tr, nt = '%s%s_tr<0>' % (NS, a), '%s%s_nt<0>' % (NS, a)
        cond = ' && '.join('std::%s<%s>::value == std::%s<%s>::value' % (t, tr, t, nt)
                           for t in VALIDITY_TRAITS)
        ws.append(witness.W('valid|%s' % a,
                            'constexpr bool c13_valid_%s = %s;\nstatic_assert (c13_valid_%s, "C13TWIN");' % (a, cond, a),
                            expect='unknown',
                            info={'class': 'validity', 'archetype': a, 'group': 'validity'}))
        ws.append(witness.W(
            'shape|%s' % a,
            'static_assert ((std::is_trivially_copyable<%s>::value || std::is_trivially_default_constructible<%s>::value) '
            '&& ! std::is_trivially_copyable<%s>::value && ! std::is_trivially_default_constructible<%s>::value '
            '&& ! std::is_trivially_destructible<%s>::value && std::is_trivially_destructible<%s>::value, "C13SHAPE");'
            % (tr, tr, nt, nt, nt, tr), expect='ok',
            info={'class': 'shape', 'archetype': a, 'group': 'validity'}))
    n = 0
    for o, code in ops:
        for a in archs:
            for twin in ('nt', 'tr'):
                n += 1
                fn = 'c13_w%d' % n
                body = ('template <typename T> void %s () {\n  %s\n  %s\n}\n'
                        'template void %s<%s%s_%s<%d> > ();' % (fn, LOCALS, code, fn, NS, a, twin, n))
                ws.append(witness.W('twin|%s|%s|%s' % (o, a, twin), body, expect='unknown',
                                    info={'class': 'twin', 'operation': o, 'archetype': a,
                                          'twin': twin, 'code': code, 'group': 'w%d' % (n % 64)}))
    return ws, ops, archs


# ---- converting ranges ------------------------------------------------------------------------
CONVERSIONS = [
    # (label, From, To)
    ('int->unsigned', 'int', 'unsigned'),
    ('unsigned long->long', 'unsigned long', 'long'),
    ('short->int', 'short', 'int'),
    ('char->unsigned char', 'char', 'unsigned char'),
    ('bool->signed char', 'bool', 'signed char'),
    ('enum UE_int->int', 'c13t::UE_int', 'int'),
    ('enum UE_int->unsigned short', 'c13t::UE_int', 'unsigned short'),
    ('enum UE_int->long long', 'c13t::UE_int', 'long long'),
    ('int->double', 'int', 'double'),
    ('float->short', 'float', 'short'),
    ('D*->B1*', 'c13t::D *', 'c13t::B1 *'),
    ('D*->B2*', 'c13t::D *', 'c13t::B2 *'),
    ('D*->const D*', 'c13t::D *', 'const c13t::D *'),
    ('int*->const int*', 'int *', 'const int *'),
    ('int*->void*', 'int *', 'void *'),
    ('int->TRI (trivially copyable class, converting constructor)', 'int', 'c13t::TRI'),
    ('int->NTI (non-trivial class, converting constructor)', 'int', 'c13t::NTI'),
]
# Two conversions share the destination `int`: fine with the per-witness allocator; the
# std::allocator batteries keep one conversion per destination type (see below).
QUICK_CONVERSIONS = ['int->unsigned', 'short->int', 'enum UE_int->int', 'D*->B1*', 'D*->B2*',
                     'bool->signed char', 'int->TRI (trivially copyable class, converting constructor)']
QUICK_RANGE_OPS = ['ctor_range', 'insert_range']

GENERIC = 'std::list::iterator'
RANGE_ITERS = [
    # (kind, spelling, contiguous by the standard?)
    (GENERIC, 'typename std::list<F>::iterator', False),
    ('std::deque::iterator', 'typename std::deque<F>::iterator', False),
    ('forward_it', 'c13t::forward_it<F>', False),
    ('ptr', 'F *', True),
    ('const_ptr', 'const F *', True),
    ('std::vector::iterator', 'typename std::vector<F>::iterator', True),
    ('std::vector::const_iterator', 'typename std::vector<F>::const_iterator', True),
    ('std::array::iterator', 'typename std::array<F, 4>::iterator', True),
    ('small_vector::iterator', 'typename gch::small_vector<F, 4>::iterator', True),
    ('small_vector::const_iterator', 'typename gch::small_vector<F, 4>::const_iterator', True),
    ('move_iterator<ptr>', 'std::move_iterator<F *>', True),
    ('move_iterator<std::vector::iterator>', 'std::move_iterator<typename std::vector<F>::iterator>', True),
    ('move_iterator<small_vector::iterator>', 'std::move_iterator<typename gch::small_vector<F, 4>::iterator>', True),
]
QUICK_RANGE_ITERS = [GENERIC, 'ptr', 'const_ptr', 'std::vector::iterator', 'small_vector::iterator',
                     'small_vector::const_iterator', 'move_iterator<ptr>']
RANGE_OPS = [
    ('ctor_range', 'SV a (i, i);'),
    ('assign_range', 'v.assign (i, i);'),
    ('insert_range', 'v.insert (v.cbegin (), i, i);'),
    ('append_range', 'v.append (i, i);'),
]


def std_class(std):
    return 'c++20+' if std in ('c++20', 'c++2b') else 'pre-c++20'


def range_witnesses(tier):
    """Main grid: destination small_vector<To, 4, TA<To, n>> (unique allocator per witness)."""
    ws = []
    convs = [c for c in CONVERSIONS if tier == 'thorough' or c[0] in QUICK_CONVERSIONS]
    iters = [i for i in RANGE_ITERS if tier == 'thorough' or i[0] in QUICK_RANGE_ITERS]
    n = 0
    for label, f, t in convs:
        for op, code in RANGE_OPS:
            if tier != 'thorough' and op not in QUICK_RANGE_OPS:
                continue
            for kind, spell, contig in iters:
                n += 1
                fn = 'c13_r%d' % n
                body = ('template <typename F, typename To> void %s () {\n'
                        '  typedef gch::small_vector<To, 4, c13t::TA<To, %d> > SV; SV& v = c13t::any<SV&> ();\n'
                        '  typedef %s It; It i = c13t::any<It> ();\n  %s\n}\n'
                        'template void %s<%s, %s> ();' % (fn, n, spell, code, fn, f, t))
                ws.append(witness.W('range|TA|%s|%s|%s' % (label, op, kind), body, expect='unknown',
                                    info={'class': 'range', 'conversion': label, 'operation': op,
                                          'iterator': kind, 'contiguous': contig, 'allocator': 'minimal allocator',
                                          'group': 'r%d' % (n % 64)}))
    return ws, convs, iters


def std_alloc_range_batteries(tier):
    """std::allocator destinations: a failing instantiation inside
    allocator_interface<std::allocator<To>> is shared by every witness with the same To and the
    same (unwrapped) iterator type, so each TU holds one iterator kind and one operation, and
    conversions with pairwise distinct destination types."""
    convs = [c for c in CONVERSIONS if tier == 'thorough' or c[0] in QUICK_CONVERSIONS]
    seen_to = set()
    uniq = []
    for c in convs:
        if c[2] not in seen_to:
            seen_to.add(c[2])
            uniq.append(c)
    iters = [i for i in RANGE_ITERS if tier == 'thorough' or i[0] in QUICK_RANGE_ITERS]
    ops = RANGE_OPS if tier == 'thorough' else RANGE_OPS[:1]
    out = []
    n = 0
    for op, code in ops:
        for kind, spell, contig in iters:
            ws = []
            for label, f, t in uniq:
                n += 1
                fn = 'c13_s%d' % n
                body = ('template <typename F, typename To> void %s () {\n'
                        '  typedef gch::small_vector<To, 4> SV; SV& v = c13t::any<SV&> ();\n'
                        '  typedef %s It; It i = c13t::any<It> ();\n  %s\n}\n'
                        'template void %s<%s, %s> ();' % (fn, spell, code, fn, f, t))
                ws.append(witness.W('range|std|%s|%s|%s' % (label, op, kind), body, expect='unknown',
                                    info={'class': 'range', 'conversion': label, 'operation': op,
                                          'iterator': kind, 'contiguous': contig,
                                          'allocator': 'std::allocator', 'group': 'x'}))
            out.append(('c13ranges-std-%s-%s-%s' % (tier, op, kind.replace(':', '_').replace('<', '_').replace('>', '_')), ws))
    return out


# ---- evaluation -------------------------------------------------------------------------------
def collect(ck, tier):
    stds = ('c++17', 'c++20') if tier == 'quick' else tuple(common.STDS)
    nshards = 16 if tier == 'quick' else 64

    # -- R13.2a ---------------------------------------------------------------------------------
    # all three batteries are planned first and compiled in one pool
    tws, ops, archs = twin_witnesses(tier)
    rws, convs, iters = range_witnesses(tier)
    batt = std_alloc_range_batteries(tier)
    tjobs = grouped_jobs('c13twins-' + tier, PRELUDE, tws, stds, nshards, battery=status_battery)
    rjobs = grouped_jobs('c13ranges-' + tier, PRELUDE, rws, stds, nshards, battery=status_battery)

    def std_job(name, ws, comp, std):
        return lambda: status_battery(name, PRELUDE, ws, compilers=(comp,), stds=(std,))
    sjobs = [std_job(name, ws, comp, std) for std in reversed(list(stds))
             for comp in ('g++', 'clang++') for name, ws in batt]
    alljobs = [('t', j) for j in tjobs] + [('r', j) for j in rjobs] + [('s', j) for j in sjobs]
    done = common.pmap(lambda kj: (kj[0], kj[1]()), alljobs)
    tres = merge_tables(r for k, r in done if k == 't')
    rres = merge_tables(r for k, r in done if k == 'r')
    sres = [r for k, r in done if k == 's']
    by_tag = {w.tag: w for w in tws}
    invalid = {}     # archetype -> [cfg]
    for cfg, r in sorted(tres.items()):
        ck.unit('c13twins/%s/%s' % cfg)
        for a in archs:
            st, msg = r['shape|' + a]
            if st != 'ok':
                raise common.AnalysisBroken('R13.2: archetype %s does not have the intended shape '
                                            '(trivial vs non-trivial twin) under %s/%s: %s'
                                            % (a, cfg[0], cfg[1], msg[:300]))
            st, msg = r['valid|' + a]
            if st != 'ok':
                if 'C13TWIN' not in msg:
                    raise common.AnalysisBroken('R13.2: twin validity of %s not evaluable under %s/%s: %s'
                                                % (a, cfg[0], cfg[1], msg[:300]))
                invalid.setdefault(a, []).append('%s/%s' % cfg)
    for a, cfgs in sorted(invalid.items()):
        ck.note('R13.2a: twins of archetype %s differ in a std::is_(nothrow_)X trait under %s '
                '(the compiler does not honour noexcept(false) on a trivial defaulted member); '
                'the pair is not compared there' % (a, ', '.join(cfgs)))
    pairs = 0
    both_fail = {}
    compared = 0
    for o, code in ops:
        for a in archs:
            dis = []
            alike_fail = []
            ncfg = 0
            for cfg, r in sorted(tres.items()):
                if '%s/%s' % cfg in invalid.get(a, ()):
                    continue
                ncfg += 1
                nt = r['twin|%s|%s|nt' % (o, a)]
                tr = r['twin|%s|%s|tr' % (o, a)]
                if nt[0] != tr[0]:
                    dis.append({'config': '%s/%s' % cfg, 'non_trivial_twin': nt[0], 'trivial_twin': tr[0],
                                'diagnostic': (tr[1] if tr[0] == 'error' else nt[1])[:400]})
                elif nt[0] == 'error':
                    alike_fail.append('%s/%s' % cfg)
            if ncfg == 0:
                continue
            pairs += 1
            compared += ncfg
            sample = {'operation': o, 'archetype': a, 'statement': code, 'configs_compared': ncfg,
                      'both_twins_ill_formed_under': alike_fail}
            if dis:
                rej_tr = [d for d in dis if d['trivial_twin'] == 'error']
                direction = ('the trivially copyable twin is rejected where the non-trivial twin is accepted '
                             '(the fast path adds a requirement)' if rej_tr else
                             'the trivially copyable twin is accepted where the non-trivial twin is rejected')
                ck.violation(
                    'R13.2a', {'operation': o, 'archetype': a},
                    '%s: gch::small_vector operation `%s` on archetype %s (%s): %s under %s; first diagnostic: %s'
                    % (common.HEADER_REL, code, a, dict(ARCHETYPES)[a], direction,
                       ', '.join(d['config'] for d in dis), dis[0]['diagnostic'][:300]),
                    dict(sample, disagreements=dis, file=common.HEADER_REL,
                         witness_trivial=by_tag['twin|%s|%s|tr' % (o, a)].code,
                         witness_non_trivial=by_tag['twin|%s|%s|nt' % (o, a)].code))
            else:
                ck.ok('R13.2a', sample=sample)
                if alike_fail:
                    both_fail.setdefault(o, []).append(a)
    ck.floor('R13.2a operation x archetype pairs', pairs, 150 if tier == 'quick' else 700)
    if both_fail:
        ck.note('R13.2a: both twins are ill-formed alike (not a C13 matter, counted as discharged) for: '
                + '; '.join('%s: %s' % (o, ','.join(a)) for o, a in sorted(both_fail.items())))

    # -- R13.2b ---------------------------------------------------------------------------------
    tables = [rres] + sres
    status = {}    # (allocator, conversion, op, kind) -> {cfg: (status, msg)}
    allw = {w.tag: w for w in rws}
    for _, ws in batt:
        for w in ws:
            allw[w.tag] = w
    for table in tables:
        for cfg, r in table.items():
            ck.unit('c13ranges/%s/%s' % cfg)
            for tag, sm in r.items():
                i = allw[tag].info
                status.setdefault((i['allocator'], i['conversion'], i['operation'], i['iterator']), {})[cfg] = sm
    contig_kinds = [k for k, _, c in iters if c]
    # non-vacuity per configuration: the generic-path control must compile, otherwise every
    # obligation of that configuration would hold trivially
    for alloc in ('minimal allocator', 'std::allocator'):
        ctl = status.get((alloc, 'int->unsigned', 'ctor_range', GENERIC), {})
        for cfg in sorted(tres):
            if ctl.get(cfg, ('missing', ''))[0] != 'ok':
                raise common.AnalysisBroken(
                    'R13.2b: control witness (int range through std::list iterators into small_vector<unsigned>, %s) '
                    'is not accepted under %s/%s: %s' % (alloc, cfg[0], cfg[1], ctl.get(cfg, ('', 'missing'))[1][:300]))
    nobl = 0
    generic_accepts = 0
    for (alloc, conv, op, kind), percfg in sorted(status.items()):
        if kind not in contig_kinds:
            continue
        gen = status.get((alloc, conv, op, GENERIC))
        if gen is None:
            raise common.AnalysisBroken('R13.2b: no generic-path witness for %s %s %s' % (alloc, conv, op))
        for cls in ('pre-c++20', 'c++20+'):
            cfgs = [c for c in percfg if std_class(c[1]) == cls]
            if not cfgs:
                continue
            nobl += 1
            bad = []
            acc = 0
            for c in sorted(cfgs):
                if gen[c][0] == 'ok':
                    acc += 1
                    if percfg[c][0] != 'ok':
                        bad.append({'config': '%s/%s' % c, 'diagnostic': percfg[c][1][:400]})
            generic_accepts += 1 if acc else 0
            sample = {'conversion': conv, 'iterator': kind, 'std-class': cls, 'operation': op,
                      'destination_allocator': alloc,
                      'generic_path_accepts_under': acc, 'configs': len(cfgs)}
            if bad:
                ck.violation(
                    'R13.2b', {'conversion': conv, 'iterator': kind, 'std-class': cls},
                    '%s: small_vector<To> %s with a converting range %s through contiguous iterator kind %s is '
                    'ill-formed under %s although the same range is accepted through std::list iterators '
                    '(generic path); destination allocator: %s; first diagnostic: %s'
                    % (common.HEADER_REL, op, conv, kind, ', '.join(b['config'] for b in bad), alloc,
                       bad[0]['diagnostic'][:300]),
                    dict(sample, failing=bad, file=common.HEADER_REL,
                         witness=allw['range|%s|%s|%s|%s' % ('TA' if alloc != 'std::allocator' else 'std', conv, op, kind)].code))
            else:
                ck.ok('R13.2b', sample=sample)
    ck.floor('R13.2b converting-range obligations', nobl, 200 if tier == 'quick' else 2000)
    ck.floor('R13.2b obligations whose generic path accepts the conversion (non-vacuity)',
             generic_accepts, 150 if tier == 'quick' else 1500)
    ck.extra['R13.2'] = {'operations': len(ops), 'archetypes': len(archs), 'pairs': pairs,
                         'twin_config_comparisons': compared,
                         'conversions': len(convs), 'range_iterator_kinds': len(iters),
                         'range_obligations': nobl, 'configs': sorted('%s/%s' % c for c in tres)}
    ck.assumptions += [
        'R13.2: the oracle for the trivially copyable twin is the header\'s own generic path taken by the '
        'non-trivial twin (same members, declared instead of defaulted); compile status only',
    ]
