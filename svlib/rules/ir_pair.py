"""R02.1 paired update with matching provenance, R02.2 steal guard, R02.5 shrink result,
R06.5 (= R02.1 at exceptional exits).

At every exit of every function compiled from the header, for every container object whose
m_data_ptr or m_capacity word was written on the path, the final (pointer, capacity) pair must be
one of:  inline (pointer into the object itself, or null with capacity 0; capacity a constant),
fresh (the result of an allocator call together with the count passed to that call),
stolen (both words loaded from ONE other container, same version), or unchanged.
A steal into a container of inline capacity N must be on a path whose conditions imply
capacity(source) > N.
"""
import re

from .. import sym, irrules
from ..sym import const_of, single_atom, atom, L
from ..irrules import Report, base_name, obj_of, where
from .ir_bounds import cmp_atom, facts, known_lt, known_le, is_max_term as ir_bounds_is_max


def class_n(f):
    """InlineCapacity of the small_vector / small_vector_base a member function belongs to."""
    p = f.pretty or ''
    for cls, argi in (('gch::detail::small_vector_base<', 1), ('gch::small_vector<', 1), ('svcanary::wrong<', 1)):
        k = p.find(cls)
        if k < 0:
            continue
        i = k + len(cls)
        depth = 1
        args = []
        cur = []
        while i < len(p) and depth > 0:
            c = p[i]
            if c in '<(':
                depth += 1
            elif c in '>)':
                depth -= 1
                if depth == 0:
                    break
            if c == ',' and depth == 1:
                args.append(''.join(cur).strip())
                cur = []
            else:
                cur.append(c)
            i += 1
        args.append(''.join(cur).strip())
        if len(args) > argi:
            m = re.match(r'^(\d+)u?$', args[argi])
            if m:
                return int(m.group(1))
    return None


def is_arg(t):
    """The value is one of the analysed function's own parameters (a pure setter: the pairing
    obligation belongs to the caller, in which the setter is expanded)."""
    a = single_atom(t)
    return a is not None and a[0] == 'arg'


def init_of(t):
    """If t is exactly the initial value of a cell -> (cell address, version) else None."""
    a = single_atom(t)
    if a is not None and a[0] == 'init':
        return a[1], (a[2] if len(a) > 2 else ())
    return None


class PairRule(sym.Rule):
    name = 'R02.1'

    def __init__(self, eng, cfg, ctor_ctx):
        self.eng = eng
        self.cfg = cfg
        self.orc = eng.oracle
        self.ctor_ctx = ctor_ctx
        self.reports = {}
        self.writers = set()
        self.steals = set()
        self.callers = irrules.callers_map(eng)

    def init(self, f, eng):
        # (frozenset of objects written, frozenset of (p, n) allocations seen)
        return (frozenset(), frozenset())

    def on_event(self, rs, ev, st, f, eng):
        if ev.kind == 'store' and ev.field in (0, 1):
            return (rs[0] | {obj_of(ev.addr)}, rs[1])
        if ev.kind == 'call' and ev.callee and self.orc.kind.get(ev.callee) == 'ALLOC' \
                and ev.args and len(ev.args) >= 2:
            return (rs[0], rs[1] | {(ev.ret, ev.args[1])})
        if ev.kind == 'havoc' and rs[0] and ev.args:
            # a loop re-entry forgot these objects' words: what was written before is no longer
            # what the words hold; later writes put the object back under observation
            keep = frozenset(o for o in rs[0] if not any(a in ev.args for a, c in o))
            return (keep, rs[1])
        return rs

    def on_exit(self, rs, kind, st, f, eng, rv=None):
        if kind not in ('ret', 'unwind') or not rs[0]:
            return
        bn = base_name(f.pretty)
        for obj in rs[0]:
            if kind == 'unwind' and f.name in self.ctor_ctx and obj == ((('arg', 0), 1),):
                continue   # object under construction: it does not exist after the throw
            roots = [a for a, c in obj]
            if any(a[0] == 'alloca' for a in roots) and kind == 'unwind':
                pass       # local containers are destroyed on unwind: their words still matter
            P = C = None
            pa = ca = None
            for a, v in st.mem.items():
                if a[2] == obj:
                    t = eng.field_tag.get(a)
                    if t == 0:
                        P, pa = v, a
                    elif t == 1:
                        C, ca = v, a
            self.writers.add((bn, kind))
            cls, why = self.classify(obj, P, C, pa, ca, rs[1], st, f, eng)
            if cls == 'fresh' and kind == 'ret' and not self.cfg.ndebug:
                self.check_fresh(obj, C, st, f, eng)        # every path: the evidence is a path condition
            dk = (f.name, kind, repr(obj), cls, why)
            if dk in self.reports:
                continue
            if cls == 'delegated':
                continue
            if cls in ('inline', 'fresh', 'unchanged'):
                self.reports[dk] = Report('R02.1', True, None,
                                          sample={'function': bn, 'exit': kind, 'pair': cls,
                                                  'config': self.cfg.name})

            elif cls == 'stolen':
                self.reports[dk] = Report('R02.1', True, None,
                                          sample={'function': bn, 'exit': kind, 'pair': cls,
                                                  'config': self.cfg.name})
                self.check_steal(obj, why, st, f, eng, kind)
            else:
                self.reports[dk] = Report(
                    'R02.1', False, {'function': bn, 'exit': kind, 'defect': why},
                    'R02.1: %s leaves a container with an inconsistent (data pointer, capacity) pair on a %s exit: %s (%s)'
                    % (bn, 'normal' if kind == 'ret' else 'exceptional', why, self.cfg.name),
                    {'function': f.pretty[:300], 'function_line': f.src_line, 'config': self.cfg.name,
                     'pointer': repr(P)[:300], 'capacity': repr(C)[:300],
                     'file': 'source/include/gch/small_vector.hpp'})

    def classify(self, obj, P, C, pa, ca, allocs, st, f, eng):
        if P is None and C is None:
            return 'unchanged', 'both words re-read after an opaque call'
        if P is None or C is None:
            # one word written, the other untouched on this path
            if P is None:
                # capacity written alone: must equal its old value
                i = init_of(C)
                if i and i[0] == ca:
                    return 'unchanged', ''
                if is_arg(C):
                    return 'delegated', ''
                return 'bad', 'capacity written without the data pointer'
            i = init_of(P)
            if i and i[0] == pa:
                return 'unchanged', ''
            if is_arg(P):
                return 'delegated', ''
            return 'bad', 'data pointer written without the capacity'
        # fresh
        if any(P == p and C == n for (p, n) in allocs):
            return 'fresh', ''
        for (p, n) in allocs:
            if P == p:
                return 'bad', 'pointer from an allocation of a different count than the capacity written'
        cc = const_of(C)
        # inline
        if cc is not None:
            if const_of(P) == 0 and cc == 0:
                return 'inline', 'null/0'
            if P[2] == obj:
                return 'inline', 'storage/%d' % cc
            if is_arg(P):
                return 'bad', 'constant capacity %d with a caller-supplied pointer' % cc
            return 'bad', 'constant capacity %d with a pointer that is not the inline buffer' % cc
        if is_arg(P) and is_arg(C):
            return 'delegated', ''
        ip, ic = init_of(P), init_of(C)
        if ip and ic:
            if ip[0][2] == ic[0][2] and ip[1] == ic[1] and eng.field_tag.get(ip[0]) == 0 \
                    and eng.field_tag.get(ic[0]) == 1:
                if ip[0][2] == obj:
                    return 'unchanged', ''
                return 'stolen', ip[0][2]
            return 'bad', 'pointer and capacity taken from different containers or versions'
        if P[2] == obj:
            return 'bad', 'inline buffer pointer with a non-constant capacity'
        return 'bad', 'pointer and capacity of unrelated provenance'

    def check_fresh(self, obj, C, st, f, eng):
        """R02.7: a block obtained from the allocator is committed only with a capacity that the path
        shows to exceed the inline capacity.  Otherwise has_allocation () (N < capacity) is false for a
        container that owns a heap block: the block is taken for the inline buffer and never released.
        Judged on the assert flavour, where the header's own `assert (InlineCapacity < n)` at its
        allocation helpers is a path fact."""
        n = class_n(f)
        if n is None:
            return
        bn = base_name(f.pretty)
        dk = ('fresh', f.name, repr(obj))
        fs = facts(st)

        capcells = set(a for a, tg in eng.field_tag.items() if tg == 1 and a[2] == obj)

        def is_cap0(x):
            # the capacity this container had on entry: >= N by the container invariant (entry contract)
            i = init_of(x)
            return bool(i and i[0] in capcells and not i[1])

        def ge_n(x, depth):
            cx = const_of(x)
            if cx is not None:
                return cx >= n
            return is_cap0(x) or (depth < 2 and gt_n(x, depth + 1))

        def gt_n(t, depth=0):
            ct = const_of(t)
            if ct is not None:
                return ct > n
            if ir_bounds_is_max(t):
                return True           # max_size () itself (saturated growth): far above any inline capacity
            if n > 0 and len(t[2]) == 1 and t[1] >= 0 and t[2][0][1] >= 2 and is_cap0(sym.atom(t[2][0][0])):
                return True           # k * capacity, k >= 2, capacity >= N > 0
            if len(t[2]) == 1 and t[1] > 0 and t[2][0][1] == 1 and is_cap0(sym.atom(t[2][0][0])):
                return True           # capacity + positive constant

            def nonneg(x):
                # sizes, capacities and exact range lengths are not negative
                return x[1] >= 0 and all(co > 0 and ((at[0] == 'init' and eng.field_tag.get(at[1]) in (1, 2)) or at[0] == 'divx')
                                         for at, co in x[2])
            if n == 0 and t[1] > 0 and nonneg(('L', 0, t[2])):
                return True           # N == 0: (non-negative quantity) + positive constant >= 1
            if n == 0:
                for (k, x, y) in fs:
                    if k == 'lt' and y == t and nonneg(x):
                        return True   # N == 0: 0 <= x < t
            for (k, x, y) in fs:
                if y != t or x == t:
                    continue
                if k == 'lt' and ge_n(x, depth):
                    return True       # N <= x < t
                if k == 'le' and (const_of(x) is not None and const_of(x) > n or (depth < 2 and const_of(x) is None and gt_n(x, depth + 1))):
                    return True       # N < x <= t
            if n == 0:
                for (c, v) in st.conds:
                    a = single_atom(c)
                    if a is not None and a[0] == 'cmp' and a[1] == 'eq' and v is False and (a[2] == t or a[2] == sym.lin_scale(t, -1)):
                        return True
            return False
        ok = gt_n(C)
        prev = self.reports.get(dk)
        if prev is not None and not prev.ok:
            return
        if ok:
            if prev is None:
                self.reports[dk] = Report('R02.7', True, None, sample={'function': bn, 'inline_capacity': n, 'config': self.cfg.name})
        else:
            self.reports[dk] = Report(
                'R02.7', False, {'function': bn, 'defect': 'heap block committed with a capacity not shown to exceed the inline capacity'},
                'R02.7: %s commits a block obtained from the allocator with a capacity that no path condition shows to be greater than '
                'the inline capacity %d: with capacity <= N the container looks inlined although it owns a heap block, which is then '
                'never released (%s)' % (bn, n, self.cfg.name),
                {'function': f.pretty[:300], 'function_line': f.src_line, 'config': self.cfg.name, 'capacity_committed': repr(C)[:200],
                 'path_conditions': [repr(c)[:160] + '=' + str(v) for c, v in st.conds][-8:],
                 'file': 'source/include/gch/small_vector.hpp'})

    def check_steal(self, obj, src, st, f, eng, kind):
        n = class_n(f)
        bn = base_name(f.pretty)
        self.steals.add((bn,))
        dk = ('steal', f.name, repr(obj), repr(src))
        if dk in self.reports:
            return
        # capacity cell of the source (initial value)
        capcells = [a for a, t in eng.field_tag.items() if t == 1 and a[2] == src]
        ok = False
        how = None
        fs = facts(st)
        # K < capacity(source) for a constant K >= N (spelled `N < cap` or `!(cap <= N)`)
        for (kind, x, y) in fs:
            if kind == 'lt' and const_of(x) is not None and n is not None and const_of(x) >= n:
                i = init_of(y)
                if i and i[0][2] == src and eng.field_tag.get(i[0]) == 1:
                    ok, how = True, 'path condition %d < capacity(source)' % const_of(x)
                    break
        if not ok and n == 0:
            # N == 0: the inline representation is (null, 0); adopting it is harmless when the
            # source has inline capacity 0 too (same type) - otherwise a guard is required
            srcn = None
            for i, (ty, nm, at) in enumerate(f.params):
                if ((('arg', i), 1),) == src:
                    srcn = i
            if srcn is not None and f.params[srcn][0] == f.params[0][0]:
                ok, how = True, 'N == 0 and the source has the same type'
        if not ok and n is not None:
            # transitivity through the function's own asserted contract:
            # N < capacity(this) and capacity(this) <= capacity(source)
            lt_this = False
            le = False
            for (kind, x, y) in fs:
                if kind == 'lt' and const_of(x) is not None and const_of(x) >= n:
                    i = init_of(y)
                    if i and i[0][2] == obj and eng.field_tag.get(i[0]) == 1:
                        lt_this = True
                i1, i2 = init_of(x), init_of(y)
                if i1 and i2 and i1[0][2] == obj and i2[0][2] == src \
                        and eng.field_tag.get(i1[0]) == 1 and eng.field_tag.get(i2[0]) == 1:
                    le = True      # capacity(this) < or <= capacity(source)
            if lt_this and le:
                ok, how = True, 'N < capacity(this) <= capacity(source) (asserted contract)'
        tested = False
        for (c, v) in st.conds:
            for at in sym.atoms_of(c):
                if at[0] == 'init' and at[1][2] == src and eng.field_tag.get(at[1]) == 1:
                    tested = True
        gch_callers = [c for c in self.callers.get(f.name, ()) if self.orc.is_gch(c)]
        if not ok and not tested and gch_callers and eng.summary(f.name) is not sym.OPAQUE:
            # an unconditional hand-over helper: it is expanded in each of its callers, where
            # this same obligation is checked against the caller's path conditions
            self.reports[dk] = Report('R02.2', True, None,
                                      sample={'function': bn, 'inline_capacity': n,
                                              'guard': 'delegated to the callers in which this helper is expanded',
                                              'callers': len(gch_callers), 'config': self.cfg.name})
            return
        if ok:
            self.reports[dk] = Report('R02.2', True, None,
                                      sample={'function': bn, 'inline_capacity': n, 'guard': how,
                                              'config': self.cfg.name})
        else:
            self.reports[dk] = Report(
                'R02.2', False, {'function': bn, 'defect': 'unguarded steal'},
                'R02.2: %s adopts another container\'s buffer on a path that does not imply capacity(source) > %s '
                '(a buffer no larger than the inline capacity would make the container look inlined while '
                'pointing at foreign storage) (%s)' % (bn, n, self.cfg.name),
                {'function': f.pretty[:300], 'function_line': f.src_line, 'config': self.cfg.name,
                 'path_conditions': [repr(c)[:160] + '=' + str(v) for c, v in st.conds][-8:],
                 'file': 'source/include/gch/small_vector.hpp'})


def analyse_tu(eng, cfg):
    ctx = irrules.constructor_context(eng)
    rule = PairRule(eng, cfg, ctx)
    nfun = 0
    for f in irrules.maximal_roots(eng):
        if not eng.oracle.writes_fields.get(f.name):
            continue
        nfun += 1
        eng.walk(f, [rule])
    return {'reports': list(rule.reports.values()), 'functions': nfun,
            'writer_exits': len(rule.writers), 'steal_functions': len(rule.steals)}


class ShrinkRule(sym.Rule):
    """R02.5: after shrink_to_fit, capacity() == max(size(), inline capacity)."""
    name = 'R02.5'

    def __init__(self, eng, cfg):
        self.orc = eng.oracle
        self.cfg = cfg
        self.reports = {}
        self.paths = 0

    def init(self, f, eng):
        return frozenset()

    def on_event(self, rs, ev, st, f, eng):
        if ev.kind == 'call' and ev.callee and self.orc.kind.get(ev.callee) == 'ALLOC' and ev.args and len(ev.args) >= 2:
            return rs | {(ev.ret, ev.args[1])}
        return rs

    def on_exit(self, rs, kind, st, f, eng, rv=None):
        if kind != 'ret':
            return
        this = ((('arg', 0), 1),)
        pa = ca = sa = None
        for a, k in eng.field_tag.items():
            if a[2] == this:
                if k == 0:
                    pa = a
                elif k == 1:
                    ca = a
                elif k == 2:
                    sa = a
        if ca is None or sa is None:
            return
        self.paths += 1
        n = class_n(f)
        cap0, size0 = atom(('init', ca)), atom(('init', sa))
        C = eng.load(st, ca)
        S = eng.load(st, sa)
        P = eng.load(st, pa) if pa is not None else None
        if any((a[0] == 'init' and len(a) > 2) for t in (C, S, P) if t is not None for a in sym.atoms_of(t)):
            return      # an opaque helper rewrote the words: judged in that helper

        fs = facts(st)

        def has(pred, x, y, val):
            # (ult x y) is val
            if val:
                return known_lt(fs, x, y)
            return known_le(fs, y, x)

        def eq(x, y, val):
            for (c, v) in st.conds:
                a = single_atom(c)
                if a is not None and a[0] == 'cmp' and a[1] == 'eq' and v is val:
                    d = sym.lin_sub(x, y)
                    if a[2] == d or a[2] == sym.lin_scale(d, -1):
                        return True
            return False
        why = None
        ok = False
        if S != size0:
            why = 'shrink_to_fit changes size()'
        elif C == cap0 and (P is None or P == atom(('init', pa))):
            ok = has('ult', L(n), cap0, False) or eq(size0, cap0, True)
            why = 'returns without changing the capacity on a path that is neither inline nor size == capacity'
        elif const_of(C) == n and P is not None and (P[2] == this or (n == 0 and const_of(P) == 0)):
            ok = has('ult', L(n), size0, False)
            why = 'moves into the inline buffer on a path without size <= inline capacity'
        elif C == size0 and any(P == p and nn == size0 for (p, nn) in rs):
            ok = has('ult', L(n), size0, True)
            why = 'allocates exactly size() on a path without inline capacity < size'
        else:
            why = 'capacity after shrink_to_fit is neither the inline capacity nor size()'
        bn = base_name(f.pretty)
        dk = (f.name, ok, why if not ok else 'ok')
        if dk in self.reports:
            return
        if ok:
            self.reports[dk] = Report('R02.5', True, None, sample={'function': bn, 'result': repr(C)[:60], 'config': self.cfg.name})
        else:
            self.reports[dk] = Report('R02.5', False, {'function': bn, 'defect': why},
                                      'R02.5: %s: %s - capacity() would not be max(size(), inline_capacity()) (%s)' % (bn, why, self.cfg.name),
                                      {'function': f.pretty[:300], 'config': self.cfg.name, 'capacity': repr(C)[:200],
                                       'conditions': [repr(c)[:150] + '=' + str(v) for c, v in st.conds][-6:]})


_analyse_pairs = analyse_tu


def analyse_tu(eng, cfg):   # noqa: F811
    res = _analyse_pairs(eng, cfg)
    sr = ShrinkRule(eng, cfg)
    for f in irrules.gch_roots(eng):
        head = (f.pretty or '').split('(')[0]
        if base_name(f.pretty) == 'shrink_to_fit' and 'gch::small_vector<' in head and 'detail::' not in head:
            eng.walk(f, [sr])
    res['reports'] += list(sr.reports.values())
    res['shrink_paths'] = sr.paths
    return res


def analyse_tu_shrink(eng, cfg):
    """R02.5 alone (used on the NDEBUG flavour: there the header's asserts do not cut the paths on
    which an internal consistency assert would fail, so the resulting state itself is judged)."""
    sr = ShrinkRule(eng, cfg)
    for f in irrules.gch_roots(eng):
        head = (f.pretty or '').split('(')[0]
        if base_name(f.pretty) == 'shrink_to_fit' and 'gch::small_vector<' in head and 'detail::' not in head:
            eng.walk(f, [sr])
    return {'reports': list(sr.reports.values()), 'shrink_paths': sr.paths}
