"""C07 — allocator-aware container rules (DESIGN section 6, C07)."""
from .. import common
from . import parts


def run(tier):
    ck = common.Check('C07', tier)
    parts.run_parts(ck, tier, witness_parts=('c07_select',), ir_parts=('ir_allocflow',))
    ck.finish(
        'R07.1/R07.4 (type level): for all 16 combinations of the propagation traits and is_always_equal (plus std::allocator) '
        'and N in {0,2}, trap allocators whose assignment / swap / == / select_on_container_copy_construction bodies are '
        'ill-formed when instantiated show which overload of maybe_copy/maybe_move/maybe_swap, copy_assign/move_assign/swap '
        'and which constructor path the header selects; the expectation is the trait itself. R07.2/R07.3 (IR): every normal '
        'path of the assignment/swap mechanisms passes through exactly one allocator propagation step on the right operands, '
        'old buffers are released before the allocator is replaced and new ones come from the incoming allocator. '
        'Not decided: element values after the operation.')
