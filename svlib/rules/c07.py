"""C07 — allocator-aware container rules (DESIGN section 6, C07)."""
from .. import common
from . import parts


def run(tier):
    ck = common.Check('C07', tier)
    res = parts.run_parts(ck, tier, witness_parts=('c07_select',), ir_parts=('ir_allocflow',))
    r = res.get('ir_allocflow', [])
    ck.floor('assignment / swap mechanisms walked (IR)', sum(x['res']['functions'] for x in r), 100 if tier == 'quick' else 1000)
    # R07.5 reports nothing on a correct tree; what it depends on must at least be recognised: the probe
    # allocator's select_on_container_copy_construction is reached by the copy constructors
    ck.floor('functions reaching select_on_container_copy_construction (recognition of the primitive)',
             sum(x['res'].get('soccc_functions', 0) for x in r), 10 if tier == 'quick' else 100)
    ck.finish(
        'R07.5 (IR): the allocator an assignment installs is never the result of select_on_container_copy_construction (that is for '
        'copy construction only). '
        'R07.1/R07.4 (type level): for all 16 combinations of the propagation traits and is_always_equal (plus std::allocator) '
        'and N in {0,2}, trap allocators whose assignment / swap / == / select_on_container_copy_construction bodies are '
        'ill-formed when instantiated show which overload of maybe_copy/maybe_move/maybe_swap, copy_assign/move_assign/swap '
        'and which constructor path the header selects; the expectation is the trait itself. R07.2/R07.3 (IR): every normal '
        'path of the assignment/swap mechanisms passes through exactly one allocator propagation step on the right operands, '
        'old buffers are released before the allocator is replaced and new ones come from the incoming allocator. '
        'Not decided: element values after the operation.')
