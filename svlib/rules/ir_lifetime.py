"""C03 rules over IR.

R03.1  who may construct / destroy: a function compiled from the header that reaches an element
       constructor (destructor) without passing through another header function must be a pure
       construct (destroy) wrapper: loop-free, one such call, on a pointer it was given.
R03.2  self-cleaning: in a function whose own loop constructs elements with a constructor that may
       throw, an exception leaving the function was preceded by the destruction of the range that
       ends at the element being constructed.
R03.3  destroy-before-release: a buffer a container held on entry is released only after a
       destroy of [data, data + size) of that container (non-trivially destructible elements).
"""
from .. import sym, cg, irrules
from ..sym import const_of, single_atom, atom, lin_sub, lin_scale
from ..irrules import Report, base_name, obj_of, where

ESIZE = {'NM': 4, 'NA': 4, 'TM': 4, 'MO': 4, 'MOT': 4, 'CO': 4}


def direct_reachers(eng, kinds):
    """Header functions that reach a primitive of `kinds` through non-header functions only."""
    orc = eng.oracle
    memo = {}

    def reaches(n, seen):
        # does non-header function n reach kinds without passing through a header function?
        if n in memo:
            return memo[n]
        if orc.kind.get(n) in kinds:
            return True
        f = eng.mod.funcs.get(n)
        if f is None or orc.is_gch(n) or n in seen:
            return False
        seen = seen | {n}
        r = any(reaches(cn, seen) and not on_local(f, cn, ins) for (cn, lb, ins) in orc._calls.get(n, ()))
        memo[n] = r
        return r

    def on_local(f, cn, ins):
        """Is a primitive applied to a stack temporary of the calling function (the value a
        generator returned, std::swap's temporary)?  Those are not elements of a container."""
        if orc.kind.get(cn) not in kinds or not ins.args:
            return False
        a0 = ins.args[0]
        for b, i2 in f.instrs():
            if i2.res == a0:
                return i2.op == 'alloca'
        return False
    out = {}
    for f in irrules.gch_roots(eng):
        sites = [ins for (cn, lb, ins) in orc._calls.get(f.name, ()) if reaches(cn, frozenset()) and not on_local(f, cn, ins)]
        if sites:
            out[f.name] = sites
    return out


def who_may(eng, cfg):
    orc = eng.oracle
    reports = []
    n = 0
    for what, kinds in (('construct', cg.ELEM_CTOR), ('destroy', {'ELEM_DTOR'})):
        for name, sites in direct_reachers(eng, kinds).items():
            f = eng.mod.funcs[name]
            bn = base_name(f.pretty)
            n += 1
            back, body = eng.loop_info(f)
            # pure wrapper: no loop, the primitive is applied to a pointer parameter, and the
            # function touches no container word
            why = None
            if back:
                why = 'contains a loop'
            elif orc.writes_fields.get(name):
                why = 'also writes container words'
            elif len(sites) > 2:
                why = 'applies it at %d sites' % len(sites)
            if why is None:
                reports.append(Report('R03.1', True, None, sample={'function': bn, 'role': what + ' wrapper', 'config': cfg.name}))
            else:
                reports.append(Report(
                    'R03.1', False, {'function': bn, 'defect': 'element %s outside the %s wrappers' % (what, what)},
                    'R03.1: %s reaches an element %sor directly (not through the allocator-aware %s helpers) and is not a '
                    'pure wrapper: %s (%s)' % (bn, what[:-1] if what == 'destroy' else 'construct', what, why, cfg.name),
                    {'function': f.pretty[:300], 'lines': [i.line for i in sites][:5], 'config': cfg.name,
                     'file': 'source/include/gch/small_vector.hpp'}))
    return reports, n


class CleanRule(sym.Rule):
    """R03.2 and R03.3 on one walk."""
    name = 'R03'

    def __init__(self, eng, cfg):
        self.orc = eng.oracle
        self.cfg = cfg
        self.reports = {}
        self.loop_fn = False
        self.elem_ptr = '%%"struct.svp::%s"*' % cfg.elem
        self.releases = 0
        self.thrown = 0

    def init(self, f, eng):
        # (thrown_at: pointer of the element under construction or None, cleaned: bool,
        #  destroyed: frozenset of (a, b, size_at_that_time))
        return (None, False, frozenset())

    def dtor_only(self, name):
        eff = self.orc.effects.get(name, frozenset())
        return 'ELEM_DTOR' in eff and not (eff & (cg.ELEM_CTOR | cg.ELEM_ASSIGN | {'ELEM_SWAP'}))

    def on_event(self, rs, ev, st, f, eng):
        thrown, cleaned, destroyed = rs
        if ev.kind not in ('call', 'throw') or not ev.callee or ev.args is None:
            return rs
        name = ev.callee
        kind = self.orc.kind.get(name)
        eff = self.orc.effects.get(name, frozenset())
        if ev.kind == 'throw' and self.loop_fn and thrown is None:
            th = self.orc.throws.get(name, frozenset())
            if (eff & cg.ELEM_CTOR) and (th & cg.ELEM_CTOR) and not self.orc.is_gch_loop(name) \
                    and not self.orc.writes_fields.get(name):
                # the element under construction: the first argument of element-pointer type
                tys = ev.argtys or []
                for i, a in enumerate(ev.args):
                    if sym.is_lin(a) and i < len(tys) and tys[i] and tys[i].strip() == self.elem_ptr:
                        return (a, False, destroyed)
                return rs
        if ev.kind == 'call' and self.dtor_only(name) and len(ev.args) >= 2:
            ptrs = [a for a in ev.args if sym.is_lin(a)]
            # destroy_range (this, first, last)
            if len(ptrs) >= 3:
                a, b = ptrs[-2], ptrs[-1]
                if thrown is not None and b == thrown:
                    cleaned = True
                # size of the owning container at this moment
                size_now = None
                for r, c in a[2]:
                    if r[0] == 'init' and len(r) == 2 and eng.field_tag.get(r[1]) == 0:
                        o = r[1][2]
                        for ad, k in eng.field_tag.items():
                            if k == 2 and ad[2] == o:
                                size_now = eng.load(st, ad)
                destroyed = destroyed | {(a, b, size_now)}
                return (thrown, cleaned, destroyed)
        if ev.kind == 'call' and kind == 'DEALLOC' and len(ev.args) >= 3:
            p = ev.args[1]
            a0 = single_atom(p)
            if a0 is not None and a0[0] == 'init' and len(a0) == 2 and eng.field_tag.get(a0[1]) == 0:
                self.releases += 1
                s = ESIZE.get(self.cfg.elem)
                ok = False
                for (a, b, size_now) in destroyed:
                    if a == p and size_now is not None and lin_sub(b, a) == lin_scale(size_now, s):
                        ok = True
                bn = base_name(f.pretty)
                dk = ('R03.3', f.name, where(ev, self.orc), ok)
                if dk not in self.reports:
                    if ok:
                        self.reports[dk] = Report('R03.3', True, None,
                                                  sample={'function': bn, 'release': where(ev, self.orc), 'config': self.cfg.name})
                    else:
                        self.reports[dk] = Report(
                            'R03.3', False, {'function': bn, 'defect': 'buffer released without destroying its elements'},
                            'R03.3: %s releases the buffer the container held on entry (at %s) on a path that has not destroyed '
                            '[data, data + size) of that container (%s)' % (bn, where(ev, self.orc), self.cfg.name),
                            {'function': f.pretty[:300], 'config': self.cfg.name, 'file': 'source/include/gch/small_vector.hpp',
                             'destroyed_ranges': [repr(x)[:160] for x in destroyed][:4]})
        return (thrown, cleaned, destroyed)

    def on_exit(self, rs, kind, st, f, eng, rv=None):
        thrown, cleaned, destroyed = rs
        if kind == 'unwind' and thrown is not None:
            self.thrown += 1
            bn = base_name(f.pretty)
            dk = ('R03.2', f.name, cleaned)
            if dk in self.reports:
                return
            if cleaned:
                self.reports[dk] = Report('R03.2', True, None, sample={'function': bn, 'config': self.cfg.name})
            else:
                self.reports[dk] = Report(
                    'R03.2', False, {'function': bn, 'defect': 'partial range not destroyed on throw'},
                    'R03.2: %s constructs elements in a loop; when a constructor throws, the exception leaves the function without '
                    'the elements already built (the range ending at the failing position) being destroyed (%s)' % (bn, self.cfg.name),
                    {'function': f.pretty[:300], 'config': self.cfg.name, 'file': 'source/include/gch/small_vector.hpp'})


def analyse_tu(eng, cfg):
    orc = eng.oracle
    reports, nw = who_may(eng, cfg)
    nloop = 0
    if cfg.elem in ESIZE:
        # helper used by the rule: is the callee itself a header function with a loop (then it is
        # a self-cleaning helper in its own right and is checked as its own root)
        loop_names = set()
        for f in irrules.gch_roots(eng):
            back, body = eng.loop_info(f)
            if back:
                loop_names.add(f.name)
        orc.is_gch_loop = lambda n: n in loop_names
        rule = CleanRule(eng, cfg)
        maximal = set(g.name for g in irrules.maximal_roots(eng))
        for f in irrules.gch_roots(eng):
            eff = orc.effects.get(f.name, frozenset())
            back, body = eng.loop_info(f)
            rule.loop_fn = False
            if back:
                # does a loop body of this function itself contain a constructing call?
                for h, blk in body.items():
                    for lb in blk:
                        for ins in f.blocks[lb].instrs:
                            if ins.op in ('call', 'invoke') and ins.callee:
                                cn = ins.callee[1:].strip('"')
                                if orc.effects.get(cn, frozenset()) & cg.ELEM_CTOR and cn not in loop_names \
                                        and not orc.writes_fields.get(cn):
                                    rule.loop_fn = True
            if not rule.loop_fn and ('DEALLOC' not in eff or f.name not in maximal):
                continue
            if rule.loop_fn:
                nloop += 1
            eng.walk(f, [rule])
        reports += list(rule.reports.values())
        rel = rule.releases
        thr = rule.thrown
    else:
        rel = thr = 0
    return {'reports': reports, 'wrappers': nw, 'constructing_loops': nloop, 'releases': rel, 'throw_paths': thr}
