"""R04.7 / R03.9 - an exception that leaves a constructor body does not abandon what a callee installed.

If the body of a NON-delegating constructor throws, the object's destructor is not run (the object
never existed); if a constructor delegates to another one first, the object counts as constructed
once the target constructor returns, and the compiler runs the destructor when the delegating
body throws.  The header relies on that: its range / converting constructors delegate to the
allocator constructor and then call helpers (append_range ...) that may allocate a buffer and
construct elements *in the object* before a later step throws.

Rule, on every path of every constructor compiled from the header: if a callee that can both
allocate and write the container words has run on the object (completed, or is the call that
threw), an unwind exit must be preceded by the destructor of the object (the delegating-constructor
cleanup), or by a release (deallocate) in a handler of the constructor itself.
"""
from .. import sym, irrules
from ..irrules import Report, base_name, obj_of, where

THIS = ((('arg', 0), 1),)


class CtorRule(sym.Rule):
    name = 'R04.7'

    def __init__(self, eng, cfg):
        self.orc = eng.oracle
        self.cfg = cfg
        self.reports = {}
        self.paths = 0

    def init(self, f, eng):
        return (None, False)       # (description of the risky callee, cleaned afterwards)

    def risky(self, ev):
        if not ev.callee or not ev.args:
            return False
        a0 = ev.args[0]
        if not (sym.is_lin(a0) and a0[2] == THIS):
            return False
        eff = self.orc.effects.get(ev.callee, frozenset())
        if self.orc.kind.get(ev.callee) is not None:
            return False
        fn = self.orc.mod.funcs.get(ev.callee)
        if fn is not None and irrules.is_ctor(fn):
            return False       # a base / target constructor: what it leaves behind when IT throws is judged in its own walk
        return 'ALLOC' in eff and bool(self.orc.writes_fields.get(ev.callee))

    def on_event(self, rs, ev, st, f, eng):
        risk, cleaned = rs
        if ev.kind in ('call', 'throw', 'enter') and ev.callee:
            fn = eng.mod.funcs.get(ev.callee)
            k = self.orc.kind.get(ev.callee)
            if ev.kind in ('call', 'enter') and fn is not None and irrules.is_dtor(fn) and ev.args and \
                    sym.is_lin(ev.args[0]) and ev.args[0][2] == THIS:
                return (risk, True if risk else cleaned)
            if ev.kind == 'call' and k == 'DEALLOC' and risk:
                return (risk, True)
            if ev.kind in ('call', 'throw') and not ev.expanded and self.risky(ev):
                # a call made inside an expanded base / target constructor belongs to that constructor
                # (its own walk sees its clean-up)
                site = ev.site
                while isinstance(site, tuple) and len(site) == 2 and isinstance(site[0], tuple):
                    site = site[1]
                inner = eng.mod.funcs.get(site[0]) if isinstance(site, tuple) and site and isinstance(site[0], str) else None
                if inner is not None and inner.name != f.name and irrules.is_ctor(inner):
                    return rs
                return (where(ev, self.orc), False)
        return rs

    def on_exit(self, rs, kind, st, f, eng, rv=None):
        if kind != 'unwind':
            return
        self.paths += 1
        risk, cleaned = rs
        bn = base_name(f.pretty)
        if risk is None:
            return
        dk = (f.name, bool(cleaned))
        if dk in self.reports:
            return
        if cleaned:
            self.reports[dk] = Report('R04.7', True, None, sample={'constructor': bn, 'config': self.cfg.name,
                                                                    'cleanup': 'destructor / release on the exceptional path'})
        else:
            self.reports[dk] = Report(
                'R04.7', False, {'function': bn, 'defect': 'constructor abandons what a callee installed'},
                'R04.7: the constructor %s lets an exception escape after a callee that can allocate a buffer and construct elements in '
                'the object has run (%s), without the object\'s destructor or a release on that path: a non-delegating constructor body '
                'that throws does not run the destructor, so the buffer and the elements are leaked (%s)' % (bn, risk, self.cfg.name),
                {'function': f.pretty[:300], 'function_line': f.src_line, 'config': self.cfg.name,
                 'file': 'source/include/gch/small_vector.hpp', 'callee': risk})


def analyse_tu(eng, cfg):
    rule = CtorRule(eng, cfg)
    n = 0
    for f in irrules.gch_roots(eng):
        if not irrules.is_ctor(f):
            continue
        head = (f.pretty or '').split('(')[0]
        if 'small_vector' not in head:
            continue
        n += 1
        eng.walk(f, [rule])
    return {'reports': list(rule.reports.values()), 'constructors': n, 'unwind_paths': rule.paths}
