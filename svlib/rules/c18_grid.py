"""C18 / R18.1 — documented = declared (E5 -> E1).

The `noexcept (...)` clauses of the README brief are extracted mechanically (svlib/readme.py,
balanced-parenthesis matching) and pasted *verbatim* into a generated struct template
`c18doc::brief<T, InlineCapacity, Allocator>` that binds the names the brief uses (`value_type`,
`allocator_type`, `Allocator`, `InlineCapacity`, the brief's own nested-type aliases; `LessI` /
`GreaterI` are the template parameters of generated member templates, with the brief's own
requires-clause term deciding which declaration applies to a source capacity).  Each documented
condition is then compared with `noexcept (actual call expression)` on `gch::small_vector<T, N, A>`
over the grid  element {nothrow/throwing move ctor} x {move assign} x {ADL swap}  x  N in {0, 3}
x  source capacity {<, ==, >}  x  allocators {std::allocator, always-equal, POCMA/POCS on/off,
is_always_equal false / undeclared, throwing default constructor, small size_type}.

Every obligation is a pair of `static_assert`s (documented value, declared value) decided by the
type checkers of g++ and clang++ (-fsyntax-only; nothing is run) and compared per configuration,
so a standard-dependent value is tolerated only when the *documented* side, evaluated under the
same feature macros, moves with it.  Names the brief uses that a library mode lacks
(`std::is_nothrow_swappable` before C++17, `allocator_traits::is_always_equal` where
`__cpp_lib_allocator_traits_is_always_equal` is not defined) are supplied from the standard's
definitions under the library's own feature-test macros, never per standard by hand.

Also decided: observers, `clear`, the allocator constructor are `noexcept` whatever the brief
says; iterators are trivially copyable, random-access category, `std::contiguous_iterator` where
concepts exist, `sizeof (iterator) == sizeof (pointer)`; the nested types exist and are what the
brief / the container requirements say.

Not decided here: whether a declared `noexcept` is truthful (R18.2/R18.3).
"""
import re

from .. import common, readme, witness

RULE = 'R18.1'
RULE_NE = 'R18.1-noexcept'
RULE_IT = 'R18.1-iterator'
RULE_TY = 'R18.1-types'

CLS = 'small_vector'

# ---------------------------------------------------------------------------------------------
# grid
# ---------------------------------------------------------------------------------------------

POCMA, POCS, IAE_T, IAE_F, STATE, THROW_DFLT, SMALL, POCCA = 1, 2, 4, 8, 16, 32, 64, 128

ELEMS = [('E%d%d%d' % (mc, ma, sw), 'c18::E<%s, %s, %s>' % (('false', 'true')[mc], ('false', 'true')[ma],
                                                               ('false', 'true')[sw]),
          {'nothrow_move_ctor': bool(mc), 'nothrow_move_assign': bool(ma), 'nothrow_swap': bool(sw)})
         for mc in (1, 0) for ma in (1, 0) for sw in (1, 0)]
ELEMS.append(('int', 'int', {'nothrow_move_ctor': True, 'nothrow_move_assign': True, 'nothrow_swap': True}))

ALLOCS = [
    ('std_allocator', None),
    ('always_equal', IAE_T),                                    # custom, empty, is_always_equal declared true
    ('always_equal_undeclared', 0),                             # empty, is_always_equal left to allocator_traits
    ('always_equal_pocma_pocs', IAE_T | POCMA | POCS),
    ('stateful', STATE | IAE_F),                                # is_always_equal false, nothing propagates
    ('stateful_pocma', STATE | IAE_F | POCMA),
    ('stateful_pocs', STATE | IAE_F | POCS),
    ('stateful_pocma_pocs', STATE | IAE_F | POCMA | POCS),
    ('stateful_undeclared', STATE),                             # is_always_equal derived: false
    ('empty_not_equal', IAE_F | POCCA),                         # empty but declares is_always_equal false
    ('stateful_throwing_default_ctor', STATE | IAE_F | THROW_DFLT),
    ('always_equal_small_size_type', IAE_T | SMALL),
]
QUICK_ALLOCS = ('std_allocator', 'always_equal', 'stateful', 'stateful_pocma', 'stateful_pocs',
                'stateful_throwing_default_ctor', 'always_equal_small_size_type')

NS = (0, 3)
SOURCES = {0: (('==', 0), ('>', 2)), 3: (('<', 2), ('<', 0), ('==', 3), ('>', 5))}


def alloc_type(bits, elem):
    if bits is None:
        return 'std::allocator<%s>' % elem
    return 'c18::PA<%s, %du>' % (elem, bits)


def cells(tier):
    """Yield (elem_name, elem_type, traits, N, alloc_name, alloc_bits)."""
    out = []
    for (en, et, tr) in ELEMS:
        for n in NS:
            for (an, bits) in ALLOCS:
                if tier == 'quick' and an not in QUICK_ALLOCS:
                    continue
                out.append((en, et, tr, n, an, bits))
    if tier == 'quick':
        # covering sub-grid: every element flavour x N with std::allocator, the always-equal and
        # the stateful allocator with each propagation trait on its own; the remaining allocators
        # on the all-nothrow / all-throwing / int flavours
        keep = []
        for c in out:
            en, _, _, n, an, _ = c
            if an in ('std_allocator', 'always_equal', 'stateful', 'stateful_pocma', 'stateful_pocs') \
                    or en in ('E111', 'E000', 'int'):
                keep.append(c)
        out = keep
    return out


def cell_id(c):
    return '%s.N%d.%s' % (c[0], c[3], c[4])


def cell_key(c, src=None):
    d = {'element': c[0], 'N': c[3], 'allocator': c[4]}
    if src is not None:
        d['source_capacity'] = src[1]
        d['source_relation'] = 'I %s N' % src[0]
    return d


# ---------------------------------------------------------------------------------------------
# README declarations -> operations
# ---------------------------------------------------------------------------------------------

def _norm(p):
    return ' '.join(p.type_tokens)


def _is_same_rvalue(p):
    return _norm(p) == CLS + ' &&'


def _conv_param(p, d):
    """`small_vector<T, X, Allocator>&&` with X a non-type template parameter of the declaration:
    returns X or None."""
    t = p.type_tokens
    if len(t) >= 8 and t[0] == CLS and t[1] == '<' and t[-1] == '&&' and t[-2] == '>' and 'const' not in t:
        args = ' '.join(t[2:-2]).split(' , ')
        if len(args) == 3:
            names = [nm for (kind, nm) in d.template_params if kind == 'unsigned']
            if args[1] in names:
                return args[1]
    return None


class Ops:
    """The declarations of the brief this rule needs; anything missing is analysis-broken."""

    OBSERVERS = [  # (name, const-qualified object?)   both overloads where the brief has both
        ('begin', False), ('begin', True), ('cbegin', True),
        ('end', False), ('end', True), ('cend', True),
        ('rbegin', False), ('rbegin', True), ('crbegin', True),
        ('rend', False), ('rend', True), ('crend', True),
        ('data', False), ('data', True),
        ('empty', True), ('size', True), ('max_size', True), ('capacity', True),
        ('get_allocator', True), ('inlined', True), ('inlinable', True), ('inline_capacity', True),
    ]

    def __init__(self, b):
        self.b = b
        self.cls = b.class_info(CLS)
        if [k for (k, _) in self.cls.template_params] != ['typename', 'unsigned', 'typename']:
            raise common.AnalysisBroken('README brief: class %s template head not recognised: %r'
                                        % (CLS, self.cls.template_params))
        self.tparams = [nm for (_, nm) in self.cls.template_params]    # T, InlineCapacity, Allocator
        mem = lambda name: b.members(CLS, name)  # noqa: E731
        ctors = mem(CLS)
        self.default_ctor = self._one('default constructor', [d for d in ctors if not d.params])
        self.move_ctor = self._one('move constructor',
                                   [d for d in ctors if len(d.params) == 1 and _is_same_rvalue(d.params[0])])
        self.alloc_ctor = self._one('allocator constructor',
                                    [d for d in ctors if len(d.params) == 1
                                     and _norm(d.params[0]) == 'const allocator_type &'
                                     and d.params[0].default is None])
        self.conv_ctors = self._some('converting move constructor',
                                     [d for d in ctors if len(d.params) == 1 and _conv_param(d.params[0], d)])
        self.move_assign = self._one('move assignment operator=',
                                     [d for d in mem('operator=') if len(d.params) == 1
                                      and _is_same_rvalue(d.params[0])])
        assigns = mem('assign')
        self.assign_move = self._one('assign (small_vector&&)',
                                     [d for d in assigns if len(d.params) == 1 and _is_same_rvalue(d.params[0])])
        self.conv_assigns = self._some('converting assign (small_vector<T, I, Allocator>&&)',
                                       [d for d in assigns if len(d.params) == 1 and _conv_param(d.params[0], d)])
        self.swap = self._one('swap (small_vector&)',
                              [d for d in mem('swap') if len(d.params) == 1 and _norm(d.params[0]) == CLS + ' &'])
        self.clear = self._one('clear', [d for d in mem('clear') if not d.params])
        self.observers = []
        for name, const in self.OBSERVERS:
            d = self._one('%s (void)%s' % (name, ' const' if const else ''),
                          [d for d in mem(name) if not d.params and d.const == const])
            self.observers.append((name, const, d))
        self.nm_swap = self._one('non-member swap', [d for d in b.nonmembers('swap') if len(d.params) == 2])
        # non-member observers: every non-member of the brief taking exactly one small_vector
        # (const) lvalue reference
        self.nm_observers = []
        for d in b.nonmembers():
            if len(d.params) == 1 and d.params[0].type_tokens[-1] == '&' and CLS in d.params[0].type_tokens \
                    and d.params[0].type_tokens[-2] == '>' and not d.name.startswith('operator'):
                self.nm_observers.append((d.name, d.params[0].type_tokens[0] == 'const', d))

    def _one(self, what, ds):
        if len(ds) != 1:
            raise common.AnalysisBroken('README brief: expected exactly one declaration of the %s, found %d'
                                        % (what, len(ds)))
        return ds[0]

    def _some(self, what, ds):
        if not ds:
            raise common.AnalysisBroken('README brief: no declaration of the %s found' % what)
        return ds


# ---------------------------------------------------------------------------------------------
# generated prelude: the brief, bound
# ---------------------------------------------------------------------------------------------

def _selector_terms(d):
    """Conjuncts of the leading requires-clause that mention a template parameter of `d` (the
    capacity condition that selects between the brief's LessI / GreaterI declarations).  The other
    conjuncts must be plain requirement names (MoveInsertable, ...): they constrain the value type
    only, the grid's element types satisfy all of them, so they select nothing."""
    c = d.requires_leading
    tnames = [nm for (_, nm) in d.template_params]
    if c is None:
        return []
    if any(op != '&&' for op in c.ops):
        mention = [t for t in c.terms if any(re.search(r'\b%s\b' % re.escape(nm), t) for nm in tnames)]
        if mention:
            raise common.AnalysisBroken('README brief line %d: requires-clause of %s mixes || with a '
                                        'capacity condition; shape not recognised' % (d.line, d.describe()))
        return []
    sel = []
    for t in c.terms:
        if any(re.search(r'\b%s\b' % re.escape(nm), t) for nm in tnames):
            sel.append(t)
        elif not re.match(r'^[A-Za-z_][\w:]*(\s*<.*>)?$', t, re.S):
            raise common.AnalysisBroken('README brief line %d: requires-clause term %r of %s not recognised'
                                        % (d.line, t, d.describe()))
    return sel


ORACLE_ALIASES = {
    # alias whose right-hand side the brief gives only as a comment -> oracle type
    'difference_type': 'typename ::c18::narrower_difference<Allocator>::type',
}


def build_prelude(ops):
    b = ops.b
    T, IC, AL = ops.tparams
    L = []
    A = L.append
    A('#include "c18_types.hpp"')
    A('namespace c18doc {')
    A('// `std::` inside this namespace is the real namespace std plus, under the library\'s own')
    A('// feature-test macros, the standard\'s definition of what the library mode lacks.')
    A('namespace std {')
    A('  using namespace ::std;')
    A('#if ! (defined (__cpp_lib_is_swappable) && __cpp_lib_is_swappable >= 201603L)')
    A('  template <typename X> struct is_nothrow_swappable : ::c18::adl_swap::nothrow<X> { };')
    A('#endif')
    A('#if ! defined (__cpp_lib_allocator_traits_is_always_equal)')
    A('  // no is_always_equal in this library mode: the term is unavailable (C17), i.e. false')
    A('  template <typename X> struct allocator_traits : ::std::allocator_traits<X>')
    A('  { using is_always_equal = ::std::false_type; };')
    A('#endif')
    A('}')
    A('using ::gch::small_vector;')
    A('using ::gch::small_vector_iterator;')
    A('template <typename %s, unsigned %s, typename %s>' % (T, IC, AL))
    A('struct brief {')
    aliases = b.class_aliases(CLS)
    for a in aliases:
        if a.rhs:
            A('  using %s = %s;  // README.md:%d' % (a.name, a.rhs, a.line))
        elif a.name in ORACLE_ALIASES:
            A('  using %s = %s;  // README.md:%d gives only a comment: %s'
              % (a.name, ORACLE_ALIASES[a.name], a.line, ' '.join((a.rhs_comment or '').split())))
        else:
            raise common.AnalysisBroken('README brief line %d: alias %s has no right-hand side and no oracle'
                                        % (a.line, a.name))
    names = {}

    def plain(key, d):
        names[id(d)] = key
        A('  static constexpr bool %s =' % key)
        A('    (%s);  // README.md:%d %s' % (d.documented, d.line, d.describe()))

    plain('default_ctor', ops.default_ctor)
    plain('move_ctor', ops.move_ctor)
    plain('alloc_ctor', ops.alloc_ctor)
    plain('move_assign', ops.move_assign)
    plain('assign_move', ops.assign_move)
    plain('swap_member', ops.swap)
    plain('clear', ops.clear)
    for fam, ds in (('conv_ctor', ops.conv_ctors), ('conv_assign', ops.conv_assigns)):
        for k, d in enumerate(ds):
            key = '%s_%d' % (fam, k)
            names[id(d)] = key
            par = _conv_param(d.params[0], d)
            if [nm for (kind, nm) in d.template_params] != [par]:
                raise common.AnalysisBroken('README brief line %d: template head of %s not recognised'
                                            % (d.line, d.describe()))
            sel = _selector_terms(d)
            A('  template <unsigned %s> struct %s {  // README.md:%d %s' % (par, key, d.line, d.describe()))
            A('    static constexpr bool applies = %s;' % (' && '.join(sel) if sel else 'true'))
            A('    static constexpr bool value =')
            A('      (%s);' % d.documented)
            A('  };')
    A('};')
    # non-member swap: the brief's own template head and parameter declarations
    d = ops.nm_swap
    tp = [nm for (_, nm) in d.template_params]
    if sorted(tp) != sorted(ops.tparams) or any(k not in ('typename', 'unsigned') for (k, _) in d.template_params):
        raise common.AnalysisBroken('README brief line %d: template head of non-member swap not recognised' % d.line)
    if any(p.name is None for p in d.params):
        raise common.AnalysisBroken('README brief line %d: non-member swap parameter without a name' % d.line)
    A('%s' % ' '.join(d.template_text.split()))
    A('struct nonmember_swap {  // README.md:%d' % d.line)
    for p in d.params:
        A('  static %s %s;' % (' '.join(p.type_tokens), p.name))
    A('  static constexpr bool value =')
    A('    (%s);' % d.documented)
    A('};')
    A('}')
    ops.nm_swap_order = tp
    return '\n'.join(L) + '\n', names


# ---------------------------------------------------------------------------------------------
# witnesses
# ---------------------------------------------------------------------------------------------

class Obl:
    __slots__ = ('tag', 'rule', 'cell', 'src', 'op', 'function', 'decl', 'doc', 'act', 'must', 'kind', 'expr')

    def __init__(self, **kw):
        for s in self.__slots__:
            setattr(self, s, kw.get(s))


def make_obligations(ops, names, tier):
    obls = []
    for c in cells(tier):
        en, et, tr, n, an, bits = c
        at = alloc_type(bits, et)
        sv = 'c18::SV<%s, %d, %s>' % (et, n, at)
        doc = 'c18doc::brief<%s, %d, %s>' % (et, n, at)
        cid = cell_id(c)

        def add(op, function, d, doc_expr, act_expr, must=False, src=None):
            tag = '%s:%s' % (cid, op)
            obls.append(Obl(tag=tag, rule=RULE, cell=c, src=src, op=op, function=function, decl=d,
                            doc=doc_expr, act=act_expr, must=must, kind='pair'))

        rv = 'c18::rv<%s> ()' % sv
        lv = 'c18::lv<%s> ()' % sv
        clv = 'c18::clv<%s> ()' % sv
        new = lambda args: 'noexcept (::new (c18::vp ()) %s (%s))' % (sv, args)  # noqa: E731
        add('default_ctor', 'small_vector::small_vector (void)', ops.default_ctor,
            doc + '::default_ctor', 'noexcept (::new (c18::vp ()) %s ())' % sv)
        add('move_ctor', 'small_vector::small_vector (small_vector&&)', ops.move_ctor,
            doc + '::move_ctor', new(rv))
        add('alloc_ctor', 'small_vector::small_vector (const allocator_type&)', ops.alloc_ctor,
            doc + '::alloc_ctor', new('c18::clv<%s> ()' % at), must=True)
        add('move_assign', 'small_vector::operator= (small_vector&&)', ops.move_assign,
            doc + '::move_assign', 'noexcept (%s = %s)' % (lv, rv))
        add('assign_move', 'small_vector::assign (small_vector&&)', ops.assign_move,
            doc + '::assign_move', 'noexcept (%s.assign (%s))' % (lv, rv))
        add('swap', 'small_vector::swap (small_vector&)', ops.swap,
            doc + '::swap_member', 'noexcept (%s.swap (%s))' % (lv, lv))
        bind = {ops.tparams[0]: et, ops.tparams[1]: '%d' % n, ops.tparams[2]: at}
        add('nonmember_swap', 'gch::swap (small_vector&, small_vector&)', ops.nm_swap,
            'c18doc::nonmember_swap<%s>::value' % ', '.join(bind[x] for x in ops.nm_swap_order),
            'noexcept (swap (%s, %s))' % (lv, lv))
        add('clear', 'small_vector::clear (void)', ops.clear, doc + '::clear',
            'noexcept (%s.clear ())' % lv, must=True)
        for name, const, d in ops.observers:
            add('%s%s' % (name, '_const' if const else ''),
                'small_vector::%s (void)%s' % (name, ' const' if const else ''), d,
                d.documented, 'noexcept (%s.%s ())' % (clv if const else lv, name), must=True)
        for name, const, d in ops.nm_observers:
            add('nonmember_%s%s' % (name, '_const' if const else ''),
                'gch::%s (%ssmall_vector&)' % (name, 'const ' if const else ''), d,
                d.documented, 'noexcept (gch::%s (%s))' % (name, clv if const else lv), must=True)
        # converting operations: the source has inline capacity I
        for src in SOURCES[n]:
            rel, i = src
            if tier == 'quick' and rel == '<' and i == 0:
                continue
            ssv = 'c18::SV<%s, %d, %s>' % (et, i, at)
            srv = 'c18::rv<%s> ()' % ssv
            for fam, ds, same_key, fn, act in (
                    ('conv_ctor', ops.conv_ctors, 'move_ctor',
                     'small_vector::small_vector (small_vector<T, I, Allocator>&&)', new(srv)),
                    ('conv_assign', ops.conv_assigns, 'assign_move',
                     'small_vector::assign (small_vector<T, I, Allocator>&&)',
                     'noexcept (%s.assign (%s))' % (lv, srv))):
                terms = ['(%s::%s<%d>::applies && %s::%s<%d>::value)' % (doc, names[id(d)], i, doc, names[id(d)], i)
                         for d in ds]
                if i == n:
                    # same type: overload resolution selects the non-template operation
                    docx = '%s::%s' % (doc, same_key)
                    dd = ops.move_ctor if fam == 'conv_ctor' else ops.assign_move
                    fn = ('small_vector::small_vector (small_vector&&)' if fam == 'conv_ctor'
                          else 'small_vector::assign (small_vector&&)') + ' [selected for a same-capacity source]'
                else:
                    docx = ' || '.join(terms)
                    dd = ds[0]
                op = '%s_from_I%d' % (fam, i)
                obls.append(Obl(tag='%s:%s' % (cid, op), rule=RULE, cell=c, src=src, op=op, function=fn,
                                decl=dd, doc=docx, act=act, must=False, kind='pair'))
                # the brief's declarations must select exactly one of themselves for I != N, none for I == N
                cnt = ' + '.join('(%s::%s<%d>::applies ? 1 : 0)' % (doc, names[id(d)], i) for d in ds)
                obls.append(Obl(tag='%s:%s:partition' % (cid, op), rule=RULE, cell=c, src=src,
                                op=op + ' (which declaration of the brief applies)', function=fn, decl=dd,
                                expr='(%s) == %d' % (cnt, 0 if i == n else 1), kind='single'))
    return obls


def type_obligations(ops, tier):
    """Iterator and nested-type obligations: per (element, allocator), N in {0,3}."""
    obls = []
    b = ops.b
    aliases = [a.name for a in b.class_aliases(CLS)]
    required = ['value_type', 'allocator_type', 'size_type', 'difference_type', 'reference',
                'const_reference', 'pointer', 'const_pointer', 'iterator', 'const_iterator',
                'reverse_iterator', 'const_reverse_iterator']
    missing = [r for r in required if r not in aliases]
    if missing:
        raise common.AnalysisBroken('README brief: nested type(s) %s not declared in class %s'
                                    % (', '.join(missing), CLS))
    # the nested types and the iterator depend on (element, allocator) only: one instance per pair
    # at N = 3, and N = 0 as well for two flavours
    seen = set()
    for c in cells(tier):
        en, et, tr, n, an, bits = c
        if n == 0 and en not in ('E111', 'int'):
            continue
        if (en, an, n) in seen:
            continue
        seen.add((en, an, n))
        at = alloc_type(bits, et)
        sv = 'c18::SV<%s, %d, %s>' % (et, n, at)
        doc = 'c18doc::brief<%s, %d, %s>' % (et, n, at)
        atr = 'std::allocator_traits<%s>' % at
        cid = cell_id(c)

        def add(rule, op, expr, guard=None):
            code_expr = expr
            obls.append(Obl(tag='%s:%s' % (cid, op), rule=rule, cell=c, op=op, expr=code_expr,
                            kind='single', doc=guard,
                            function=('gch::small_vector_iterator (small_vector::iterator / const_iterator)'
                                      if rule == RULE_IT else 'gch::small_vector nested types')))

        same = lambda x, y: 'std::is_same<%s, %s>::value' % (x, y)  # noqa: E731
        # nested types: the brief
        for a in aliases:
            add(RULE_TY, 'type:%s:as_in_brief' % a, same('%s::%s' % (sv, a), '%s::%s' % (doc, a)))
        # nested types: the container requirements / what std::vector gives
        std_oracle = [
            ('value_type', et),
            ('allocator_type', at),
            ('size_type', '%s::size_type' % atr),
            ('reference', '%s::value_type&' % sv),
            ('const_reference', 'const %s::value_type&' % sv),
            ('pointer', '%s::pointer' % atr),
            ('const_pointer', '%s::const_pointer' % atr),
            ('reverse_iterator', 'std::reverse_iterator<%s::iterator>' % sv),
            ('const_reverse_iterator', 'std::reverse_iterator<%s::const_iterator>' % sv),
        ]
        for nm, ty in std_oracle:
            add(RULE_TY, 'type:%s:container_requirement' % nm, same('%s::%s' % (sv, nm), ty))
        add(RULE_TY, 'type:difference_type:signed_integer',
            'std::is_integral<%s::difference_type>::value && std::is_signed<%s::difference_type>::value' % (sv, sv))
        add(RULE_TY, 'type:size_type:represents_difference_type',
            'std::is_unsigned<%s::size_type>::value && sizeof (%s::size_type) >= sizeof (%s::difference_type)'
            % (sv, sv, sv))
        for it, ref, ptr in (('iterator', 'reference', 'pointer'),
                             ('const_iterator', 'const_reference', 'const_pointer')):
            I = '%s::%s' % (sv, it)
            tr_ = 'std::iterator_traits<%s>' % I
            add(RULE_IT, '%s:trivially_copyable' % it, 'std::is_trivially_copyable<%s>::value' % I)
            add(RULE_IT, '%s:random_access_category' % it,
                same('%s::iterator_category' % tr_, 'std::random_access_iterator_tag'))
            add(RULE_IT, '%s:sizeof_pointer' % it, 'sizeof (%s) == sizeof (%s::%s)' % (I, sv, ptr))
            add(RULE_IT, '%s:traits_value_type' % it, same('%s::value_type' % tr_, '%s::value_type' % sv))
            add(RULE_IT, '%s:traits_reference' % it, same('%s::reference' % tr_, '%s::%s' % (sv, ref)))
            add(RULE_IT, '%s:traits_difference_type' % it,
                same('%s::difference_type' % tr_, '%s::difference_type' % sv))
            add(RULE_IT, '%s:dereference_type' % it,
                same('decltype (*c18::lv<%s> ())' % I, '%s::%s' % (sv, ref)))
            add(RULE_IT, '%s:default_constructible' % it, 'std::is_default_constructible<%s>::value' % I)
            add(RULE_IT, '%s:contiguous_iterator' % it, 'std::contiguous_iterator<%s>' % I,
                guard='defined (__cpp_lib_concepts) && __cpp_lib_concepts >= 202002L')
            add(RULE_IT, '%s:random_access_iterator_concept' % it, 'std::random_access_iterator<%s>' % I,
                guard='defined (__cpp_lib_concepts) && __cpp_lib_concepts >= 202002L')
        add(RULE_IT, 'iterator:converts_to_const_iterator',
            'std::is_convertible<%s::iterator, %s::const_iterator>::value '
            '&& ! std::is_convertible<%s::const_iterator, %s::iterator>::value' % (sv, sv, sv, sv))
        add(RULE_IT, 'iterator:begin_returns_iterator',
            same('decltype (c18::lv<%s> ().begin ())' % sv, '%s::iterator' % sv) + ' && '
            + same('decltype (c18::clv<%s> ().begin ())' % sv, '%s::const_iterator' % sv))
    return obls


SA = 'static_assert (%s, "SVW");'


def to_witnesses(obls):
    ws = []
    for o in obls:
        if o.kind == 'pair':
            if o.doc not in ('true', 'false'):
                ws.append(witness.W(o.tag + '#doc', SA % ('(%s)' % o.doc), info=o))
            ws.append(witness.W(o.tag + '#act', SA % o.act, info=o))
        else:
            if o.doc:   # feature-macro guard: availability generated from the library's macros
                code = '#if %s\n%s\n#else\nstatic_assert (false, "SVW-unavailable");\n#endif' % (o.doc, SA % o.expr)
            else:
                code = SA % o.expr
            ws.append(witness.W(o.tag + '#is', code, info=o))
    return ws


_SA_MSG = re.compile(r'static.?assert', re.I)


def configs(tier):
    """[(label, stds, extra_flags)]"""
    if tier == 'quick':
        return [('', ('c++17', 'c++20'), ())]
    return [('', tuple(common.STDS), ()),
            ('GCH_DISABLE_CONCEPTS', ('c++20', 'c++2b'), ('-DGCH_DISABLE_CONCEPTS',))]


def collect(ck, tier):
    b = readme.brief()
    ops = Ops(b)
    prelude, names = build_prelude(ops)
    obls = make_obligations(ops, names, tier) + type_obligations(ops, tier)
    ws = to_witnesses(obls)
    by_tag = {}
    for o in obls:
        if o.tag in by_tag:
            raise common.AnalysisBroken('c18_grid: duplicate obligation tag ' + o.tag)
        by_tag[o.tag] = o

    results = {}    # config label -> {tag#x: (status, msg)}
    for label, stds, flags in configs(tier):
        res = witness.compile_battery('c18grid' + ('-' + label if label else ''), prelude, ws,
                                      stds=stds, extra_flags=flags, shards=common.JOBS if tier == 'thorough' else 4)
        for (comp, std), r in res.items():
            cfg = '%s -std=%s%s' % (comp, std, (' -D' + label) if label else '')
            results[cfg] = r
            ck.unit('c18grid:' + cfg)

    def value(cfg, tag):
        """True / False for a static_assert, None when the fragment is ill-formed for another reason."""
        status, msg = results[cfg][tag]
        if status == 'ok':
            return True, ''
        if _SA_MSG.search(msg):
            return False, msg
        return None, msg

    rel = common.HEADER_REL
    ill_formed = []
    for o in obls:
        key = {'operation': o.op, 'function': o.function, 'cell': cell_key(o.cell, o.src)}
        where = 'element %s, N = %d, allocator %s%s' % (
            o.cell[0], o.cell[3], o.cell[4],
            (', source capacity I = %d (I %s N)' % (o.src[1], o.src[0])) if o.src else '')
        if o.kind == 'single':
            bad = []
            evaluated = 0
            for cfg in sorted(results):
                v, msg = value(cfg, o.tag + '#is')
                if v is False and 'SVW-unavailable' in msg:
                    continue        # the library mode lacks the facility (its own feature macro says so)
                evaluated += 1
                if v is not True:
                    bad.append((cfg, msg))
            if evaluated == 0:
                raise common.AnalysisBroken('c18_grid: obligation %s was not evaluated under any configuration'
                                            % o.tag)
            if not bad:
                ck.ok(o.rule, sample={'cell': cell_key(o.cell, o.src), 'obligation': o.op, 'static_assert': o.expr,
                                      'configs': evaluated})
            elif o.rule == RULE:
                ck.violation(o.rule, key,
                             'C18 R18.1: README.md brief, %s: the requires-clauses of the brief\'s declarations do '
                             'not select exactly one declaration for %s' % (o.function, where),
                             {'static_assert': o.expr, 'configs': ['%s: %s' % b_ for b_ in bad[:14]],
                              'file': 'README.md'})
            else:
                # the nested types and the iterator class are one construct per obligation: group the
                # cells under one key (cells are listed in the details), keep the configuration class
                if len(bad) == evaluated:
                    cclass = 'every configuration'
                elif all('-DGCH_DISABLE_CONCEPTS' in c_ for (c_, _) in bad):
                    cclass = 'only with -DGCH_DISABLE_CONCEPTS'
                else:
                    cclass = 'some configurations'
                ck.violation(o.rule, {'operation': o.op, 'function': o.function, 'configuration_class': cclass},
                             'C18 %s: %s: %s: `%s` does not hold for gch::small_vector<%s, %d, %s> (%s) [%s: %s]'
                             % (o.rule, rel, o.function, o.op, o.cell[1], o.cell[3], alloc_type(o.cell[5], o.cell[1]),
                                where, cclass, bad[0][0]),
                             {'cell': cell_key(o.cell), 'static_assert': o.expr,
                              'configs': ['%s: %s' % b_ for b_ in bad[:14]], 'file': rel})
            continue
        # pair: documented value vs declared value, per configuration
        mism = []
        must_fail = []
        vals = {}
        for cfg in sorted(results):
            if o.doc in ('true', 'false'):
                dv = (o.doc == 'true')
            else:
                dv, dmsg = value(cfg, o.tag + '#doc')
                if dv is None:
                    ill_formed.append('%s [%s] documented expression: %s' % (o.tag, cfg, dmsg))
                    continue
            av, amsg = value(cfg, o.tag + '#act')
            if av is None:
                ill_formed.append('%s [%s] call expression: %s' % (o.tag, cfg, amsg))
                continue
            vals[cfg] = (dv, av)
            if dv != av:
                mism.append(cfg)
            if o.must and not av:
                must_fail.append(cfg)
        d = o.decl
        if not mism:
            ck.ok(RULE, sample={'cell': cell_key(o.cell, o.src), 'operation': o.op,
                                'documented (README.md:%d)' % d.line: ' '.join(o.decl.documented.split()),
                                'declared': o.act,
                                'declared value(s) over the configurations': sorted(set(v[1] for v in vals.values())),
                                'configs': len(vals)})
        else:
            dv, av = vals[mism[0]]
            ck.violation(RULE, key,
                         'C18 R18.1 documented != declared: %s (%s) is %s for %s, but README.md:%d documents '
                         '`%s`, which is %s there [%s%s]'
                         % (o.function, rel, 'noexcept' if av else 'not noexcept', where, d.line,
                            ('noexcept (%s)' % ' '.join(d.noexcept.split())) if isinstance(d.noexcept, str)
                            else ('noexcept' if d.noexcept else 'no exception specification'),
                            'true' if dv else 'false', mism[0],
                            (' and %d more configuration(s)' % (len(mism) - 1)) if len(mism) > 1 else ''),
                         {'documented_expression': o.doc, 'declared_expression': o.act,
                          'readme_line': d.line, 'readme_declaration': d.text[:600],
                          'configs_mismatching': mism,
                          'values (documented, declared)': {c: list(v) for c, v in vals.items()},
                          'file': rel})
        if o.must:
            if not must_fail:
                ck.ok(RULE_NE, sample={'cell': cell_key(o.cell), 'operation': o.op, 'declared': o.act,
                                       'must be': 'noexcept whatever the brief says'})
            else:
                ck.violation(RULE_NE, key,
                             'C18 R18.1 %s (%s) must be noexcept but is not for %s [%s]'
                             % (o.function, rel, where, must_fail[0]),
                             {'declared_expression': o.act, 'configs': must_fail, 'file': rel})
    if ill_formed:
        raise common.AnalysisBroken('c18_grid: %d witness expression(s) are ill-formed (not a static_assert '
                                    'outcome), first: %s' % (len(ill_formed), ill_formed[0][:500]))

    n_clauses = len([d for d in b.noexcept_clauses()])
    used = [ops.default_ctor, ops.move_ctor, ops.alloc_ctor, ops.move_assign, ops.assign_move, ops.swap,
            ops.clear, ops.nm_swap] + ops.conv_ctors + ops.conv_assigns \
        + [d for (_, _, d) in ops.observers] + [d for (_, _, d) in ops.nm_observers]
    n_cond = len([d for d in used if isinstance(d.noexcept, str)])
    n_bare = len([d for d in used if d.noexcept is True])
    ncell = len(set(cell_id(o.cell) for o in obls))
    ck.floor('R18.1 README noexcept (...) clauses extracted and used', n_cond, 8)
    ck.floor('R18.1 README declarations with a bare noexcept matched', n_bare, 24)
    ck.floor('R18.1 README declarations matched to operations', len(used), 34)
    ck.floor('R18.1 grid cells', ncell, 100 if tier == 'quick' else 216)
    ck.floor('R18.1 configurations (compiler x standard x macro)', len(results), 4 if tier == 'quick' else 14)
    ck.extra['R18.1'] = {
        'readme_noexcept_clauses_total': n_clauses,
        'readme_clauses_used': n_cond, 'readme_bare_noexcept_used': n_bare,
        'readme_declarations_matched': len(used),
        'grid_cells': ncell, 'configurations': sorted(results),
        'static_asserts_per_configuration': len(ws),
        'clauses': [{'line': d.line, 'declaration': d.describe(),
                     'noexcept': ' '.join(d.noexcept.split())} for d in used if isinstance(d.noexcept, str)],
    }
    ck.note('R18.1: documented side generated from README.md brief lines %d-%d; `difference_type` is given '
            'only as a comment there (oracle: the narrower of make_signed<size_type> and '
            'allocator_traits::difference_type)' % (b.line_of(0), b.line_of(len(b.raw) - 1)))
    ck.note('R18.1: std::contiguous_iterator / std::random_access_iterator are asserted in every configuration '
            'whose library defines __cpp_lib_concepts >= 202002L (the compiler reports the others as unavailable); '
            '-DGCH_DISABLE_CONCEPTS is not an availability item of the library, so it does not excuse them')
    ck.assumptions += [
        'R18.1: value-type requirement names in the brief\'s requires-clauses (MoveInsertable, ...) do not '
        'select between declarations for the grid\'s element types (all are movable, copyable, swappable)',
        'R18.1: noexcept of a constructor is observed through a placement new-expression (no destructor call)',
    ]
