"""C16 rules over IR.

R16.1  operator algebra: each comparison operator reduces (following calls) to
       EQ(a,b) = size(a) == size(b) && std::equal (a.begin, a.end, b.begin)   or
       LT(a,b) = std::lexicographical_compare (a.begin, a.end, b.begin, b.end)
       with the operand order and negation of the mathematical table; <=> is
       lexicographical_compare_three_way over (a, b) in that order, and the fallback comparator is
       l < r ? less : r < l ? greater : equivalent.
R16.2  erase / erase_if are the erase-remove idiom: std::remove(_if) over [begin, end), the
       two-iterator member erase from its result to end, and the return value is size before -
       size after.
"""
import re

from .. import sym, irrules
from ..sym import const_of, single_atom, atom, lin_sub
from ..irrules import Report, base_name, where

TABLE = {'operator==': ('EQ', None, False), 'operator!=': ('EQ', None, True),
         'operator<': ('LT', False, False), 'operator>': ('LT', True, False),
         'operator<=': ('LT', True, True), 'operator>=': ('LT', False, True)}


def base_arg(t, eng):
    """Which container argument is a pointer based on?  -> arg index or None"""
    for r, c in t[2]:
        if r[0] == 'init' and len(r) >= 2 and eng.field_tag.get(r[1]) == 0:
            o = r[1][2]
            if len(o) == 1 and o[0][0][0] == 'arg':
                return o[0][0][1]
    return None


class CmpRule(sym.Rule):
    name = 'R16.1'

    def __init__(self, eng, cfg):
        self.orc = eng.oracle
        self.cfg = cfg
        self.reports = {}
        self.op = None
        self.paths = 0

    def init(self, f, eng):
        return frozenset()      # (ret atom, kind, x, y)

    def _kind(self, callee):
        p = self.orc.pretty.get(callee, '')
        if p.startswith('bool std::lexicographical_compare<'):
            return 'LT'
        if p.startswith('bool std::equal<'):
            return 'EQ'
        if ' std::lexicographical_compare_three_way<' in p:
            return 'TW'
        return None

    def _record(self, rs, ret, kind, args, eng, site):
        ptrs = [a for a in args if sym.is_lin(a) and base_arg(a, eng) is not None]
        bases = [base_arg(a, eng) for a in ptrs]
        ra = single_atom(ret) if ret is not None else None
        return rs | {(ra if ra is not None else ('site', repr(site)[:80]), kind, tuple(bases), tuple(ptrs))}

    def on_event(self, rs, ev, st, f, eng):
        # the standard algorithm may be an opaque callee ('call') or a thin wrapper that was
        # expanded ('enter' ... 'leave'): in both cases the event carries its name and operands
        if ev.kind == 'call' and ev.callee and ev.args:
            k = self._kind(ev.callee)
            if k:
                return self._record(rs, ev.ret, k, ev.args, eng, ev.site)
        elif ev.kind == 'enter' and ev.callee and ev.args:
            k = self._kind(ev.callee)
            if k:
                return rs | {('pending', k, tuple(ev.args), repr(ev.site)[:120])}
        elif ev.kind == 'leave' and ev.callee:
            k = self._kind(ev.callee)
            if k:
                for c in rs:
                    if c[0] == 'pending' and c[1] == k and c[3] == repr(ev.site)[:120]:
                        return self._record(rs - {c}, ev.ret, k, c[2], eng, ev.site)
        return rs

    def on_exit(self, rs, kind, st, f, eng, rv=None):
        if kind != 'ret':
            return
        self.paths += 1
        op = self.op
        bn = op
        want = TABLE.get(op)
        dk_ok = (f.name, 'ok')

        def bad(what, detail=None):
            dk = (f.name, what)
            if dk not in self.reports:
                d = {'function': f.pretty[:300], 'config': self.cfg.name, 'file': 'source/include/gch/small_vector.hpp'}
                d.update(detail or {})
                self.reports[dk] = Report('R16.1', False, {'function': op, 'defect': what},
                                          'R16.1: %s: %s (%s)' % (op, what, self.cfg.name), d)
        if op == 'operator<=>':
            tws = [c for c in rs if c[1] == 'TW' and c[0] != 'pending']
            if len(tws) != 1:
                bad('does not reduce to one lexicographical_compare_three_way')
                return
            bases = tws[0][2]
            if list(bases[:4]) != [0, 0, 1, 1]:
                bad('three-way comparison operands are not (lhs.begin, lhs.end, rhs.begin, rhs.end)', {'bases': list(bases)})
                return
            ptrs = tws[0][3]
            if not self._range_ok(ptrs, eng):
                bad('three-way comparison does not span [begin, end) of both operands')
                return
            if dk_ok not in self.reports:
                self.reports[dk_ok] = Report('R16.1', True, None, sample={'operator': op, 'form': 'TW(lhs, rhs)', 'config': self.cfg.name})
            return
        if want is None or rv is None:
            return
        base, swapped, neg = want
        pos, pol = sym.strip_not(rv)
        ra = single_atom(pos)
        calls = dict((c[0], c) for c in rs if c[0] != 'pending')
        if ra in calls:
            c = calls[ra]
            if c[1] != base:
                bad('reduces to %s instead of %s' % (c[1], base))
                return
            if (not pol) != neg:
                bad('result %s negated' % ('is' if not pol else 'is not'))
                return
            bases = list(c[2])
            if base == 'LT':
                exp = [1, 1, 0, 0] if swapped else [0, 0, 1, 1]
                if bases[:4] != exp:
                    bad('operands of lexicographical_compare are %s, expected %s (0 = lhs, 1 = rhs)' % (bases[:4], exp))
                    return
                if not self._range_ok(c[3], eng):
                    bad('lexicographical_compare does not span [begin, end) of both operands')
                    return
            else:
                if sorted(set(bases[:3])) != [0, 1] or bases[0] != bases[1]:
                    bad('operands of std::equal are %s, expected (a.begin, a.end, b.begin)' % bases[:3])
                    return
                # dominated by the size test
                ok = False
                for (cnd, v) in st.conds:
                    a = single_atom(cnd)
                    if a is not None and a[0] == 'cmp' and a[1] == 'eq' and v is True:
                        d = a[2]
                        ats = [at for at, co in d[2]]
                        if len(ats) == 2 and all(at[0] == 'init' and eng.field_tag.get(at[1]) == 2 for at in ats) \
                                and sorted(co for at, co in d[2]) == [-1, 1]:
                            ok = True
                if not ok:
                    bad('std::equal is not guarded by size(lhs) == size(rhs)')
                    return
            if dk_ok not in self.reports:
                self.reports[dk_ok] = Report('R16.1', True, None,
                                             sample={'operator': op, 'form': '%s%s(%s)' % ('not ' if neg else '', base,
                                                                                         'rhs, lhs' if swapped else 'lhs, rhs'),
                                                     'config': self.cfg.name})
            return
        # constant result paths: only == / != may short-circuit on the size test
        k = const_of(rv)
        if k is not None and base == 'EQ':
            sizes_differ = False
            for (cnd, v) in st.conds:
                a = single_atom(cnd)
                if a is not None and a[0] == 'cmp' and a[1] == 'eq' and v is False:
                    ats = [at for at, co in a[2][2]]
                    if len(ats) == 2 and all(at[0] == 'init' and eng.field_tag.get(at[1]) == 2 for at in ats):
                        sizes_differ = True
            if sizes_differ and bool(k) == neg:
                return
            bad('returns the constant %d on a path without size(lhs) != size(rhs)' % k)
            return
        bad('result is not a (negated) std::equal / std::lexicographical_compare of the operands',
            {'result': repr(rv)[:200]})

    def _range_ok(self, ptrs, eng):
        """ptrs = (a.begin, a.end, b.begin[, b.end]): begin = DATA, end = DATA + k*SIZE."""
        def is_begin(t):
            return t[1] == 0 and len(t[2]) == 1 and t[2][0][1] == 1 and eng.field_tag.get(t[2][0][0][1]) == 0

        def is_end(t, b):
            d = lin_sub(t, b)
            return d[1] == 0 and len(d[2]) == 1 and d[2][0][1] > 0 and d[2][0][0][0] == 'init' \
                and eng.field_tag.get(d[2][0][0][1]) == 2 and d[2][0][0][1][2] == b[2][0][0][1][2]
        if len(ptrs) < 3:
            return False
        if not (is_begin(ptrs[0]) and is_end(ptrs[1], ptrs[0]) and is_begin(ptrs[2])):
            return False
        if len(ptrs) >= 4 and not is_end(ptrs[3], ptrs[2]):
            return False
        return True


class LambdaRule(sym.Rule):
    """The weak-order fallback comparator: l < r ? less : r < l ? greater : equivalent."""
    name = 'R16.1'

    def __init__(self, eng, cfg):
        self.orc = eng.oracle
        self.cfg = cfg
        self.reports = {}

    def init(self, f, eng):
        return ()

    def on_event(self, rs, ev, st, f, eng):
        if ev.kind == 'call' and ev.callee and self.orc.kind.get(ev.callee) == 'ELEM_CMP' and ev.ret is not None:
            return rs + ((single_atom(ev.ret), tuple(ev.args)),)
        return rs

    def on_exit(self, rs, kind, st, f, eng, rv=None):
        if kind != 'ret' or rv is None:
            return
        l, r = atom(('arg', 1)), atom(('arg', 2))
        truth = {}
        for (c, v) in st.conds:
            pos, pol = sym.strip_not(c)
            a = single_atom(pos)
            if a is not None:
                truth[a] = v if pol else (not v)
        k = const_of(rv)
        if k is None:
            # std::weak_ordering::less / greater / equivalent are static members: the value is a
            # load from the corresponding global
            ra = single_atom(rv)
            if ra is not None and ra[0] == 'init':
                for g, c in ra[1][2]:
                    if g[0] == 'glob':
                        nm = g[1]
                        if nm.endswith('ordering4lessE'):
                            k = -1
                        elif nm.endswith('ordering7greaterE'):
                            k = 1
                        elif nm.endswith('ordering10equivalentE'):
                            k = 0
        ok = False
        what = 'comparator does not have the form l < r ? less : r < l ? greater : equivalent'
        if k is not None and len(rs) >= 1 and rs[0][1] == (l, r):
            t0 = truth.get(rs[0][0])
            if t0 is True and k in (-1, 255) and len(rs) == 1:
                ok = True
            elif t0 is False and len(rs) == 2 and rs[1][1] == (r, l):
                t1 = truth.get(rs[1][0])
                if (t1 is True and k == 1) or (t1 is False and k == 0):
                    ok = True
        dk = (f.name, ok)
        if dk in self.reports:
            return
        if ok:
            self.reports[dk] = Report('R16.1', True, None, sample={'operator': 'operator<=> fallback comparator', 'config': self.cfg.name})
        else:
            self.reports[dk] = Report('R16.1', False, {'function': 'operator<=> comparator', 'defect': what},
                                      'R16.1: operator<=> fallback: %s (%s)' % (what, self.cfg.name),
                                      {'function': f.pretty[:300], 'config': self.cfg.name, 'result': repr(rv)[:80],
                                       'calls': [repr(c[1])[:120] for c in rs]})


class EraseRule(sym.Rule):
    name = 'R16.2'

    def __init__(self, eng, cfg):
        self.orc = eng.oracle
        self.cfg = cfg
        self.reports = {}

    def init(self, f, eng):
        return (None, None)     # (remove call: (ret, args), erase call args)

    def on_event(self, rs, ev, st, f, eng):
        if ev.kind == 'leave' and ev.callee and rs[0] is not None and rs[0][0] == 'pending':
            head = self.orc.pretty.get(ev.callee, '').split('(')[0]
            if ' std::remove<' in ' ' + head or ' std::remove_if<' in ' ' + head:
                return ((ev.ret, rs[0][1]), rs[1])
        if ev.kind in ('call', 'enter') and ev.callee and ev.args:
            p = self.orc.pretty.get(ev.callee, '')
            head = p.split('(')[0]
            is_remove = ' std::remove<' in ' ' + head or ' std::remove_if<' in ' ' + head
            if is_remove and ev.kind == 'call':
                return ((ev.ret, tuple(ev.args)), rs[1])
            if is_remove and ev.kind == 'enter' and rs[0] is None:
                return (('pending', tuple(ev.args)), rs[1])
            if '::erase(' in p and 'gch::small_vector<' in head and rs[1] is None:
                return (rs[0], tuple(ev.args))
        return rs

    def on_exit(self, rs, kind, st, f, eng, rv=None):
        if kind != 'ret':
            return
        bn = base_name(f.pretty)

        def bad(what):
            dk = (f.name, what)
            if dk not in self.reports:
                self.reports[dk] = Report('R16.2', False, {'function': bn, 'defect': what},
                                          'R16.2: gch::%s: %s (%s)' % (bn, what, self.cfg.name),
                                          {'function': f.pretty[:300], 'config': self.cfg.name})
        rem, er = rs
        if rem is None:
            return bad('does not call std::remove / std::remove_if')
        if er is None:
            return bad('does not call the member erase')
        rret, rargs = rem
        # remove over [begin, end) of v (= arg 0)
        data = size = None
        for a, k in eng.field_tag.items():
            if a[2] == ((('arg', 0), 1),):
                if k == 0:
                    data = a
                elif k == 2:
                    size = a
        if data is None or size is None:
            return bad('container words not found')
        d0 = atom(('init', data))
        s0 = atom(('init', size))
        if rargs[0] != d0:
            return bad('std::remove does not start at begin()')
        dd = lin_sub(rargs[1], d0)
        if not (dd[1] == 0 and len(dd[2]) == 1 and dd[2][0][0] == ('init', size)):
            return bad('std::remove does not end at end()')
        if len(er) != 3:
            return bad('the single-iterator erase is used (only one element would be erased)')
        if er[1] != rret:
            return bad('erase does not start at the result of std::remove')
        if er[2] != rargs[1]:
            return bad('erase does not extend to end()')
        sf = eng.load(st, size)
        # the count removed: size before - size after, or the length of the erased range [result of
        # std::remove, end) itself (the member erase reduces the size by exactly that, C01 R01.1)
        esz = dd[2][0][1]
        erased = sym.mk_divx(lin_sub(er[2], er[1]), esz) if esz > 0 else None
        if rv is None or (rv != lin_sub(s0, sf) and rv != erased):
            return bad('the return value is not size before - size after')
        dk = (f.name, 'ok')
        if dk not in self.reports:
            self.reports[dk] = Report('R16.2', True, None, sample={'function': bn, 'config': self.cfg.name})


def analyse_tu(eng, cfg):
    orc = eng.oracle
    reports = []
    nops = 0
    rule = CmpRule(eng, cfg)
    er = EraseRule(eng, cfg)
    lam = LambdaRule(eng, cfg)
    nerase = 0
    nlambda = 0
    for f in irrules.gch_roots(eng):
        p = f.pretty or ''
        m = re.match(r'^(?:bool|auto) gch::(operator(?:==|!=|<=>|<=|>=|<|>))<', p)
        if m and "::'lambda'" in p:
            # judged only where the element's operator< is an opaque call (TR's is an inline
            # function and int's is built in: their comparisons are not visible as calls)
            if cfg.elem in ('NM', 'NA', 'TM', 'MO', 'MOT', 'CO'):
                nlambda += 1
                eng.walk(f, [lam])
            continue
        if m and 'gch::small_vector<' in p[p.find('('):]:
            rule.op = m.group(1)
            nops += 1
            eng.walk(f, [rule])
            continue
        if ' gch::erase<' in p or ' gch::erase_if<' in p:
            nerase += 1
            eng.walk(f, [er])
    reports = list(rule.reports.values()) + list(er.reports.values()) + list(lam.reports.values())
    return {'reports': reports, 'operators': nops, 'erase_functions': nerase, 'paths': rule.paths}
