"""C13 R13.5 - the byte-copy twin of a range helper does what the element-wise twin does.

The header selects, per element type and allocator, between an element-wise implementation of its
range helpers (move_left / move_right / copy_range / uninitialized_copy / uninitialized_move ...:
loops over the element's special members) and a memcpy/memmove implementation.  For every such
helper - recognised by shape, not by name: a non-public member of small_vector_base /
allocator_interface whose parameters are 2 or 3 element pointers - the inferred law (svlib/rules/
ir_laws.py: the result as a term over the arguments, and the destination/source byte ranges of its
element or byte-copy effects) is computed in every configuration of the corpus.  Laws of such helpers
mention only their own arguments, so they are comparable across element types: all configurations
must agree on the result, and all configurations that have visible effects must agree on the ranges.
The reference is the element-wise twin (element types with opaque special members); a configuration
that takes the byte-copy twin (trivial elements) and disagrees is reported.
"""
import re

from .. import irrules
from ..irrules import Report, base_name
from . import ir_laws

REFERENCE_ELEMS = ('NM', 'NA', 'TM', 'MO', 'MOT', 'CO')


def canon(t):
    return re.sub(r"'_Z[^']*'", "'fn'", repr(t)) if t is not None else None


def analyse_tu(eng, cfg):
    from .. import corpus
    laws = ir_laws.Laws(eng, cfg)
    elem = corpus.ELEMS[cfg.elem].replace('int *', 'int*')
    sigs = {}
    for f in irrules.gch_roots(eng):
        p = f.pretty or ''
        head = p.split('(')[0]
        if 'small_vector_base<' not in head and 'allocator_interface<' not in head:
            continue
        ps = ir_laws.param_list(f)
        if not (2 <= len(ps) <= 3) or len(f.params) != 1 + len(ps):
            continue
        if not all(q.strip() in (elem + '*', elem + ' const*') for q in ps):
            continue
        lw = laws.law(f.name)
        if lw is None or len(lw.alts) != 1:
            continue
        a = lw.alts[0]
        ret = a['ret']
        if ret is None or ret[0] != 'abs':
            continue
        terms = [ret[1]]
        effs = None
        if a['effects'] is not None:
            effs = tuple((e[2], e[3], e[5], e[6]) for e in a['effects'] if e[0] != 'destroy')
            for e in effs:
                terms += [x for x in e if x is not None]
        # laws over the helper's own arguments only
        if any(at[0] != 'arg' and at[0] not in ('divx',) for t in terms for at in ir_laws.atoms_of(t)):
            continue
        key = '%s/%d' % (base_name(p), len(ps))
        sig = (canon(ret[1]), tuple(tuple(canon(x) for x in e) for e in effs) if effs is not None else None)
        sigs.setdefault(key, []).append({'sig': sig, 'function': p[:260], 'line': f.src_line})
    return {'reports': [], 'sigs': sigs, 'elem': cfg.elem, 'cfg': cfg.name}


def compare(ck, results):
    """results: list of per-TU dicts from analyse_tu (ok ones)."""
    by_key = {}
    for r in results:
        for key, lst in r['sigs'].items():
            for it in lst:
                by_key.setdefault(key, []).append((r['elem'], r['cfg'], it))
    n = 0
    for key, lst in sorted(by_key.items()):
        ref = set(it['sig'] for (el, cfgn, it) in lst if el in REFERENCE_ELEMS)
        if len(ref) != 1:
            continue           # no unique element-wise reference in the corpus
        ref = list(ref)[0]
        for (el, cfgn, it) in lst:
            n += 1
            got = it['sig']
            same_ret = got[0] == ref[0]
            same_eff = (not got[1]) or (not ref[1]) or got[1] == ref[1]
            if same_ret and same_eff:
                ck.ok('R13.5', sample={'helper': key, 'config': cfgn, 'agrees_with': 'the element-wise twin'})
            else:
                what = 'returns a different position' if not same_ret else 'copies different byte ranges'
                ck.violation('R13.5', {'function': key.split('/')[0], 'defect': 'byte-copy twin disagrees with the element-wise twin (%s)' % what},
                             'R13.5: %s in configuration %s %s than the element-wise implementation of the same helper: %s vs %s'
                             % (key.split('/')[0], cfgn, what, (got[0] if not same_ret else got[1]), (ref[0] if not same_ret else ref[1])),
                             {'function': it['function'], 'function_line': it['line'], 'config': cfgn,
                              'file': 'source/include/gch/small_vector.hpp', 'law': got, 'reference_law': ref})
    return n
