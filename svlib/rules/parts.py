"""Helper: run the available rule parts of a property into one Check."""
import importlib

from .. import common, corpus, irrules


def run_parts(ck, tier, witness_parts=(), ir_parts=(), cfgs=None, rule_filter=None):
    for part in witness_parts:
        try:
            mod = importlib.import_module('svlib.rules.' + part)
        except ImportError as e:
            ck.note('part %s not available (%s)' % (part, e))
            continue
        mod.collect(ck, tier)
    results = {}
    if ir_parts:
        if cfgs is None:
            cfgs = corpus.corpus(tier)
        avail = []
        for part in ir_parts:
            try:
                importlib.import_module('svlib.rules.' + part)
                avail.append(part)
            except ImportError as e:
                ck.note('part %s not available (%s)' % (part, e))
        allres = corpus.run_parts_over(cfgs, avail) if avail else {}
        for part in avail:
            res = allres[part]
            if rule_filter is not None:
                for r in res:
                    if r['ok']:
                        r['res']['reports'] = [x for x in r['res']['reports'] if rule_filter(part, x)]
            irrules.aggregate(ck, res)
            results[part] = [x for x in res if x['ok']]
    return results
