"""C08 — constant evaluation hygiene and paired inline->heap substitution (DESIGN section 6, C08).

Engine: the `svconst` clang plugin (plugin/svconst.cc) over probe TUs compiled `-fsyntax-only`
as C++20 and C++2b with `-DNDEBUG`.  Nothing of the library is executed, neither at run time nor
in the constant evaluator: the plugin only reads the type-checked, instantiated AST.

R08.1  Bottom-up over the instantiated call graph, NC(f) holds iff f is not `constexpr`, or f
       contains -- at a point reachable when std::is_constant_evaluated () is true -- a
       non-constant construct (memcpy/memmove/memset/fprintf/abort, placement new, an explicit
       cast from (cv) void* to an object pointer, reinterpret_cast, a call to a non-constexpr
       function) or a call to an NC function.  Operands of `throw` and bodies of [[noreturn]]
       functions are failure arms and exempt.  One obligation per function instance reachable
       from the public API through call sites that are themselves reachable under constant
       evaluation: it must not be NC.

R08.2  (a) every allocation that only happens under the guard must flow into the data-pointer
       word and be accompanied, in the same function, by a capacity write of the *same* count
       expression (structural equality after stripping casts; locals are resolved through the
       assignments that can reach the write on a path through the allocation);
       (b) every RAII holder class (constructor initialises a pointer member from an allocation:
       today `heap_temporary`) releases with the same count expression in its constructor's catch
       handler and in its destructor.

Roles (who allocates, who writes m_data_ptr / m_capacity) are discovered from what the functions
do -- calls to std::allocator_traits<>::allocate/deallocate, stores to the data members the shipped
debugger visualisers name -- closed under parameter forwarding; never from the repo's function
names.
"""
import hashlib
import json
import os
import re

from .. import common

PLUGIN_SO = os.path.join(common.VERIF, 'plugin', 'svconst.so')
CANARY = os.path.join(common.VERIF, 'canaries', 'c08_canary.cpp')

# ------------------------------------------------------------------------------------------------
# probe source

PROBE_TYPES = r'''
#include <gch/small_vector.hpp>
#include <cstddef>
#include <initializer_list>
#include <iterator>
#include <memory>
#include <utility>

namespace c08t
{
  // literal class with user-provided constexpr special members (not trivially copyable)
  struct Lit
  {
    int v;
    constexpr Lit () noexcept : v (0) { }
    constexpr Lit (int x) noexcept : v (x) { }
    constexpr Lit (const Lit& o) noexcept : v (o.v) { }
    constexpr Lit (Lit&& o) noexcept : v (o.v) { o.v = -1; }
    constexpr Lit& operator= (const Lit& o) noexcept { v = o.v; return *this; }
    constexpr Lit& operator= (Lit&& o) noexcept { v = o.v; o.v = -1; return *this; }
    friend constexpr bool operator== (const Lit& a, const Lit& b) noexcept { return a.v == b.v; }
    friend constexpr bool operator< (const Lit& a, const Lit& b) noexcept { return a.v < b.v; }
  };

  // literal class with a non-trivial constexpr destructor (C++20)
  struct LitD
  {
    int v;
    constexpr LitD () noexcept : v (0) { }
    constexpr LitD (int x) noexcept : v (x) { }
    constexpr LitD (const LitD& o) noexcept : v (o.v) { }
    constexpr LitD (LitD&& o) noexcept : v (o.v) { o.v = -1; }
    constexpr LitD& operator= (const LitD& o) noexcept { v = o.v; return *this; }
    constexpr LitD& operator= (LitD&& o) noexcept { v = o.v; o.v = -1; return *this; }
    constexpr ~LitD () { v = -2; }
    friend constexpr bool operator== (const LitD& a, const LitD& b) noexcept { return a.v == b.v; }
    friend constexpr bool operator< (const LitD& a, const LitD& b) noexcept { return a.v < b.v; }
  };

  // literal class whose move constructor may throw (copy-relocation paths)
  struct LitT
  {
    int v;
    constexpr LitT () : v (0) { }
    constexpr LitT (int x) : v (x) { }
    constexpr LitT (const LitT& o) : v (o.v) { }
    constexpr LitT (LitT&& o) : v (o.v) { o.v = -1; }
    constexpr LitT& operator= (const LitT& o) { v = o.v; return *this; }
    constexpr LitT& operator= (LitT&& o) { v = o.v; o.v = -1; return *this; }
    friend constexpr bool operator== (const LitT& a, const LitT& b) { return a.v == b.v; }
    friend constexpr bool operator< (const LitT& a, const LitT& b) { return a.v < b.v; }
  };

  // trivially copyable literal aggregate
  struct Agg
  {
    int a;
    short b;
    constexpr Agg () noexcept = default;
    constexpr Agg (int x) noexcept : a (x), b (0) { }
    friend constexpr bool operator== (const Agg& x, const Agg& y) noexcept { return x.a == y.a && x.b == y.b; }
    friend constexpr bool operator< (const Agg& x, const Agg& y) noexcept { return x.a < y.a; }
  };

  // a literal allocator that propagates on copy/move/swap and is not always equal
  // (delegates to std::allocator, so the evaluator could run it)
  template <typename T>
  struct PropAlloc
  {
    using value_type = T;
    using propagate_on_container_copy_assignment = std::true_type;
    using propagate_on_container_move_assignment = std::true_type;
    using propagate_on_container_swap = std::true_type;
    using is_always_equal = std::false_type;
    int id = 0;
    constexpr PropAlloc () noexcept = default;
    constexpr explicit PropAlloc (int i) noexcept : id (i) { }
    template <typename U> constexpr PropAlloc (const PropAlloc<U>& o) noexcept : id (o.id) { }
    constexpr T *allocate (std::size_t n) { return std::allocator<T> ().allocate (n); }
    constexpr void deallocate (T *p, std::size_t n) noexcept { std::allocator<T> ().deallocate (p, n); }
  };
  template <typename T, typename U>
  constexpr bool operator== (const PropAlloc<T>& a, const PropAlloc<U>& b) noexcept { return a.id == b.id; }
  template <typename T, typename U>
  constexpr bool operator!= (const PropAlloc<T>& a, const PropAlloc<U>& b) noexcept { return a.id != b.id; }

  // same, but nothing propagates
  template <typename T>
  struct StayAlloc
  {
    using value_type = T;
    using propagate_on_container_copy_assignment = std::false_type;
    using propagate_on_container_move_assignment = std::false_type;
    using propagate_on_container_swap = std::false_type;
    using is_always_equal = std::false_type;
    int id = 0;
    constexpr StayAlloc () noexcept = default;
    constexpr explicit StayAlloc (int i) noexcept : id (i) { }
    template <typename U> constexpr StayAlloc (const StayAlloc<U>& o) noexcept : id (o.id) { }
    constexpr T *allocate (std::size_t n) { return std::allocator<T> ().allocate (n); }
    constexpr void deallocate (T *p, std::size_t n) noexcept { std::allocator<T> ().deallocate (p, n); }
  };
  template <typename T, typename U>
  constexpr bool operator== (const StayAlloc<T>& a, const StayAlloc<U>& b) noexcept { return a.id == b.id; }
  template <typename T, typename U>
  constexpr bool operator!= (const StayAlloc<T>& a, const StayAlloc<U>& b) noexcept { return a.id != b.id; }

  template <typename T, typename Cat>
  struct It
  {
    using iterator_category = Cat;
    using value_type = T;
    using difference_type = std::ptrdiff_t;
    using pointer = const T *;
    using reference = const T&;
    const T *p = nullptr;
    constexpr reference operator* () const { return *p; }
    constexpr pointer operator-> () const { return p; }
    constexpr It& operator++ () { ++p; return *this; }
    constexpr It operator++ (int) { It t = *this; ++p; return t; }
    friend constexpr bool operator== (const It& a, const It& b) { return a.p == b.p; }
    friend constexpr bool operator!= (const It& a, const It& b) { return a.p != b.p; }
  };
  template <typename T> using InIt = It<T, std::input_iterator_tag>;
  template <typename T> using FwIt = It<T, std::forward_iterator_tag>;

  template <typename T>
  struct Gen
  {
    int k = 0;
    constexpr T operator() () { ++k; return T (); }
  };

  template <typename T>
  struct Pred
  {
    constexpr bool operator() (const T&) const { return true; }
  };
}
'''

PROBE_DRIVER = r'''
namespace c08drv
{
  // One tiny function per README operation; explicitly instantiated, never called.
  template <typename V>
  struct ops
  {
    using T = typename V::value_type;
    using A = typename V::allocator_type;
    using S = typename V::size_type;
    using CI = typename V::const_iterator;

    static void ctor_default () { V c; (void)c; }
    static void ctor_copy (const V& cv) { V c (cv); (void)c; }
    static void ctor_move (V& w) { V c (std::move (w)); (void)c; }
    static void ctor_alloc (const A& a) { V c (a); (void)c; }
    static void ctor_copy_alloc (const V& cv, const A& a) { V c (cv, a); (void)c; }
    static void ctor_move_alloc (V& w, const A& a) { V c (std::move (w), a); (void)c; }
    static void ctor_count (S n, const A& a) { V c (n); V d (n, a); (void)c; (void)d; }
    static void ctor_count_value (S n, const T& val, const A& a) { V c (n, val); V d (n, val, a); (void)c; (void)d; }
    static void ctor_count_generator (S n, c08t::Gen<T> g, const A& a) { V c (n, g); V d (n, g, a); (void)c; (void)d; }
    template <typename It>
    static void ctor_range (It f, It l, const A& a) { V c (f, l); V d (f, l, a); (void)c; (void)d; }
    static void ctor_ilist (std::initializer_list<T> il, const A& a) { V c (il); V d (il, a); (void)c; (void)d; }
    static void dtor (V *p) { p->~V (); }

    static void assign_op_copy (V& v, const V& cv) { v = cv; }
    static void assign_op_move (V& v, V& w) { v = std::move (w); }
    static void assign_op_ilist (V& v, std::initializer_list<T> il) { v = il; }
    static void assign_count_value (V& v, S n, const T& val) { v.assign (n, val); }
    template <typename It>
    static void assign_range (V& v, It f, It l) { v.assign (f, l); }
    static void assign_ilist (V& v, std::initializer_list<T> il) { v.assign (il); }
    static void assign_copy (V& v, const V& cv) { v.assign (cv); }
    static void assign_move (V& v, V& w) { v.assign (std::move (w)); }
    static void swap_member (V& v, V& w) { v.swap (w); }

    static void iteration (V& v, const V& cv)
    {
      (void)v.begin (); (void)cv.begin (); (void)v.cbegin ();
      (void)v.end (); (void)cv.end (); (void)v.cend ();
      (void)v.rbegin (); (void)cv.rbegin (); (void)v.crbegin ();
      (void)v.rend (); (void)cv.rend (); (void)v.crend ();
    }
    static void access (V& v, const V& cv, S i)
    {
      (void)v.at (i); (void)cv.at (i); (void)v[i]; (void)cv[i];
      (void)v.front (); (void)cv.front (); (void)v.back (); (void)cv.back ();
      (void)v.data (); (void)cv.data ();
    }
    static void state (const V& cv)
    {
      (void)cv.empty (); (void)cv.size (); (void)cv.max_size (); (void)cv.capacity ();
      (void)cv.get_allocator (); (void)cv.inlined (); (void)cv.inlinable ();
      (void)cv.inline_capacity ();
    }

    static void insert_copy (V& v, CI pos, const T& val) { (void)v.insert (pos, val); }
    static void insert_move (V& v, CI pos, T& rv) { (void)v.insert (pos, std::move (rv)); }
    static void insert_count (V& v, CI pos, S n, const T& val) { (void)v.insert (pos, n, val); }
    template <typename It>
    static void insert_range (V& v, CI pos, It f, It l) { (void)v.insert (pos, f, l); }
    static void insert_ilist (V& v, CI pos, std::initializer_list<T> il) { (void)v.insert (pos, il); }
    static void emplace (V& v, CI pos, const T& val, T& rv)
    {
      (void)v.emplace (pos, val);
      (void)v.emplace (pos, std::move (rv));
      (void)v.emplace (pos, 7);
      (void)v.emplace (pos);
    }
    static void erase_one (V& v, CI pos) { (void)v.erase (pos); }
    static void erase_range (V& v, CI pos, CI pos2) { (void)v.erase (pos, pos2); }
    static void push_back_copy (V& v, const T& val) { v.push_back (val); }
    static void push_back_move (V& v, T& rv) { v.push_back (std::move (rv)); }
    static void emplace_back (V& v, const T& val, T& rv)
    {
      (void)v.emplace_back (val);
      (void)v.emplace_back (std::move (rv));
      (void)v.emplace_back (7);
      (void)v.emplace_back ();
    }
    static void pop_back (V& v) { v.pop_back (); }
    static void reserve (V& v, S n) { v.reserve (n); }
    static void shrink_to_fit (V& v) { v.shrink_to_fit (); }
    static void clear (V& v) { v.clear (); }
    static void resize (V& v, S n) { v.resize (n); }
    static void resize_value (V& v, S n, const T& val) { v.resize (n, val); }
    template <typename It>
    static void append_range (V& v, It f, It l) { (void)v.append (f, l); }
    static void append_ilist (V& v, std::initializer_list<T> il) { (void)v.append (il); }
    static void append_copy (V& v, const V& cv) { (void)v.append (cv); }
    static void append_move (V& v, V& w) { (void)v.append (std::move (w)); }

    static void compare (const V& a, const V& b)
    {
      (void)(a == b); (void)(a != b); (void)(a < b); (void)(a <= b); (void)(a > b); (void)(a >= b);
      (void)(a <=> b);
    }
    static void nm_swap (V& v, V& w) { swap (v, w); gch::swap (v, w); }
    static void nm_erase (V& v, const T& val) { (void)gch::erase (v, val); }
    static void nm_erase_if (V& v) { (void)gch::erase_if (v, c08t::Pred<T> { }); }
    static void nm_iteration (V& v, const V& cv)
    {
      (void)gch::begin (v); (void)gch::begin (cv); (void)gch::cbegin (cv);
      (void)gch::end (v); (void)gch::end (cv); (void)gch::cend (cv);
      (void)gch::rbegin (v); (void)gch::rbegin (cv); (void)gch::crbegin (cv);
      (void)gch::rend (v); (void)gch::rend (cv); (void)gch::crend (cv);
    }
    static void nm_state (V& v, const V& cv)
    {
      (void)gch::size (cv); (void)gch::ssize (cv); (void)gch::empty (cv);
      (void)gch::data (v); (void)gch::data (cv);
    }

    // small_vector_iterator is a public class: every operator, both constnesses and mixed
    static void iterator_ops (V& v, const V& cv)
    {
      using I = typename V::iterator;
      using C = typename V::const_iterator;
      using D = typename V::difference_type;
      I i = v.begin ();
      C c = i;
      C c2 (cv.begin ());
      D n = 1;
      (void)*i; (void)i.operator-> (); (void)i[n]; ++i; i++; --i; i--; i += n; i -= n;
      (void)(i + n); (void)(n + i); (void)(i - n); (void)(i - i); (void)(c - i); (void)(i - c);
      (void)(i == i); (void)(i != i); (void)(i < i); (void)(i <= i); (void)(i > i); (void)(i >= i);
      (void)(i <=> i);
      (void)(i == c); (void)(c != i); (void)(i < c); (void)(c <= i); (void)(i > c); (void)(c >= i);
      (void)(i <=> c);
      (void)*c; (void)c.operator-> (); (void)c[n]; ++c; c++; --c; c--; c += n; c -= n;
      (void)(c + n); (void)(n + c); (void)(c - n); (void)(c - c2);
      I j; j = i; C k (std::move (c)); k = c2; (void)j; (void)k;
    }

    template <typename It>
    static void ranges (V& v, CI pos, It f, It l, const A& a)
    {
      ctor_range<It> (f, l, a);
      assign_range<It> (v, f, l);
      insert_range<It> (v, pos, f, l);
      append_range<It> (v, f, l);
    }

    static void all_ranges (V& v, CI pos, T *p, const A& a, c08t::InIt<T> ii, c08t::FwIt<T> fi)
    {
      ranges<T *> (v, pos, p, p, a);
      ranges<const T *> (v, pos, p, p, a);
      ranges<typename V::iterator> (v, pos, v.begin (), v.end (), a);
      ranges<typename V::const_iterator> (v, pos, v.cbegin (), v.cend (), a);
      ranges<std::move_iterator<T *>> (v, pos, std::move_iterator<T *> (p), std::move_iterator<T *> (p), a);
      ranges<std::move_iterator<typename V::iterator>> (
        v, pos, std::make_move_iterator (v.begin ()), std::make_move_iterator (v.end ()), a);
      ranges<std::reverse_iterator<typename V::iterator>> (v, pos, v.rbegin (), v.rend (), a);
      ranges<c08t::InIt<T>> (v, pos, ii, ii, a);
      ranges<c08t::FwIt<T>> (v, pos, fi, fi, a);
    }
  };

  // converting operations between small_vector<T, N> (V) and small_vector<T, M> (W)
  template <typename V, typename W>
  struct xops
  {
    using A = typename V::allocator_type;
    using CI = typename V::const_iterator;
    static void ctor_copy (const W& cw) { V c (cw); (void)c; }
    static void ctor_move (W& w) { V c (std::move (w)); (void)c; }
    static void ctor_copy_alloc (const W& cw, const A& a) { V c (cw, a); (void)c; }
    static void ctor_move_alloc (W& w, const A& a) { V c (std::move (w), a); (void)c; }
    static void assign_copy (V& v, const W& cw) { v.assign (cw); }
    static void assign_move (V& v, W& w) { v.assign (std::move (w)); }
    static void append_copy (V& v, const W& cw) { (void)v.append (cw); }
    static void append_move (V& v, W& w) { (void)v.append (std::move (w)); }
    static void compare (const V& a, const W& b)
    {
      (void)(a == b); (void)(a != b); (void)(a < b); (void)(a <= b); (void)(a > b); (void)(a >= b);
      (void)(a <=> b);
    }
    static void ranges (V& v, CI pos, W& w, const A& a)
    {
      ops<V>::template ranges<typename W::iterator> (v, pos, w.begin (), w.end (), a);
      ops<V>::template ranges<typename W::const_iterator> (v, pos, w.cbegin (), w.cend (), a);
    }
  };
}
'''

DRIVER_NS = 'c08drv'
HEADER_TAIL = 'gch/small_vector.hpp'
FIELD_PTR = 'm_data_ptr'      # the names the shipped debugger visualisers depend on
FIELD_CAP = 'm_capacity'


def probe_source(T, N, M, alloc):
    A = alloc % T
    return (PROBE_TYPES + PROBE_DRIVER
            + '\nusing T_ = %s;\nusing A_ = %s;\n' % (T, A)
            + 'using V_ = gch::small_vector<T_, %d, A_>;\n' % N
            + 'using W_ = gch::small_vector<T_, %d, A_>;\n' % M
            + 'template struct c08drv::ops<V_>;\n'
            + 'template struct c08drv::xops<V_, W_>;\n')


def configurations(tier):
    """[(config-name, std, extra flags, [(T, N, M, alloc)])]"""
    std_alloc = 'std::allocator<%s>'
    pairs = [(0, 3), (3, 0), (3, 5)]
    base = [(T, n, m, std_alloc) for T in ('int', 'c08t::Lit', 'c08t::LitD') for (n, m) in pairs]
    if tier != 'thorough':
        return [('c++20', 'c++20', (), list(base)), ('c++2b', 'c++2b', (), list(base))]
    more = [(T, n, m, std_alloc) for T in ('c08t::LitT', 'c08t::Agg', 'unsigned char', 'double')
            for (n, m) in pairs]
    more += [(T, n, m, std_alloc) for T in ('int', 'c08t::Lit') for (n, m) in ((0, 0), (1, 2), (5, 3))]
    allocs = [(T, n, m, a) for T in ('int', 'c08t::LitD') for (n, m) in pairs
              for a in ('c08t::PropAlloc<%s>', 'c08t::StayAlloc<%s>')]
    return [('c++20', 'c++20', (), base + more + allocs),
            ('c++2b', 'c++2b', (), base + more + allocs),
            ('c++20/no-concepts', 'c++20', ('-DGCH_DISABLE_CONCEPTS',), base + allocs)]


# ------------------------------------------------------------------------------------------------
# running the plugin

_so_digest = None


def plugin_digest():
    global _so_digest
    if _so_digest is None:
        if not os.path.exists(PLUGIN_SO):
            raise common.AnalysisBroken('plugin/svconst.so is missing: run `make -C %s setup`' % common.VERIF)
        cc = os.path.join(common.VERIF, 'plugin', 'svconst.cc')
        if os.path.exists(cc) and os.path.getmtime(cc) > os.path.getmtime(PLUGIN_SO):
            raise common.AnalysisBroken('plugin/svconst.so is older than plugin/svconst.cc: run '
                                        '`make -C %s setup`' % common.VERIF)
        with open(PLUGIN_SO, 'rb') as f:
            _so_digest = hashlib.sha256(f.read()).hexdigest()
    return _so_digest


def run_plugin(name, src_text, std, flags):
    flags = tuple(flags)

    def build(src, out):
        return ([common.CLANGXX, '-std=' + std, '-fsyntax-only', '-DNDEBUG', '-w',
                 '-I', common.INCLUDE] + list(flags)
                + ['-fplugin=' + PLUGIN_SO, '-Xclang', '-plugin-arg-svconst', '-Xclang', 'out=' + out, src])

    out, rc, err = common.cached_tool(['svconst', plugin_digest(), name, std, ' '.join(flags)],
                                      build, '.svconst.json', src_text=src_text)
    if rc != 0 or not os.path.exists(out):
        raise common.AnalysisBroken('svconst failed on %s (-std=%s %s): rc=%s %s'
                                    % (name, std, ' '.join(flags), rc, err[-1500:]))
    try:
        with open(out) as f:
            data = json.load(f)
    except ValueError as e:
        raise common.AnalysisBroken('svconst output for %s is not JSON: %s' % (name, e))
    if data.get('plugin') != 'svconst':
        raise common.AnalysisBroken('svconst output for %s has no plugin tag' % name)
    return data


# ------------------------------------------------------------------------------------------------
# the graph

class Graph:
    """Function instances of one configuration, merged over its TUs by mangled name."""

    def __init__(self, name):
        self.name = name
        self.fn = {}

    def add(self, data):
        for f in data['functions']:
            self.fn.setdefault(f['mangled'], f)

    def header_fns(self):
        return [f for f in self.fn.values() if f['in_header']]


def short_file(p):
    i = p.rfind('source/include/')
    return p[i:] if i >= 0 else os.path.basename(p)


def compute_nc(g):
    """NC(f) as the least fixpoint; why[f] = ('own', construct) | ('call', site, callee-mangled)."""
    nc = {}
    why = {}
    own = {}
    broken = []
    for m, f in g.fn.items():
        cons = []
        if f['noreturn']:
            own[m] = []
            continue
        if not f['constexpr']:
            cons.append({'kind': 'not-constexpr', 'what': 'function is not constexpr',
                         'file': f['file'], 'line': f['begin']})
        for n in f['nc']:
            if not n['ce'] or n['exempt']:
                continue
            if n['kind'] == 'indirect-call':
                broken.append((f, n))
                continue
            cons.append(n)
        for c in f['calls']:
            if not c['ce'] or c['exempt'] or c['has_body']:
                continue
            if (c['in_header'] or c['in_main']) and not c['callee_constexpr'] \
                    and not c['callee_trivial'] and not c['callee_noreturn']:
                cons.append({'kind': 'nonconstexpr-call', 'what': c['name'] + ' (declared, never defined)',
                             'file': c['file'], 'line': c['line']})
        own[m] = cons
    for m in g.fn:
        if own[m]:
            nc[m] = True
            why[m] = ('own', own[m][0])
        else:
            nc[m] = False
    changed = True
    while changed:
        changed = False
        for m, f in g.fn.items():
            if nc[m] or f['noreturn']:
                continue
            for c in f['calls']:
                if c['ce'] and not c['exempt'] and nc.get(c['callee']):
                    nc[m] = True
                    why[m] = ('call', c, c['callee'])
                    changed = True
                    break
    return nc, why, own, broken


def origin_of(g, why, m):
    """Follow why[] down to the function that contains the construct; returns (chain, construct)."""
    chain = [m]
    seen = {m}
    while True:
        w = why[chain[-1]]
        if w[0] == 'own':
            return chain, w[1]
        nxt = w[2]
        if nxt in seen:
            return chain, {'kind': 'cycle', 'what': 'recursive NC', 'file': '', 'line': 0}
        seen.add(nxt)
        chain.append(nxt)


def roots_of(g):
    """header functions called directly from a driver function -> {mangled: set(driver labels)}"""
    roots = {}
    for f in g.fn.values():
        if not f['main'] or f['namespace'] != DRIVER_NS:
            continue
        for c in f['calls']:
            t = g.fn.get(c['callee'])
            if t is not None and t['in_header']:
                roots.setdefault(c['callee'], set()).add(f['base'])
    return roots


def reach(g, roots):
    """BFS through call sites reachable under constant evaluation; parent pointers for chains."""
    parent = {r: None for r in roots}
    order = list(roots)
    i = 0
    while i < len(order):
        m = order[i]
        i += 1
        f = g.fn[m]
        if f['noreturn']:
            continue   # a failure arm: what it calls is not part of a constant evaluation
        for c in f['calls']:
            if not c['ce'] or c['exempt']:
                continue
            t = c['callee']
            if t in g.fn and t not in parent and g.fn[t]['in_header']:
                parent[t] = (m, c)
                order.append(t)
    return parent


def chain_to(parent, m):
    out = []
    while m is not None:
        p = parent[m]
        out.append(m)
        m = p[0] if p else None
    return list(reversed(out))


def entry_label(f):
    if f['kind'] == 'ctor':
        return 'small_vector constructor' if f['class'].startswith('gch::small_vector<') else f['name']
    if f['class'].startswith('gch::small_vector<'):
        return f['base']
    if not f['class'] and f['namespace'] == 'gch':
        return 'gch::' + f['base']
    return f['name']


# ------------------------------------------------------------------------------------------------
# README operations (independent list of what the public API is)

_NOT_NAMES = {'noexcept', 'requires', 'decltype', 'sizeof', 'alignof', 'static_assert', 'if', 'return',
              'concept', 'template', 'typename', 'operator'}


def readme_operations():
    """[(scope, name)] with scope 'member' | 'nonmember', from the README brief."""
    try:
        with open(common.README) as f:
            text = f.read()
    except OSError as e:
        raise common.AnalysisBroken('README not readable: %s' % e)
    i = text.find('## Brief')
    if i < 0:
        raise common.AnalysisBroken('README has no "## Brief" section')
    j = text.find('```c++', i)
    k = text.find('```', j + 6)
    if j < 0 or k < 0:
        raise common.AnalysisBroken('README brief has no c++ block')
    code = re.sub(r'/\*.*?\*/', ' ', text[j + 6:k], flags=re.S)
    code = re.sub(r'//[^\n]*', ' ', code)
    toks = re.findall(r'operator\s*(?:<=>|==|!=|<=|>=|\[\]|\(\)|=|<|>)|~?[A-Za-z_]\w*|::|->|[{}();<>]|\S', code)
    ops = []
    brace = 0
    paren = 0
    class_depth = None
    in_sv = False
    prev = None
    for idx, t in enumerate(toks):
        if t == '{':
            brace += 1
            if prev_class_pending(toks, idx):
                class_depth = brace
                in_sv = True
        elif t == '}':
            if in_sv and brace == class_depth:
                in_sv = False
                class_depth = None
            brace -= 1
        elif t == '(':
            if paren == 0 and prev is not None and re.match(r'^(operator|~?[A-Za-z_])', prev) \
                    and prev not in _NOT_NAMES and idx >= 2 and toks[idx - 2] != '::':
                name = re.sub(r'\s+', '', prev)
                if in_sv and brace == class_depth:
                    ops.append(('member', name))
                elif brace == 1 and not in_sv:
                    ops.append(('nonmember', name))
            paren += 1
        elif t == ')':
            paren -= 1
        elif t == ';' and paren == 0:
            pass
        prev = t
    seen = []
    for o in ops:
        if o not in seen:
            seen.append(o)
    if len(seen) < 40:
        raise common.AnalysisBroken('README brief yielded only %d operations' % len(seen))
    return seen


def prev_class_pending(toks, idx):
    """Is the `{` at idx the opening brace of `class small_vector`?"""
    j = idx - 1
    while j >= 0 and toks[j] not in (';', '}', '{'):
        j -= 1
    seg = toks[j + 1:idx]
    for a in range(len(seg) - 1):
        if seg[a] == 'class' and seg[a + 1] == 'small_vector':
            return True
    return False


def root_matches(f, scope, name):
    if scope == 'member':
        if not f['class'].startswith('gch::small_vector<'):
            return False
        if name == 'small_vector':
            return f['kind'] == 'ctor'
        if name == '~small_vector':
            return f['kind'] == 'dtor'
        return f['base'] == name
    if f['class'] or f['namespace'] != 'gch':
        return False
    if name == 'small_vector':      # the deduction guide: not a function
        return None
    return f['base'] == name


# ------------------------------------------------------------------------------------------------
# R08.2: structural expression algebra and roles

def norm(d):
    """Canonical, hashable form of a structural expression description (ids and names dropped)."""
    if d is None:
        return ('none',)
    k = d.get('k')
    if k == 'tparm':
        return ('tparm', d['name'], d['depth'], d['index'], d['val'])
    if k == 'param':
        return ('param', d['i'])
    if k == 'local':
        return ('local', d['id'])
    if k in ('ref', 'memberfn'):
        return (k, d['name'])
    if k == 'this':
        return ('this',)
    if k == 'member':
        return ('member', d['name'], norm(d['base']))
    if k == 'int':
        return ('int', d['v'])
    if k == 'bool':
        return ('bool', d['v'])
    if k in ('sizeof', 'alignof', 'uett'):
        return (k, d['type'])
    if k == 'un':
        return ('un', d['op'], norm(d['e']))
    if k == 'bin':
        return ('bin', d['op'], norm(d['l']), norm(d['r']))
    if k == 'call':
        return ('call', d['callee'], norm(d.get('obj')) if d.get('obj') else None,
                tuple(norm(a) for a in d['args']))
    if k == 'construct':
        return ('construct', d['type'], tuple(norm(a) for a in d['args']))
    return ('opaque', k, d.get('cls'), id(d))    # never equal to anything else


def show(d):
    k = d.get('k')
    if k == 'tparm':
        return '%s (= %s)' % (d['name'], d['val'])
    if k in ('param', 'local'):
        return d['name']
    if k in ('ref', 'memberfn'):
        return d['name']
    if k == 'member':
        return d['name']
    if k == 'int':
        return d['v']
    if k in ('sizeof', 'alignof'):
        return '%s (%s)' % (k, d['type'])
    if k == 'call':
        return '%s (%s)' % (d['name'].split('::')[-1], ', '.join(show(a) for a in d['args']))
    if k == 'bin':
        return '%s %s %s' % (show(d['l']), d['op'], show(d['r']))
    if k == 'un':
        return '%s%s' % (d['op'], show(d['e']))
    return '<%s>' % k


STD_ALLOC = re.compile(r'^std::allocator_traits<.*>::allocate$')
STD_DEALLOC = re.compile(r'^std::allocator_traits<.*>::deallocate$')


def exclusive(a, b):
    arms = dict((i, arm) for i, arm in a['arms'])
    for i, arm in b['arms']:
        if i in arms and arms[i] != arm:
            return True
    return False


class Roles:
    """alloc[f] = {count param index}, dealloc[f] = {count param index},
    store[f] = {field: {param index}} — closed under parameter forwarding."""

    def __init__(self, g):
        self.alloc = {}
        self.dealloc = {}
        self.store = {}
        fns = g.fn
        changed = True
        rounds = 0
        while changed:
            changed = False
            rounds += 1
            if rounds > 50:
                raise common.AnalysisBroken('role closure does not converge')
            for m, f in fns.items():
                for s in f['stores']:
                    if s['rhs'].get('k') == 'param':
                        changed |= self._add(self.store.setdefault(m, {}).setdefault(s['field'], set()),
                                             s['rhs']['i'])
                for c in f['calls']:
                    args = c['args']
                    if STD_ALLOC.match(c['name']) and len(args) >= 2 and args[1].get('k') == 'param':
                        changed |= self._add(self.alloc.setdefault(m, set()), args[1]['i'])
                    if STD_DEALLOC.match(c['name']) and len(args) >= 3 and args[2].get('k') == 'param':
                        changed |= self._add(self.dealloc.setdefault(m, set()), args[2]['i'])
                    t = c['callee']
                    for table in (self.alloc, self.dealloc):
                        for j in list(table.get(t, ())):
                            if j < len(args) and args[j].get('k') == 'param':
                                changed |= self._add(table.setdefault(m, set()), args[j]['i'])
                    for field, idxs in list(self.store.get(t, {}).items()):
                        for j in list(idxs):
                            if j < len(args) and args[j].get('k') == 'param':
                                changed |= self._add(
                                    self.store.setdefault(m, {}).setdefault(field, set()), args[j]['i'])

    @staticmethod
    def _add(s, v):
        if v in s:
            return False
        s.add(v)
        return True

    def alloc_count(self, c):
        """the count argument of call site c if its callee allocates, else None"""
        if STD_ALLOC.match(c['name']) and len(c['args']) >= 2:
            return c['args'][1]
        idx = self.alloc.get(c['callee'])
        if idx:
            j = min(idx)
            if j < len(c['args']):
                return c['args'][j]
        return None

    def dealloc_count(self, c):
        if STD_DEALLOC.match(c['name']) and len(c['args']) >= 3:
            return c['args'][2]
        idx = self.dealloc.get(c['callee'])
        if idx:
            j = min(idx)
            if j < len(c['args']):
                return c['args'][j]
        return None

    def stored_args(self, c, field):
        """arguments of call site c that end up in `field`"""
        return [c['args'][j] for j in sorted(self.store.get(c['callee'], {}).get(field, ()))
                if j < len(c['args'])]


def r082_sites(g, roles):
    """Yield (function, kind, verdict, text, detail) for every R08.2 obligation in g.

    kind 'guarded-alloc' (a) or 'raii-catch' / 'raii-dtor' (b); verdict True/False."""
    out = []
    for m, f in g.fn.items():
        if not (f['in_header'] or f['main']):
            continue
        # ---- (a) allocations that happen only under the guard
        for c in f['calls']:
            if not c['ce_only'] or c['how'] == 'through':
                continue
            cnt = roles.alloc_count(c)
            if cnt is None:
                continue
            if STD_ALLOC.match(c['name']):
                continue     # the primitive itself inside the allocating wrapper
            ncnt = norm(cnt)
            detail = {'function': f['name'], 'file': short_file(c['file']), 'line': c['line'],
                      'allocated_count': show(cnt), 'config': g.name}
            # where does the block go?
            holders = set()
            for a in f['assigns']:
                if a['rhs'].get('k') == 'call' and a['rhs'].get('id') == c['id'] and not exclusive(a, c):
                    holders.add(a['var'])
            ptr_sinks = []
            for d in f['calls']:
                if exclusive(d, c) or not d['ce']:
                    continue
                for arg in roles.stored_args(d, FIELD_PTR):
                    if (arg.get('k') == 'call' and arg.get('id') == c['id']) or \
                            (arg.get('k') == 'local' and arg['id'] in holders):
                        ptr_sinks.append(d)
            if not ptr_sinks:
                # a temporary block released in the same function with the same count is fine
                rel = [d for d in f['calls'] if not exclusive(d, c) and roles.dealloc_count(d) is not None]
                if rel and all(norm(roles.dealloc_count(d)) == ncnt for d in rel):
                    out.append((f, 'guarded-alloc', True,
                                'block of %s allocated under the guard is released with the same count'
                                % show(cnt), detail))
                    continue
                out.append((f, 'guarded-alloc', False,
                            'the block of %s elements allocated under std::is_constant_evaluated () '
                            'never reaches %s' % (show(cnt), FIELD_PTR), detail))
                continue
            caps = []
            for e in f['calls']:
                if exclusive(e, c) or not e['ce']:
                    continue     # a write the evaluator cannot reach does not accompany the block
                for arg in roles.stored_args(e, FIELD_CAP):
                    caps.append((e, arg))
            if not caps:
                out.append((f, 'guarded-alloc', False,
                            'the block of %s elements allocated under std::is_constant_evaluated () is '
                            'committed to %s but no write of %s accompanies it in the same function'
                            % (show(cnt), FIELD_PTR, FIELD_CAP), detail))
                continue
            bad = None
            for e, arg in caps:
                if arg.get('k') == 'local':
                    defs = [a for a in f['assigns'] if a['var'] == arg['id'] and a['ce']
                            and not exclusive(a, c) and not exclusive(a, e)]
                    if not defs:
                        bad = (e, arg, 'no assignment to `%s` can reach the capacity write' % arg['name'])
                        break
                    wrong = [a for a in defs if norm(a['rhs']) != ncnt]
                    if wrong:
                        bad = (e, arg, '`%s` is %s (line %d)' % (arg['name'], show(wrong[0]['rhs']),
                                                                wrong[0]['line']))
                        break
                elif norm(arg) != ncnt:
                    bad = (e, arg, 'capacity written is %s' % show(arg))
                    break
            if bad:
                e, arg, txt = bad
                detail = dict(detail, capacity_write_line=e['line'], capacity_written=show(arg))
                out.append((f, 'guarded-alloc', False,
                            'allocates %s elements under std::is_constant_evaluated () (line %d) but the '
                            'capacity committed with the block differs: %s (line %d)'
                            % (show(cnt), c['line'], txt, e['line']), detail))
            else:
                out.append((f, 'guarded-alloc', True,
                            'allocate (%s) under the guard -> %s, %s := %s'
                            % (show(cnt), FIELD_PTR, FIELD_CAP, show(cnt)), detail))
        # ---- (b) RAII holders: constructor initialises a pointer member from an allocation
        if f['kind'] != 'ctor':
            continue
        for s in f['stores']:
            if not s['init'] or s['rhs'].get('k') != 'call':
                continue
            site = None
            for c in f['calls']:
                if c['id'] == s['rhs'].get('id'):
                    site = c
            if site is None:
                continue
            cnt = roles.alloc_count(site)
            if cnt is None:
                continue
            ncnt = norm(cnt)
            base = {'class': f['class'], 'member': s['field'], 'allocated_count': show(cnt),
                    'file': short_file(f['file']), 'ctor_line': f['begin'], 'config': g.name}
            rel = [(d, roles.dealloc_count(d)) for d in f['calls'] if roles.dealloc_count(d) is not None]
            in_catch = [(d, k) for (d, k) in rel if d['in_catch']]
            if not in_catch:
                out.append((f, 'raii-catch', None,
                            'constructor of %s allocates into %s but has no releasing catch handler '
                            '(shape not recognised)' % (f['class'], s['field']), base))
            for d, k in rel:
                okv = norm(k) == ncnt
                out.append((f, 'raii-catch', okv,
                            '%s: constructor allocates %s and its %s releases %s'
                            % (f['class'], show(cnt), 'catch handler' if d['in_catch'] else 'body', show(k)),
                            dict(base, line=d['line'], released_count=show(k))))
            dtors = [h for h in g.fn.values() if h['kind'] == 'dtor' and h['class'] == f['class']]
            if not dtors:
                out.append((f, 'raii-dtor', None,
                            'destructor of %s not instantiated (shape not recognised)' % f['class'], base))
            for h in dtors:
                drel = [(d, roles.dealloc_count(d)) for d in h['calls'] if roles.dealloc_count(d) is not None]
                if not drel:
                    out.append((h, 'raii-dtor', False,
                                '%s: the destructor never releases the block its constructor allocates'
                                % f['class'], dict(base, line=h['begin'])))
                for d, k in drel:
                    okv = norm(k) == ncnt
                    out.append((h, 'raii-dtor', okv,
                                '%s: constructor allocates %s and the destructor releases %s'
                                % (f['class'], show(cnt), show(k)),
                                dict(base, line=d['line'], released_count=show(k))))
    return out


# ------------------------------------------------------------------------------------------------
# canary

def check_canary():
    try:
        with open(CANARY) as f:
            src = f.read()
    except OSError as e:
        raise common.AnalysisBroken('canary missing: %s' % e)
    data = run_plugin('c08_canary', src, 'c++20', ())
    g = Graph('canary')
    g.add(data)
    nc, why, own, broken = compute_nc(g)
    res = {'bad': 0, 'good': 0, 'r2bad': 0, 'r2good': 0}
    errors = []
    for m, f in g.fn.items():
        if not f['main']:
            continue
        b = f['base']
        if b.startswith('c08_bad_'):
            res['bad'] += 1
            if not nc[m]:
                errors.append('%s is not classified NC' % b)
        elif b.startswith('c08_good_'):
            res['good'] += 1
            if nc[m]:
                errors.append('%s is classified NC (%s)' % (b, origin_of(g, why, m)[1].get('what')))
    roles = Roles(g)
    verdicts = {}
    for f, kind, okv, text, detail in r082_sites(g, roles):
        for tag in (f['base'], f['class'].split('<')[0].split('::')[-1]):
            if tag.startswith('c08_r2'):
                verdicts.setdefault(tag, []).append(okv)
    for tag, vs in sorted(verdicts.items()):
        if tag.startswith('c08_r2bad_'):
            res['r2bad'] += 1
            if False not in vs:
                errors.append('%s is not reported by R08.2' % tag)
        elif tag.startswith('c08_r2good_'):
            res['r2good'] += 1
            if any(v is not True for v in vs):
                errors.append('%s is reported by R08.2' % tag)
    if res['bad'] < 3 or res['good'] < 1 or res['r2bad'] < 2 or res['r2good'] < 2:
        errors.append('canary functions not found (%s)' % res)
    if errors:
        raise common.AnalysisBroken('C08 canary: ' + '; '.join(errors))
    return res


# ------------------------------------------------------------------------------------------------
# the rule part

FLOORS = {
    # measured on the pinned tree: quick 5134 / 17 / 42 / 12, thorough 26699 / 18 / 261 / 66;
    # instance-count floors at ~90 %, guard regions at the number found today (DESIGN: 17; the
    # thorough tier's propagating literal allocator reaches an 18th, in copy_assign)
    # (well below what the pinned tree gives - 5134 / 17 / 42 / 12 quick - so that a refactoring of the
    # header that removes a helper or merges two guarded regions is not taken for a broken analysis)
    'quick': {'instances': 3500, 'guards': 12, 'alloc_sites': 28, 'raii': 8},
    'thorough': {'instances': 18000, 'guards': 12, 'alloc_sites': 170, 'raii': 45},
}


def collect(ck, tier):
    canary = check_canary()
    ck.extra['c08_canary'] = canary
    ck.note('C08 canary: %(bad)d wrong / %(good)d right R08.1 functions and %(r2bad)d wrong / '
            '%(r2good)d right R08.2 shapes classified as expected' % canary)
    readme_ops = readme_operations()

    confs = configurations(tier)
    jobs = []
    for cname, std, flags, cells in confs:
        for (T, N, M, alloc) in cells:
            jobs.append((cname, std, flags, T, N, M, alloc))

    def one(job):
        cname, std, flags, T, N, M, alloc = job
        name = 'c08probe %s N=%d M=%d %s' % (T, N, M, alloc % 'T')
        return job, run_plugin(name, probe_source(T, N, M, alloc), std, flags)

    results = common.pmap(one, jobs)
    graphs = {}
    for job, data in results:
        cname = job[0]
        ck.unit('%s:%s,%d,%d,%s' % (cname, job[3], job[4], job[5], job[6] % 'T'))
        graphs.setdefault(cname, Graph(cname)).add(data)

    total_instances = 0
    guard_lines = set()
    guard_shapes = {}
    covered_ops = {}
    alloc_sites = 0
    raii = 0
    groups = {}          # violation key -> {'entries', 'instances': [...], 'example'}
    for cname in sorted(graphs):
        g = graphs[cname]
        nc, why, own, broken = compute_nc(g)
        roots = roots_of(g)
        if not roots:
            raise common.AnalysisBroken('no public entry point found in configuration ' + cname)
        parent = reach(g, roots)
        for f, n in broken:
            if f['mangled'] in parent:
                raise common.AnalysisBroken('indirect call in %s (%s:%d): callee cannot be resolved'
                                            % (f['name'], short_file(n['file']), n['line']))
        # README coverage
        for scope, name in readme_ops:
            for r in roots:
                mt = root_matches(g.fn[r], scope, name)
                if mt is None:
                    covered_ops.setdefault((scope, name), set()).add('(not a function)')
                elif mt:
                    covered_ops.setdefault((scope, name), set()).add(r)
        # guards
        for f in g.header_fns():
            for x in f['guards']:
                guard_lines.add((short_file(x['file']), x['line']))
                guard_shapes[x['shape']] = guard_shapes.get(x['shape'], 0) + 1
        # R08.1 obligations
        for m in parent:
            f = g.fn[m]
            total_instances += 1
            if not nc[m]:
                ck.ok('R08.1', sample={'function': f['name'], 'config': cname,
                                       'guards': len(f['guards']),
                                       'non_constant_constructs_unreachable_under_guard':
                                           ['%s@%d' % (n['what'], n['line']) for n in f['nc'] if not n['ce']],
                                       'verdict': 'no non-constant construct and no NC callee reachable '
                                                  'when is_constant_evaluated () is true'}
                      if (f['guards'] or len(ck.samples) < 1) else None)
                continue
            down, cons = origin_of(g, why, m)
            o = g.fn[down[-1]]
            key = {'function': o['base'], 'construct': cons['what'] if cons['kind'] in ('libc', 'nonconstexpr-call')
                   else cons['kind']}
            gk = json.dumps(key, sort_keys=True)
            grp = groups.setdefault(gk, {'key': key, 'entries': set(), 'items': [], 'origin': o, 'cons': cons})
            up = chain_to(parent, m)
            grp['entries'].add(entry_label(g.fn[up[0]]))
            grp['items'].append({
                'config': cname, 'function': f['name'],
                'public_entry': g.fn[up[0]]['name'],
                'driver': sorted(roots.get(up[0], ())),
                'chain': [g.fn[x]['name'] for x in up] + [g.fn[x]['name'] for x in down[1:]],
                'offending_function': o['name'], 'construct': cons['what'],
                'file': short_file(cons.get('file', '')), 'line': cons.get('line'),
            })
        # R08.2 obligations
        roles = Roles(g)
        if not any(FIELD_PTR in s for s in roles.store.values()) or \
                not any(FIELD_CAP in s for s in roles.store.values()):
            raise common.AnalysisBroken('no function writes %s / %s in configuration %s (anchor vanished)'
                                        % (FIELD_PTR, FIELD_CAP, cname))
        if not roles.alloc or not roles.dealloc:
            raise common.AnalysisBroken('no allocate/deallocate role found in configuration ' + cname)
        classes = set()
        for f, kind, okv, text, detail in r082_sites(g, roles):
            if not f['in_header']:
                continue
            if kind == 'guarded-alloc':
                alloc_sites += 1
            else:
                classes.add(detail['class'])
            if okv is None:
                raise common.AnalysisBroken('R08.2 %s (%s)' % (text, cname))
            if okv:
                ck.ok('R08.2', sample={'function': f['name'], 'config': cname, 'site': kind, 'verdict': text,
                                       'line': detail.get('line')})
            else:
                ck.violation('R08.2', {'function': f['base'], 'site': kind},
                             'R08.2 %s: %s — %s' % (common.HEADER_REL, f['name'], text), detail)
        raii += len(classes)

    for gk, grp in sorted(groups.items()):
        o, cons = grp['origin'], grp['cons']
        ents = sorted(grp['entries'])
        ex = min(grp['items'], key=lambda it: len(it['chain']))
        msg = ('R08.1 %s: %s `%s` in %s (line %s) is reachable when std::is_constant_evaluated () is '
               'true; %d function instance(s) become non-constant; public entries affected: %s; '
               'e.g. %s'
               % (common.HEADER_REL, cons['kind'], cons['what'], o['name'], cons.get('line'),
                  len(grp['items']), ', '.join(ents[:14]) + (' …' if len(ents) > 14 else ''),
                  ' -> '.join(ex['chain'])))
        for it in grp['items']:
            ck.violation('R08.1', grp['key'], msg, it)

    missing = [('%s %s' % o) for o in readme_ops if o not in covered_ops]
    if missing:
        raise common.AnalysisBroken('README operations without a public entry in the probe corpus: '
                                    + ', '.join(missing))
    fl = FLOORS[tier]
    ck.floor('C08 function instances analysed', total_instances, fl['instances'])
    ck.floor('C08 guard regions (distinct source sites)', len(guard_lines), fl['guards'])
    ck.floor('C08 guarded allocation sites', alloc_sites, fl['alloc_sites'])
    ck.floor('C08 RAII holder class instances', raii, fl['raii'])
    ck.floor('C08 README operations with a public entry', len(covered_ops), len(readme_ops))
    ck.extra['c08'] = {
        'function_instances_reachable': total_instances,
        'function_instances_emitted': sum(len(g.header_fns()) for g in graphs.values()),
        'guard_regions': sorted('%s:%d' % x for x in guard_lines),
        'guard_shapes': guard_shapes,
        'guarded_allocation_sites': alloc_sites,
        'raii_holder_instances': raii,
        'readme_operations': len(readme_ops),
        'configurations': {c: len([1 for j in jobs if j[0] == c]) for c in graphs},
    }
    ck.assumptions += [
        'C08: std:: functions are leaves judged by their constexpr specifier (libstdc++ 12 as installed); '
        'header functions reached through them (iterator operators, comparison lambdas) are joined to '
        'the caller',
        'C08: analysed with NDEBUG as in the pinned build; assert failure arms, operands of throw and '
        'bodies of [[noreturn]] functions are failure arms and exempt',
        'C08: scope is literal element types with std::allocator (plus, in the thorough tier, two literal '
        'allocators delegating to std::allocator); equality of values between evaluator and machine is '
        'not decided',
    ]


def flavour_laws(ck, tier):
    """R08.3: the code that runs under constant evaluation obeys the same operation laws.

    The probe corpus is compiled to IR once more as C++2b WITHOUT the -U__cpp_if_consteval that the
    other checks add: clang 14 then resolves libstdc++ 12's `if consteval` implementation of
    std::is_constant_evaluated () to *true* when it emits code (a toolchain quirk, see DESIGN 10.2), so
    the IR contains exactly the arms that the constant evaluator takes - heap_temporary instead of
    stack_temporary, element-wise std::move / std::move_backward / std::fill instead of memmove /
    memcpy, the heap block standing in for the inline buffer.  Nothing is evaluated: the operation
    laws of C01 (size, returned position, element placement, copy direction) are decided on that IR
    exactly as on the run-time IR; both flavours meeting the same specification is what makes their
    results agree."""
    from .. import corpus, irrules
    C = corpus.Cfg
    fl = ('SVP_CONSTANT_EVALUATION_FLAVOUR',)
    cfgs = [C('NM', 2, 4, 'std', std='c++2b', defines=fl), C('int', 2, 4, 'std', std='c++2b', defines=fl)]
    if tier == 'thorough':
        cfgs += [C('NM', 0, 2, 'std', std='c++2b', defines=fl), C('TM', 4, 2, 'std', std='c++2b', defines=fl),
                 C('int', 0, 3, 'std', std='c++2b', defines=fl), C('TR', 2, 4, 'std', std='c++2b', defines=fl),
                 C('MO', 2, 2, 'std', std='c++2b', defines=fl), C('CO', 2, 2, 'std', std='c++2b', defines=fl)]
    res = corpus.run_over(cfgs, 'svlib.rules.ir_laws', 'analyse_tu')
    taken = 0
    for r in res:
        if not r['ok']:
            continue
        # the flavour must really contain the constant-evaluation arms: the heap temporary is one
        taken += 1 if r['res'].get('flavour_marker') else 0
        keep = []
        for x in r['res']['reports']:
            if x.rule in ('R03.7', 'R03.8'):
                continue
            x.rule = 'R08.3'
            if not x.ok:
                x.message = 'R08.3 (constant-evaluation arms) ' + x.message
            keep.append(x)
        r['res']['reports'] = keep
    irrules.aggregate(ck, res)
    ok = [r for r in res if r['ok']]
    if taken < len(ok):
        raise common.AnalysisBroken('C08 R08.3: the constant-evaluation flavour of the IR does not contain the arms guarded by '
                                    'std::is_constant_evaluated () (toolchain behaviour changed?)')
    ck.floor('path verdicts on the constant-evaluation arms (size / position / placement / direction)',
             sum(r['res']['decided'] + r['res']['placed'] + r['res']['directions'] for r in ok), 1000 if tier == 'quick' else 4000)


def run(tier):
    ck = common.Check('C08', tier, level='other')
    collect(ck, tier)
    flavour_laws(ck, tier)
    ck.assumptions += ['R08.3 relies on clang 14 + libstdc++ 12 emitting the `if consteval` arm of std::is_constant_evaluated () in '
                       '-std=c++2b mode; the check verifies on every run that the IR it analyses contains the guarded arms']
    ck.finish(
        'R08.3 the arms taken under constant evaluation (IR flavour in which std::is_constant_evaluated () is true) obey the same '
        'operation laws as the run-time arms: size(), returned positions, where every element comes from, and the direction of '
        'overlapping copies (rules of C01) - so constant evaluation and run time agree on those results; '
        'AST-level rules over the instantiated call graph of probe TUs (C++20, C++2b): R08.1 no '
        'function reachable from the public API contains, at a point reachable when '
        'std::is_constant_evaluated () is true, a non-constant construct or a call to such a function; '
        'R08.2 every allocation made only under the guard is committed together with a capacity write '
        'of the same count, and RAII heap temporaries release the count they allocated.',
        trusted_base=['clang 14 AST (template instantiation, overload resolution)', 'plugin/svconst.cc'],
        checker_cmd='bin/svcheck C08 --tier ' + tier)
