"""C11 — arguments aliasing the container's own elements (DESIGN section 6, C11)."""
from .. import common
from . import parts


def run(tier):
    ck = common.Check('C11', tier)
    res = parts.run_parts(ck, tier, ir_parts=('ir_alias',))
    from .. import irrules
    irrules.run_canaries(ck, {'ir_alias': [('R11.1', 'canary_use_after_move')]}, silent=('canary_leak_on_throw', 'canary_ok_alloc'))
    r = res.get('ir_alias', [])
    ck.floor('functions with an lvalue element parameter walked', sum(x['res']['entry_points'] for x in r),
             150 if tier == 'quick' else 1500)
    ck.assumptions += ['an element pointer that is not a fresh allocation, a local temporary or raw storage at/after the end observed on entry may address a live element',
                       'rvalue overloads (value_type&&) are outside the property, as it states']
    ck.finish(
        'Structural whole of the property: in push_back/emplace_back/insert/emplace/resize and everything they reach, on every '
        'path (helpers expanded, unwind edges included) no call receives the lvalue element argument after a call that can move '
        'from, assign, destroy or release storage holding elements that existed on entry. "Copy first" is exactly this ordering; '
        'values read through a temporary built before the disturbance are different SSA values. Value equality itself is not observed.')
