"""C13 / R13.1 — trait grid against a conversion oracle (engine E1, type level only).

For every grid cell the header's own traits are *evaluated by the compilers* (public members of
`gch::detail::allocator_interface<std::allocator<To>>`) and compared with an oracle written here
from the standard, independent of the header:

  R13.1a  value cells (From, To):   trait says "byte-copy"  =>  the conversion From -> To is
          representation preserving (every value's object representation as From equals the
          object representation of static_cast<To>(value), same size), or, for an identity cell on
          a class type, the type is trivially copyable ([basic.types]/3).
  R13.1b  iterator cells (It over From, To): is_(uninitialized_)memcpyable_iterator<It>  =>
          It (after unwrapping std::move_iterator, which the header looks through) is a contiguous
          iterator by the standard AND the element conversion is representation preserving.
  R13.1c  iterator cells: is_contiguous_iterator<It>  =>  It is contiguous by the standard.

Only the implication is required: a trait that declines a safe cell is not a C13 matter.

Oracle ([conv.integral], [conv.bool], [conv.ptr], [conv.qual], [expr.static.cast], Itanium ABI):
  * same type: representation preserving iff trivially copyable (scalars always are);
  * integral family (integers, character types, enumerations through their underlying type):
    different size -> no; to bool (or enum : bool) from a non-bool -> no (non-zero -> true);
    from bool to a one-byte integer -> yes (false/true are stored as 0/1); otherwise same size ->
    yes (conversion is modulo 2^N on a two's complement representation);
  * anything involving a floating-point type other than identity -> no;
  * pointers: qualification conversions, T* -> cv void*, derived -> non-virtual base at offset 0
    -> yes; base at a non-zero offset, virtual base, pointer -> bool/integer, pointer to member
    base -> derived -> no.  The offset-0 facts are by construction of probes/c13_types.hpp and are
    cross-checked with a constant expression over the address of a constexpr object;
  * class types related by conversion functions / converting constructors / slicing -> no.
Platform facts the table relies on (LP64 sizes, underlying types) are asserted in the same
batteries; a failing self-check is analysis-broken, never a verdict.

Not decided here: that the code paths *selected* by these traits copy the right extent (R13.3),
and anything about values at run time.
"""
from .. import common, witness

PRELUDE = '#include "c13_types.hpp"\n'
MARK = 'C13VAL'
CXX20 = ('c++20', 'c++2b')


# ---- type table -------------------------------------------------------------------------------
class Ty:
    def __init__(self, spell, kind, size=None, signed=None, under=None, scoped=False,
                 cxx20=False, tc=True):
        self.spell = spell      # C++ spelling (namespace qualified)
        self.kind = kind        # 'bool' 'int' 'enum' 'float' 'ptr' 'mptr' 'class' 'nullptr'
        self.size = size
        self.signed = signed
        self.under = under      # Ty of the underlying type (enum)
        self.scoped = scoped
        self.cxx20 = cxx20      # spelled only from C++20 on (char8_t)
        self.tc = tc            # trivially copyable (class types: by construction)

    @property
    def label(self):
        return self.spell.replace('c13::', '').replace('std::', '')

    def boolish(self):
        return self.kind == 'bool' or (self.kind == 'enum' and self.under.kind == 'bool')

    def integral_family(self):
        return self.kind in ('bool', 'int', 'enum')


def _scalars():
    t = {}

    def add(*a, **k):
        ty = Ty(*a, **k)
        t[ty.spell] = ty
        return ty
    add('bool', 'bool', 1, False)
    add('char', 'int', 1, True)            # plain char is signed on x86-64 (self-checked)
    add('signed char', 'int', 1, True)
    add('unsigned char', 'int', 1, False)
    add('short', 'int', 2, True)
    add('unsigned short', 'int', 2, False)
    add('int', 'int', 4, True)
    add('unsigned', 'int', 4, False)
    add('long', 'int', 8, True)
    add('unsigned long', 'int', 8, False)
    add('long long', 'int', 8, True)
    add('unsigned long long', 'int', 8, False)
    add('char16_t', 'int', 2, False)
    add('char32_t', 'int', 4, False)
    add('wchar_t', 'int', 4, True)
    add('char8_t', 'int', 1, False, cxx20=True)
    for name, under, scoped in (
            ('UE_int', 'int', False), ('UE_uint', 'unsigned', False), ('UE_short', 'short', False),
            ('UE_uchar', 'unsigned char', False), ('UE_ullong', 'unsigned long long', False),
            ('UE_bool', 'bool', False), ('UE_plain', 'unsigned', False),
            ('SE_int', 'int', True), ('SE_uint', 'unsigned', True),
            ('SE_schar', 'signed char', True), ('SE_ushort', 'unsigned short', True),
            ('SE_llong', 'long long', True), ('SE_bool', 'bool', True)):
        u = t[under]
        add('c13::' + name, 'enum', u.size, u.signed, under=u, scoped=scoped)
    add('float', 'float', 4, True)
    add('double', 'float', 8, True)
    add('long double', 'float', 16, True)
    return t


SC = _scalars()


def rp_scalar(f, t):
    """Is the conversion f -> t representation preserving?  (scalar, non-pointer types)"""
    if f is t:
        return True, 'identity'
    if f.integral_family() and t.integral_family():
        if f.size != t.size:
            return False, 'different size (%d -> %d bytes): widening/narrowing conversion' % (f.size, t.size)
        if t.boolish() and not f.boolish():
            return False, '[conv.bool]: every non-zero value becomes true (byte 1)'
        if f.boolish() and not t.boolish():
            return True, 'bool is stored as 0/1 and converts to 0/1 ([conv.integral])'
        return True, 'same size; conversion is modulo 2^N on two\'s complement'
    if f.kind == 'float' or t.kind == 'float':
        return False, 'floating-point conversion changes the representation'
    return False, 'no representation-preserving conversion'


# pointer / class cells: (From, To, representation preserving?, reason, self-check expression)
def _p(x):
    return 'c13::' + x


PTR_CELLS = [
    ('int *', 'int *', True, 'identity', None),
    ('int *', 'const int *', True, '[conv.qual]', None),
    ('int *', 'const volatile int *', True, '[conv.qual]', None),
    ('const int *', 'const int *', True, 'identity', None),
    ('const int *', 'int *', True, 'no implicit conversion exists; const_cast keeps the value', None),
    ('int *', 'void *', True, '[conv.ptr]/2: same address', None),
    ('int *', 'const void *', True, '[conv.ptr]/2 + [conv.qual]', None),
    ('const int *', 'const void *', True, '[conv.ptr]/2', None),
    ('int **', 'int **', True, 'identity', None),
    ('int **', 'const int * const *', True, '[conv.qual] multi-level', None),
    ('int **', 'void *', True, '[conv.ptr]/2', None),
    ('int * const *', 'const int * const *', True, '[conv.qual] multi-level', None),
    ('c13::D *', 'c13::D *', True, 'identity', None),
    ('c13::D *', 'const c13::D *', True, '[conv.qual]', None),
    ('c13::D *', 'void *', True, '[conv.ptr]/2', None),
    ('c13::D *', 'c13::B1 *', True, 'first non-virtual base of a non-polymorphic class: offset 0',
     'c13::base_at_zero<c13::D, c13::B1> (c13::d_obj)'),
    ('c13::D *', 'const c13::B1 *', True, 'base at offset 0',
     'c13::base_at_zero<c13::D, c13::B1> (c13::d_obj)'),
    ('c13::D *', 'c13::B2 *', False, '[conv.ptr]/3: second base lives at a non-zero offset; the pointer is adjusted',
     '! c13::base_at_zero<c13::D, c13::B2> (c13::d_obj)'),
    ('c13::D *', 'const c13::B2 *', False, 'second base at a non-zero offset',
     '! c13::base_at_zero<c13::D, c13::B2> (c13::d_obj)'),
    ('c13::DD *', 'c13::D *', True, 'sole base at offset 0',
     'c13::base_at_zero<c13::DD, c13::D> (c13::dd_obj)'),
    ('c13::DD *', 'c13::B1 *', True, 'indirect base at offset 0',
     'c13::base_at_zero<c13::DD, c13::B1> (c13::dd_obj)'),
    ('c13::DD *', 'c13::B2 *', False, 'indirect base at a non-zero offset',
     '! c13::base_at_zero<c13::DD, c13::B2> (c13::dd_obj)'),
    ('c13::DE *', 'c13::EB *', True, 'empty base at offset 0',
     'c13::base_at_zero<c13::DE, c13::EB> (c13::de_obj)'),
    ('c13::DE *', 'c13::B1 *', True, 'empty-base optimisation: second base also at offset 0',
     'c13::base_at_zero<c13::DE, c13::B1> (c13::de_obj)'),
    ('c13::DP *', 'c13::B1 *', False, 'polymorphic derived class: vptr at offset 0, the first base follows it',
     '! c13::base_at_zero<c13::DP, c13::B1> (c13::dp_obj)'),
    ('c13::DV *', 'c13::VB *', False, '[conv.ptr]/3 virtual base: offset read through the vptr at run time', None),
    ('c13::DV *', 'const c13::VB *', False, 'virtual base', None),
    ('c13::B2 *', 'c13::D *', False, 'no implicit conversion; static_cast subtracts the base offset', None),
    ('c13::D **', 'c13::B2 **', False, 'no conversion', None),
    ('int *', 'bool', False, 'pointer -> bool, different size', None),
    ('int *', 'unsigned long', False, 'no implicit conversion', None),
    ('unsigned long', 'int *', False, 'no implicit conversion', None),
    ('std::nullptr_t', 'int *', False, 'null pointer conversion does not read the source representation', None),
    ('int c13::B2::*', 'int c13::D::*', False, '[conv.mem]: pointer to member of base -> derived adds the base offset', None),
    ('int c13::B1::*', 'int c13::B1::*', True, 'identity', None),
]

CLASS_CELLS = [
    ('c13::TR', 'c13::TR', True, 'identity on a trivially copyable class', 'std::is_trivially_copyable<c13::TR>::value'),
    ('c13::NT', 'c13::NT', False, 'identity on a class with user-provided copy operations', '! std::is_trivially_copyable<c13::NT>::value'),
    ('c13::NTA', 'c13::NTA', False, 'user-provided copy assignment: not trivially copyable', '! std::is_trivially_copyable<c13::NTA>::value'),
    ('c13::NTD', 'c13::NTD', False, 'user-provided destructor: not trivially copyable', '! std::is_trivially_copyable<c13::NTD>::value'),
    ('c13::TD', 'c13::TR', False, 'slicing from a base subobject (potentially overlapping)', None),
    ('c13::CONV', 'int', False, 'user conversion function', None),
    ('int', 'c13::FROMINT', False, 'user converting constructor', None),
    ('c13::PTRCONV', 'int *', False, 'user conversion function', None),
    ('c13::TR', 'int', False, 'no conversion', None),
    ('c13::UE_int', 'float', False, 'integral -> floating', None),
]

# value-cell subsets --------------------------------------------------------------------------
QUICK_SCALAR_PAIRS = [
    # same width, signedness differs / same
    ('int', 'unsigned'), ('unsigned', 'int'), ('int', 'int'), ('long', 'long long'),
    ('unsigned long', 'long'), ('short', 'unsigned short'), ('signed char', 'unsigned char'),
    ('char', 'signed char'), ('char', 'unsigned char'), ('unsigned char', 'char'),
    ('char16_t', 'unsigned short'), ('short', 'char16_t'), ('char32_t', 'int'), ('wchar_t', 'int'),
    ('unsigned', 'wchar_t'), ('char8_t', 'unsigned char'), ('char', 'char8_t'),
    # different width
    ('short', 'int'), ('int', 'short'), ('int', 'long'), ('long long', 'int'), ('char', 'int'),
    ('unsigned char', 'unsigned'), ('char16_t', 'char32_t'), ('wchar_t', 'char16_t'),
    ('unsigned', 'unsigned long long'), ('char8_t', 'char16_t'),
    # bool
    ('bool', 'bool'), ('bool', 'unsigned char'), ('bool', 'char'), ('bool', 'signed char'),
    ('unsigned char', 'bool'), ('char', 'bool'), ('signed char', 'bool'), ('int', 'bool'),
    ('bool', 'int'), ('char8_t', 'bool'), ('bool', 'char8_t'),
    # enums
    ('c13::UE_int', 'int'), ('int', 'c13::UE_int'), ('c13::UE_int', 'unsigned'),
    ('c13::UE_int', 'short'), ('c13::UE_int', 'long'), ('c13::UE_uint', 'int'),
    ('c13::UE_short', 'short'), ('c13::UE_short', 'int'), ('c13::UE_uchar', 'unsigned char'),
    ('c13::UE_uchar', 'bool'), ('c13::UE_uchar', 'int'), ('c13::UE_ullong', 'long'),
    ('c13::UE_plain', 'int'), ('c13::UE_plain', 'unsigned'), ('c13::UE_plain', 'short'),
    ('c13::UE_bool', 'bool'), ('c13::UE_bool', 'unsigned char'), ('unsigned char', 'c13::UE_bool'),
    ('bool', 'c13::UE_bool'), ('c13::UE_bool', 'int'), ('c13::UE_int', 'c13::UE_int'),
    ('c13::UE_int', 'c13::UE_uint'), ('c13::UE_int', 'c13::SE_int'),
    ('c13::SE_int', 'int'), ('int', 'c13::SE_int'), ('c13::SE_int', 'c13::SE_int'),
    ('c13::SE_int', 'c13::SE_uint'), ('c13::SE_schar', 'signed char'), ('c13::SE_schar', 'bool'),
    ('c13::SE_ushort', 'short'), ('c13::SE_llong', 'long'), ('c13::SE_llong', 'int'),
    ('c13::SE_bool', 'bool'), ('c13::SE_bool', 'unsigned char'), ('unsigned char', 'c13::SE_bool'),
    # floating point
    ('float', 'float'), ('double', 'double'), ('float', 'double'), ('double', 'float'),
    ('int', 'float'), ('float', 'int'), ('unsigned', 'float'), ('long long', 'double'),
    ('double', 'long long'), ('double', 'long double'), ('bool', 'float'), ('c13::UE_int', 'float'),
    ('float', 'c13::SE_int'),
]

VALUE_FORMS = [('F', '{F}'), ('F&', '{F} &'), ('const F&', '{F} const &'), ('F&&', '{F} &&')]
SUB_FORMS = [('F', '{F}'), ('const F', '{F} const')]


def value_cells(tier):
    """Yield (from_spell, to_spell, rp, reason, selfcheck, cxx20_only)."""
    seen = set()
    if tier == 'thorough':
        pairs = [(f, t) for f in SC for t in SC]
    else:
        pairs = QUICK_SCALAR_PAIRS
    for f, t in pairs:
        if (f, t) in seen:
            continue
        seen.add((f, t))
        F, T = SC[f], SC[t]
        ok, why = rp_scalar(F, T)
        yield (f, t, ok, why, None, F.cxx20 or T.cxx20)
    for f, t, ok, why, chk in PTR_CELLS + CLASS_CELLS:
        if (f, t) in seen:
            continue
        seen.add((f, t))
        yield (f, t, ok, why, chk, False)


def lab(s):
    return s.replace('c13::', '').replace('std::', '').replace(' *', '*').replace('* ', '*')


# ---- iterator cells ---------------------------------------------------------------------------
# kind -> (C++ spelling with {E}, contiguous by the standard?, looks through to kind (move_iterator))
ITER_KINDS = [
    ('ptr', '{E} *', True),
    ('const_ptr', '{E} const *', True),
    ('small_vector::iterator', 'gch::small_vector<{E}, 4>::iterator', True),
    ('small_vector::const_iterator', 'gch::small_vector<{E}, 4>::const_iterator', True),
    ('std::vector::iterator', 'std::vector<{E}>::iterator', True),
    ('std::vector::const_iterator', 'std::vector<{E}>::const_iterator', True),
    ('std::array::iterator', 'std::array<{E}, 4>::iterator', True),
    ('std::array::const_iterator', 'std::array<{E}, 4>::const_iterator', True),
    ('std::deque::iterator', 'std::deque<{E}>::iterator', False),
    ('std::list::iterator', 'std::list<{E}>::iterator', False),
    ('std::list::const_iterator', 'std::list<{E}>::const_iterator', False),
    ('reverse_iterator<ptr>', 'std::reverse_iterator<{E} *>', False),
    ('reverse_iterator<const_ptr>', 'std::reverse_iterator<{E} const *>', False),
    ('reverse_iterator<small_vector::iterator>',
     'std::reverse_iterator<gch::small_vector<{E}, 4>::iterator>', False),
    ('reverse_iterator<std::vector::iterator>', 'std::reverse_iterator<std::vector<{E}>::iterator>', False),
    ('move_iterator<ptr>', 'std::move_iterator<{E} *>', True),
    ('move_iterator<small_vector::iterator>',
     'std::move_iterator<gch::small_vector<{E}, 4>::iterator>', True),
    ('move_iterator<std::vector::iterator>', 'std::move_iterator<std::vector<{E}>::iterator>', True),
    ('move_iterator<std::list::iterator>', 'std::move_iterator<std::list<{E}>::iterator>', False),
    ('move_iterator<std::deque::iterator>', 'std::move_iterator<std::deque<{E}>::iterator>', False),
    ('move_iterator<reverse_iterator<ptr>>',
     'std::move_iterator<std::reverse_iterator<{E} *> >', False),
    ('reverse_iterator<move_iterator<ptr>>',
     'std::reverse_iterator<std::move_iterator<{E} *> >', False),
]
# move_iterator itself is not a contiguous iterator ([move.iterator]: iterator_concept is at most
# random_access); "True" above for move_iterator kinds is the contiguity of the *base*, which is
# what the memcpyable-iterator traits look through to.  R13.1c uses is_move below.

SPECIAL_ITERS = [
    # (kind label, spelling, element, To, contiguous, rp)
    ('std::vector<bool>::iterator', 'std::vector<bool>::iterator', 'bool', 'bool', False, False),
    ('std::vector<bool>::iterator', 'std::vector<bool>::iterator', 'bool', 'unsigned char', False, False),
    ('std::string::iterator', 'std::string::iterator', 'char', 'char', True, True),
    ('std::string::const_iterator', 'std::string::const_iterator', 'char', 'unsigned char', True, True),
    ('std::string::iterator', 'std::string::iterator', 'char', 'int', True, False),
    ('std::u16string::iterator', 'std::u16string::iterator', 'char16_t', 'short', True, True),
    ('reverse_iterator<std::string::iterator>', 'std::reverse_iterator<std::string::iterator>', 'char', 'char', False, True),
]

ITER_ELEMS_QUICK = [
    ('int', 'int'), ('int', 'unsigned'), ('short', 'int'), ('unsigned char', 'bool'),
    ('bool', 'unsigned char'), ('c13::UE_int', 'int'), ('int', 'float'),
    ('c13::D *', 'c13::B1 *'), ('c13::D *', 'c13::B2 *'), ('c13::D *', 'const c13::B2 *'),
    ('c13::DV *', 'c13::VB *'), ('c13::DP *', 'c13::B1 *'), ('int *', 'const int *'),
    ('int *', 'void *'), ('c13::TR', 'c13::TR'), ('c13::NT', 'c13::NT'),
]
ITER_ELEMS_MORE = [
    ('unsigned', 'int'), ('long', 'long long'), ('int', 'long'), ('char', 'unsigned char'),
    ('int', 'bool'), ('c13::SE_int', 'int'), ('c13::UE_bool', 'bool'), ('c13::UE_uchar', 'bool'),
    ('float', 'float'), ('float', 'double'), ('double', 'long long'),
    ('c13::DD *', 'c13::B2 *'), ('c13::DD *', 'c13::B1 *'), ('c13::DE *', 'c13::B1 *'),
    ('c13::D *', 'void *'), ('int **', 'const int * const *'), ('c13::TD', 'c13::TR'),
    ('c13::NTA', 'c13::NTA'), ('c13::CONV', 'int'),
]


def _cell_rp():
    table = {}
    for f, t, ok, why, chk, _ in value_cells('thorough'):
        table[(f, t)] = (ok, why)
    return table


def iterator_cells(tier):
    """Yield (kind label, iterator spelling, From, To, base contiguous?, is move wrapper?, rp, why)."""
    rp = _cell_rp()
    elems = ITER_ELEMS_QUICK + (ITER_ELEMS_MORE if tier == 'thorough' else [])
    for f, t in elems:
        ok, why = rp[(f, t)]
        for kind, spell, contig in ITER_KINDS:
            yield (kind, spell.replace('{E}', f), f, t, contig, kind.startswith('move_iterator'),
                   ok, why)
    for kind, spell, f, t, contig, ok in SPECIAL_ITERS:
        yield (kind, spell, f, t, contig, False, ok, 'see value cell')


# ---- witness generation -----------------------------------------------------------------------
def make_witnesses(tier):
    ws = []
    n = [0]

    def val(tag, expr, info):
        n[0] += 1
        v = 'c13_v%d' % n[0]
        ws.append(witness.W(tag, 'constexpr bool %s = %s;\nstatic_assert (%s, "%s");' % (v, expr, v, MARK),
                            expect='unknown', info=info))

    def check(tag, expr, info):
        ws.append(witness.W(tag, 'static_assert (%s, "C13ORACLE");' % expr, expect='ok', info=info))

    # platform facts behind the oracle
    for s, ty in SC.items():
        inf = {'class': 'oracle', 'cxx20': ty.cxx20, 'group': 'oracle'}
        if ty.kind == 'enum':
            check('oracle:underlying:' + ty.label,
                  'std::is_same<std::underlying_type<%s>::type, %s>::value && std::is_enum<%s>::value'
                  % (s, ty.under.spell, s), inf)
        elif ty.kind == 'float':
            check('oracle:float:' + ty.label,
                  'sizeof (%s) == %d && std::is_floating_point<%s>::value' % (s, ty.size, s), inf)
        else:
            check('oracle:integral:' + ty.label,
                  'sizeof (%s) == %d && std::is_integral<%s>::value && std::is_signed<%s>::value == %s'
                  % (s, ty.size, s, s, 'true' if ty.signed else 'false'), inf)
    vcells = list(value_cells(tier))
    for f, t, ok, why, chk, cxx20 in vcells:
        cell = '%s->%s' % (lab(f), lab(t))
        base = {'class': 'value', 'cell': cell, 'elements': cell, 'from': f, 'to': t, 'rp': ok,
                'why': why, 'cxx20': cxx20, 'group': 'v:' + t}
        if chk:
            check('oracle:cell:' + cell, chk, {'class': 'oracle', 'cxx20': cxx20, 'group': 'v:' + t})
        ai = 'c13::AI<%s>' % t
        for fl, fs in VALUE_FORMS:
            q = fs.replace('{F}', f)
            val('val|%s|is_memcpyable|%s' % (cell, fl), '%s::is_memcpyable<%s>::value' % (ai, q),
                dict(base, trait='is_memcpyable', form=fl))
            val('val|%s|is_uninitialized_memcpyable|%s' % (cell, fl),
                '%s::is_uninitialized_memcpyable<%s, %s>::value' % (ai, t, q),
                dict(base, trait='is_uninitialized_memcpyable', form=fl))
        for fl, fs in SUB_FORMS:
            q = fs.replace('{F}', f)
            val('val|%s|is_memcpyable_integral|%s' % (cell, fl),
                '%s::is_memcpyable_integral<%s, %s>::value' % (ai, q, t),
                dict(base, trait='is_memcpyable_integral', form=fl))
            val('val|%s|is_convertible_pointer|%s' % (cell, fl),
                '%s::is_convertible_pointer<%s, %s>::value' % (ai, q, t),
                dict(base, trait='is_convertible_pointer', form=fl))
    icells = list(iterator_cells(tier))
    for kind, spell, f, t, contig, is_move, ok, why in icells:
        elem = '%s->%s' % (lab(f), lab(t))
        cell = '%s over %s -> %s' % (kind, lab(f), lab(t))
        base = {'class': 'iterator', 'cell': cell, 'iterator': kind, 'elements': elem, 'from': f,
                'to': t, 'rp': ok, 'why': why, 'base_contiguous': contig, 'is_move': is_move,
                'cxx20': False, 'group': 'i:' + f}
        ai = 'c13::AI<%s>' % t
        val('it|%s|is_contiguous_iterator' % cell, '%s::is_contiguous_iterator<%s>::value' % (ai, spell),
            dict(base, trait='is_contiguous_iterator'))
        val('it|%s|is_memcpyable_iterator' % cell, '%s::is_memcpyable_iterator<%s>::value' % (ai, spell),
            dict(base, trait='is_memcpyable_iterator'))
        val('it|%s|is_uninitialized_memcpyable_iterator' % cell,
            '%s::is_uninitialized_memcpyable_iterator<%s>::value' % (ai, spell),
            dict(base, trait='is_uninitialized_memcpyable_iterator'))
    return ws, len(vcells), len(icells)


def trait_value(status, msg, tag, cfg):
    if status == 'ok':
        return True
    if MARK in msg:
        return False
    raise common.AnalysisBroken('R13.1: trait of witness %s could not be evaluated under %s/%s: %s'
                                % (tag, cfg[0], cfg[1], msg[:300]))


def grouped_jobs(name, prelude, ws, stds, nshards, extra_flags=(), per_config_filter=None,
                 compilers=('g++', 'clang++'), battery=None):
    """Jobs (zero-argument callables, each returning {(compiler, std): {tag: (status, msg)}}) for a
    battery sharded so that witnesses with the same info['group'] share a TU (class-template
    instantiations such as small_vector<E, 4> or allocator_interface<To> are the dominant cost, so
    they should be paid once); every (shard, compiler, std) is one job, newest standard first
    (those TUs take longest)."""
    groups = {}
    for w in ws:
        groups.setdefault(w.info.get('group', ''), []).append(w)
    shards = [[] for _ in range(max(1, nshards))]
    for g in sorted(groups, key=lambda g: (-len(groups[g]), g)):
        min(shards, key=len).extend(groups[g])

    def job(k, part, comp, std):
        return lambda: (battery or witness.compile_battery)(
            '%s-g%d' % (name, k), prelude, part, compilers=(comp,), stds=(std,),
            extra_flags=extra_flags, shards=1, per_config_filter=per_config_filter)
    return [job(k, part, comp, std) for std in reversed(list(stds)) for comp in compilers
            for k, part in enumerate(shards) if part]


def merge_tables(results):
    res = {}
    for r in results:
        for cfg, table in r.items():
            res.setdefault(cfg, {}).update(table)
    return res


def run_grouped(*a, **k):
    return merge_tables(common.pmap(lambda j: j(), grouped_jobs(*a, **k)))


def collect(ck, tier):
    stds = ('c++17', 'c++20') if tier == 'quick' else tuple(common.STDS)
    ws, nval, nit = make_witnesses(tier)
    res = run_grouped(
        'c13traits-' + tier, PRELUDE, ws, stds, (8 if tier == 'quick' else 2 * common.JOBS),
        extra_flags=('-fno-access-control',),
        per_config_filter=lambda w, comp, std: (not w.info.get('cxx20')) or std in CXX20)
    by_tag = {w.tag: w for w in ws}
    values = {}    # tag -> {cfg: bool}
    for cfg, r in sorted(res.items()):
        ck.unit('c13traits/%s/%s' % cfg)
        for tag, (status, msg) in r.items():
            w = by_tag[tag]
            if w.info['class'] == 'oracle':
                if status != 'ok':
                    raise common.AnalysisBroken(
                        'R13.1: oracle self-check %s fails under %s/%s (platform/layout assumption '
                        'of the conversion oracle does not hold): %s' % (tag, cfg[0], cfg[1], msg[:300]))
                continue
            values.setdefault(tag, {})[cfg] = trait_value(status, msg, tag, cfg)
    admitted_safe = 0
    declined_safe = 0
    for tag in sorted(values):
        w = by_tag[tag]
        i = w.info
        vals = values[tag]
        said_yes = sorted('%s/%s' % c for c, v in vals.items() if v)
        trait = i['trait']
        if i['class'] == 'value':
            rule, allowed, why = 'R13.1a', i['rp'], i['why']
            what = 'conversion %s -> %s is not representation preserving (%s)' % (lab(i['from']), lab(i['to']), why)
        elif trait == 'is_contiguous_iterator':
            rule = 'R13.1c'
            allowed = i['base_contiguous'] and not i['is_move']
            why = 'contiguous by the standard' if allowed else 'not a contiguous iterator by the standard'
            what = '%s is %s' % (i['iterator'], why)
        else:
            rule = 'R13.1b'
            allowed = i['base_contiguous'] and i['rp']
            why = ('base iterator %scontiguous; element conversion %s: %s'
                   % ('' if i['base_contiguous'] else 'not ', 'representation preserving' if i['rp'] else 'NOT representation preserving', i['why']))
            what = why
        sample = {'cell': i['cell'], 'trait': trait, 'form': i.get('form'),
                  'oracle_allows_byte_copy': allowed, 'oracle_reason': why,
                  'trait_true_under': said_yes, 'configs': len(vals)}
        if said_yes and not allowed:
            ck.violation(
                rule, {'cell': i['cell'], 'trait': trait, 'elements': i['elements']},
                '%s: gch::detail::allocator_interface<std::allocator<%s>>::%s admits a byte copy for '
                'cell [%s]%s but %s; the memcpy/memmove fast paths selected by this trait do not '
                'store static_cast<%s>(source) for every element'
                % (common.HEADER_REL, lab(i['to']), trait, i['cell'],
                   (' (source form %s)' % i['form']) if i.get('form') else '', what, lab(i['to'])),
                dict(sample, witness=tag, code=w.code, file=common.HEADER_REL,
                     construct='allocator_interface::' + trait))
        else:
            ck.ok(rule, sample=sample)
            if allowed:
                if said_yes:
                    admitted_safe += 1
                else:
                    declined_safe += 1
    ck.floor('R13.1 value cells', nval, 120 if tier == 'quick' else 1000)
    ck.floor('R13.1 iterator cells', nit, 300 if tier == 'quick' else 700)
    # the implication is vacuous if the traits never say yes: require that some safe cells are admitted
    ck.floor('R13.1 safe cells admitted by a trait (non-vacuity)', admitted_safe, 100)
    ck.extra['R13.1'] = {'value_cells': nval, 'iterator_cells': nit, 'trait_evaluations': len(values),
                         'safe_admitted': admitted_safe, 'safe_declined': declined_safe,
                         'configs': sorted('%s/%s' % c for c in res)}
    ck.note('R13.1: %d value cells, %d iterator cells, %d trait evaluations per configuration; '
            '%d byte-copy-safe obligations are admitted by the header, %d safe ones are declined '
            '(declining is never reported)' % (nval, nit, len(values), admitted_safe, declined_safe))
    ck.assumptions += [
        'two\'s complement integers; bool stored as 0/1; LP64 sizes and Itanium C++ ABI base layout '
        '(each asserted by an oracle self-check in the same battery)',
        'R13.1 oracle for std::move_iterator: the header looks through it, so the obligation is on the base iterator',
    ]
