"""C18 — noexcept and type-trait contract is as documented and truthful (DESIGN section 6, C18)."""
from .. import common, corpus, irrules


def run(tier):
    ck = common.Check('C18', tier)
    try:
        from . import c18_grid
        c18_grid.collect(ck, tier)
    except ImportError:
        ck.note('R18.1 grid part not available')
    cfgs = list(corpus.corpus(tier))
    # the flavour with a nothrow move constructor but a throwing move assignment / swap: a helper whose
    # noexcept looks at one of the two only is wrong exactly for it
    C = corpus.Cfg
    cfgs += [C('NA', 2, 4, 'std'), C('NA', 2, 2, 6), C('NA', 0, 2, 0)]
    if tier == 'thorough':
        cfgs += [C('NA', 4, 2, 14), C('NA', 2, 4, 'std', std='c++11'), C('NA', 2, 4, 5, std='c++20'), C('NA', 3, 3, 8)]
    res = corpus.run_over(cfgs, 'svlib.rules.ir_noexcept', 'analyse_tu')
    for r in res:
        if r['ok']:
            r['res']['reports'] = [x for x in r['res']['reports'] if x.rule.startswith('R18')]
    irrules.aggregate(ck, res)
    res = [r for r in res if r['ok']]
    irrules.run_canaries(ck, {'ir_noexcept': [('R18.2', 'canary_noexcept_alloc')]})
    ck.floor('invoke edges into terminate pads examined', sum(r['res']['terminate_edges'] for r in res),
             1000 if tier == 'quick' else 10000)
    ck.assumptions += ['exception sources are the probe types\' undefined operations (element special members, '
                       'allocator allocate, iterator operations, generator) and the header\'s own throw sites',
                       'Allocator requirements: allocator copy/move/==/deallocate do not throw']
    ck.finish(
        'R18.1: the noexcept clauses extracted from the README brief equal noexcept(actual call) over the grid of element '
        'traits x inline capacity x source capacity x allocator traits (static_asserts, two compilers); iterator and nested '
        'type facts likewise. R18.2/R18.3: in LLVM IR of every instantiated gch:: function, no invoke that unwinds into a '
        'terminate pad (clang\'s lowering of noexcept) has a callee from which an element / allocator / iterator / generator '
        '/ length_error exception can escape (whole-module may-throw fixpoint seeded by the probe types\' undefined operations).')
