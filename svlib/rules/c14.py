"""C14 — geometric growth (DESIGN section 6, C14)."""
from .. import common
from . import parts


def run(tier):
    ck = common.Check('C14', tier)
    res = parts.run_parts(ck, tier, ir_parts=('ir_growth',), rule_filter=lambda p, x: x.rule.startswith('R14'))
    from .. import irrules
    irrules.run_canaries(ck, {'ir_growth': [('R14.1', 'canary_exact_growth')]})
    r = res.get('ir_growth', [])
    ck.floor('complete paths judged', sum(x['res']['judged_paths'] for x in r), 8000 if tier == 'quick' else 80000)
    ck.finish(
        'On every complete reallocating path of the growing operations (push_back, emplace_back, insert, emplace, append, resize, '
        'reserve, assign; unequal-allocator assignment exempt), the capacity committed together with the new buffer is, as a term: '
        '2 x the capacity read on entry, or a required size for which the path holds 2 x capacity < required, or max_size() '
        '(saturation); and it covers the committed size (equal, guarded, or max_size with the length guard). Hence new capacity >= '
        'max(required, 2 x old) up to saturation, which is the geometric law; O(log n) allocations and O(n) relocations follow by '
        'the textbook argument together with C10 (at most one allocation per path) and are not measured.')
