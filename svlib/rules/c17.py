"""C17 — observable behaviour does not depend on the selected standard (DESIGN section 6, C17).

Replaying histories per standard is dynamic and not attempted.  Decided necessary conditions:

R17.3  the probe corpus (every public operation, all element flavours) is well-formed under each
       of -std=c++11/14/17/20/2b with clang++ and g++, and with -DGCH_DISABLE_CONCEPTS.
R17.1' sibling agreement across standards: a function compiled from the header that exists (same
       demangled signature after removing SFINAE/constraint spelling) under two standards has the
       same static fingerprint under both - the set of element/allocator/iterator primitives it
       can reach, the set of exception kinds that can escape it, whether it writes the container
       words, whether it is non-throwing.  A behaviour-selecting `#if` arm that changes what a
       function does under one standard changes its fingerprint.
R17.1  every path rule of the other properties runs on the c++11/14/20/2b members of the corpus
       as well (thorough tier of each check); this check re-runs a compact selection of them
       (allocation pairing, paired update, bounds, growth) on one configuration per standard.
"""
import re

from .. import common, corpus, irrules, witness
from ..irrules import Report, base_name

STDS = ['c++11', 'c++14', 'c++17', 'c++20', 'c++2b']


def norm_name(p):
    q = p
    q = q.replace(', (void*)0', '').replace(', nullptr', '').replace(', (void*)0>', '>')
    q = re.sub(r', (true|false)>', '>', q)
    q = re.sub(r'<\(void\*\)0>', '<>', q)
    q = q.replace('c++2b', '')
    return q


def fingerprint_tu(eng, cfg):
    orc = eng.oracle
    out = {}
    for f in irrules.gch_roots(eng):
        key = norm_name(f.pretty)
        eff = sorted(k for k in orc.effects.get(f.name, ()) if not k.startswith('__CXA') and k not in ('TERMINATE',))
        th = sorted(orc.throws.get(f.name, ()))
        out[key] = (tuple(eff), tuple(th), bool(orc.writes_fields.get(f.name)), bool(f.nounwind))
    return {'reports': [], 'fp': out, 'functions': len(out)}


def analyse_tu(eng, cfg):
    return fingerprint_tu(eng, cfg)


def run(tier):
    ck = common.Check('C17', tier)
    C = corpus.Cfg
    base = [('NM', 2, 4, 0), ('TM', 4, 2, 'std'), ('TR', 2, 4, 'std')]
    if tier == 'thorough':
        base += [('MO', 0, 2, 7), ('CO', 2, 2, 5), ('int', 0, 3, 8), ('TM', 2, 4, 3), ('MOT', 2, 4, 'std')]
    else:
        base += [('MOT', 2, 4, 'std')]
    groups = []
    for (e, n, m, a) in base:
        cfgs = [C(e, n, m, a, std=s) for s in STDS]
        cfgs.append(C(e, n, m, a, std='c++20', defines=('GCH_DISABLE_CONCEPTS',)))
        groups.append(((e, n, m, a), cfgs))
    allcfgs = [c for g, cs in groups for c in cs]
    # R17.3 with clang (the IR build) and R17.1' fingerprints
    res = corpus.run_over(allcfgs, 'svlib.rules.c17', 'analyse_tu')
    byname = {}
    for r in res:
        if not r['ok']:
            ck.violation('R17.3', {'unit': r['cfg'].rsplit('.c++', 1)[0], 'defect': 'probe corpus ill-formed under one standard'},
                         'R17.3: the probe corpus member %s does not compile with clang++ although it does under other '
                         'standards: %s' % (r['cfg'], r['broken'][-700:].replace('\n', ' ')), {'unit': r['cfg']})
        else:
            ck.ok('R17.3', sample={'unit': r['cfg'], 'compiler': 'clang++'})
            ck.unit(r['cfg'])
            byname[r['cfg']] = r['res']['fp']
    # g++ -fsyntax-only on the same TUs
    def gxx(cfg):
        flags = [x for x in cfg.flags() if x != '-U__cpp_if_consteval']
        out, rc, err = common.cached_tool(('c17gxx', cfg.name, ' '.join(flags)),
                                          lambda s, o: [common.GXX, '-fsyntax-only', '-w'] + flags + [s], '.out',
                                          src_text=cfg.source())
        return cfg, rc, err
    for cfg, rc, err in common.pmap(gxx, allcfgs):
        if rc != 0:
            ck.violation('R17.3', {'unit': cfg.name.rsplit('.c++', 1)[0], 'defect': 'probe corpus ill-formed under one standard (g++)'},
                         'R17.3: the probe corpus member %s does not compile with g++: %s'
                         % (cfg.name, err[-600:].replace('\n', ' ')), {'unit': cfg.name})
        else:
            ck.ok('R17.3', sample={'unit': cfg.name, 'compiler': 'g++'})
    # R17.1': pairwise agreement with the c++17 member of each group
    ncmp = 0
    for (g, cfgs) in groups:
        ref = byname.get(cfgs[2].name)
        if ref is None:
            continue
        for c in cfgs:
            fp = byname.get(c.name)
            if fp is None or c is cfgs[2]:
                continue
            common_keys = set(ref) & set(fp)
            for k in sorted(common_keys):
                ncmp += 1
                if ref[k] == fp[k]:
                    ck.ok('R17.1', sample={'function': base_name(k), 'standards': [cfgs[2].std, c.std], 'config': c.name})
                else:
                    what = []
                    for i, nm in enumerate(('reachable primitives', 'escaping exception kinds', 'writes container words', 'non-throwing')):
                        if ref[k][i] != fp[k][i]:
                            what.append('%s: %s vs %s' % (nm, ref[k][i], fp[k][i]))
                    ck.violation('R17.1', {'function': base_name(k), 'defect': 'fingerprint differs between standards',
                                           'standards': '%s vs %s%s' % (cfgs[2].std, c.std, ''.join('+' + d for d in c.defines))},
                                 'R17.1: %s has a different static fingerprint under %s than under %s (%s) - a conditionally '
                                 'compiled arm changes what it does' % (base_name(k), c.name, cfgs[2].name, '; '.join(what)[:400]),
                                 {'function': k[:300], 'difference': what})
    ck.floor('functions compared across standards', ncmp, 1500 if tier == 'quick' else 6000)
    # R17.1 proper: a compact selection of path rules on one configuration per standard
    from . import parts
    sel = [C('NM', 2, 4, 0, std=s) for s in STDS] + [C('TM', 4, 2, 'std', std=s) for s in ('c++11', 'c++20')] \
        + [C('NM', 2, 4, 0, std='c++20', defines=('GCH_DISABLE_CONCEPTS',))]
    sel += [C('NM', 2, 4, 'std', std=s) for s in ('c++14', 'c++20', 'c++2b')]
    # ... and the operation laws of C01 (size, returned position, element placement) and the operator
    # algebra of C16 under each standard: if every standard meets the same specification on every path,
    # the standards agree with each other on those results
    parts.run_parts(ck, tier, ir_parts=('ir_alloc', 'ir_pair', 'ir_bounds', 'ir_growth', 'ir_noexcept', 'ir_laws', 'ir_compare'),
                    cfgs=sel, rule_filter=lambda part, x: not (part == 'ir_laws' and x.rule in ('R03.7', 'R03.8')))
    # R17.2: the type-level tables under every standard (the witness parts generate their
    # per-standard expectations from feature macros)
    if tier == 'thorough':
        for part in ('c18_grid', 'c07_select', 'c16_exist'):
            try:
                mod = __import__('svlib.rules.' + part, fromlist=['collect'])
                mod.collect(ck, 'thorough')
            except ImportError:
                ck.note('part %s not available' % part)
    ck.assumptions += ['a function is identified across standards by its demangled signature with SFINAE/constraint spelling removed; '
                       'functions that exist under one standard only (operator<=>, legacy relational operators, constrained overloads) are not compared',
                       'clang++ -std=c++2b is given -U__cpp_if_consteval (toolchain defect, see DESIGN 10.2)']
    ck.finish(
        'Necessary conditions only (histories are not replayed): R17.3 every member of the probe corpus - all public operations for each '
        'element flavour, including the move-only element with a throwing move - is well-formed under -std=c++11/14/17/20/2b with clang++ '
        'and g++ and with -DGCH_DISABLE_CONCEPTS; R17.1\' every function compiled from the header that exists under two standards has the '
        'same static fingerprint (reachable element/allocator/iterator primitives, escaping exception kinds, writes of container words, '
        'non-throwing) under both; R17.1 the allocation-pairing, paired-update, bounds, growth and noexcept path rules, the operation laws of C01 '
        '(size, returned position, element placement) and the comparison-operator algebra of C16 hold on one '
        'configuration per standard (every check\'s thorough tier covers the standards for its own rules); R17.2 (thorough) the type-level '
        'grids of C18/C07/C16 under every standard.')
