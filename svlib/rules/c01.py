"""C01 — structural clauses of "behaves like std::vector on the same history" (see ir_laws)."""
from .. import common
from . import parts


def run(tier):
    ck = common.Check('C01', tier)
    res = parts.run_parts(ck, tier, ir_parts=('ir_laws',), rule_filter=lambda part, x: x.rule not in ('R03.7', 'R03.8'))
    r = res.get('ir_laws', [])
    decided = sum(x['res']['decided'] for x in r)
    undecided = sum(x['res']['undecided_paths'] for x in r)
    ops = set()
    und = {}
    for x in r:
        ops.update(x['res']['operations'])
        for k, v in x['res']['undecided_ops'].items():
            und[k] = und.get(k, 0) + v
    ctl = [x['res']['control'] for x in r if x['res'].get('control')]
    if not ctl:
        raise common.AnalysisBroken('C01: no control configuration in the corpus')
    for c in ctl:
        if c['wrongly_passed'] or c['flagged'] < 40:
            raise common.AnalysisBroken('C01 negative control: against a specification that is off by one everywhere only %d '
                                        '(rule, operation) pairs are reported and %s pass' % (c['flagged'], c['wrongly_passed']))
        ck.ok('control', sample={'control': 'off-by-one specification', 'pairs_reported': c['flagged'], 'pairs_passing': 0})
    placed = sum(x['res']['placed'] for x in r)
    unplaced = sum(x['res']['unplaced'] for x in r)
    unp = {}
    for x in r:
        for k, v in x['res']['unplaced_ops'].items():
            unp[k] = unp.get(k, 0) + v
    ck.floor('path verdicts (element placement) decided', placed, 1500 if tier == 'quick' else 10000)
    ck.note('placement left undecided on %d paths %s' % (unplaced, dict(sorted(unp.items()))))
    ck.extra['placement_decided'] = placed
    ck.extra['placement_undecided'] = unplaced
    ck.extra['placement_undecided_by_operation'] = unp
    skipped = {}
    for x in r:
        for o in x['res'].get('skipped_operations', []):
            skipped[o] = skipped.get(o, 0) + 1
    if skipped:
        ck.note('operations skipped in some configuration because of the path limit: %s' % skipped)
    ck.extra['skipped_operations'] = skipped
    ck.floor('public operations with a specified law', len(ops), 40)
    ck.floor('path verdicts (size / position / at) decided', decided, 5000 if tier == 'quick' else 30000)
    ck.note('operations covered: %s' % ', '.join(sorted(ops)))
    ck.note('paths left undecided (result depends on a quantity the engine forgot): %d %s'
            % (undecided, dict(sorted(und.items()))))
    ck.extra['undecided_paths'] = undecided
    ck.extra['undecided_by_operation'] = und
    ck.extra['operations'] = sorted(ops)
    ck.assumptions += [
        'the standard library\'s own copy loops return what the standard specifies (std::move/std::copy: d + (last - first); '
        'the backward forms: d - (last - first)); these are the only trusted models',
        'pointer differences of iterators into one array are exact multiples of the element size (the IR says `sdiv exact`)',
        'only normal-return paths are judged here; exceptional exits are C05/C06',
        'entry contract: the container invariant of C02 holds on entry (size <= capacity; used only to conclude that a container '
        'whose capacity is zero on a path is empty)',
    ]
    ck.finish(
        'Structural clauses only - the VALUES elements hold are run-time data and whole histories are not replayed (the property as a whole '
        'stays beyond static analysis); what is decided is, per operation and per path, how many elements there are afterwards, which '
        'position is returned, and WHERE every element of the resulting sequence comes from. Decided, for every public modifier/constructor/assignment on every normal-return path the '
        'engine follows to the end, in every corpus configuration (inline capacity 0/2/4.., heap or inline on entry, conversions '
        'between inline capacities, all element flavours and size types): R01.1 size() after the call equals std::vector\'s '
        'specified count as a linear form of the entry size and the arguments; R01.2 the returned iterator/reference, relative to '
        'data() after the call, is the specified position (insert/emplace/erase: the position of pos/first; emplace_back: the new '
        'last element; operator=/append: *this); R01.3 at(i) returns data()[i] exactly on the paths that establish i < size() and '
        'raises on the paths that refute it; R01.4 (element types with opaque special members) the element operations on the path - '
        'single constructions/assignments and whole loops generalised to ranges - tile the final sequence exactly as std::vector '
        'specifies: the prefix stays or is relocated from the same offsets, the inserted range comes from the value argument (or a '
        'temporary made from it) / the caller\'s range in order / value-initialisation, the suffix comes from the old elements shifted '
        'by exactly the inserted (erased) count, nothing else is written, overlapping shifts run in the safe direction and no old '
        'element is read after it was overwritten. Laws of internal helpers are inferred (all exits agree modulo the path\'s linear '
        'equalities), not tabulated; loops are handled by checked induction variables.')
