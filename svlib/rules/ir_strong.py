"""C05 rules over complete paths of the operations the statement lists (helpers expanded).

R05.1  relocation never moves existing elements when the move may throw and a copy exists.
R05.2  no observable mutation (size/pointer/capacity write, move-from/assign/destroy of elements that
       existed on entry, release of the old buffer) precedes a call from which an element-constructor,
       allocator or length_error exception can escape.
insert/emplace of one element are sliced to pos == end() by seeding the position argument with
data() + size() as observed on entry.
"""
from .. import sym, cg, irrules
from ..sym import single_atom, atom, L, lin_add, lin_scale
from ..irrules import Report, base_name, obj_of, where
from .ir_alias import AliasRule, THIS
from .ir_growth import is_public, versioned

STRONG_KINDS = {'ELEM_COPY', 'ELEM_MOVE', 'ELEM_DEFAULT', 'ELEM_CONV', 'ALLOC', 'THROW_LENGTH'}
MODIFY = {'ELEM_MOVE', 'ELEM_COPY_ASSIGN', 'ELEM_MOVE_ASSIGN', 'ELEM_CONV_ASSIGN', 'ELEM_SWAP'}
CTORS = {'ELEM_COPY', 'ELEM_MOVE', 'ELEM_DEFAULT', 'ELEM_CONV'}
ESIZE = {'NM': 4, 'NA': 4, 'TM': 4, 'MO': 4, 'MOT': 4, 'CO': 4, 'TR': 8, 'int': 4, 'intp': 8}
LISTED = {'push_back', 'emplace_back', 'reserve', 'resize', 'shrink_to_fit', 'append', 'insert', 'emplace'}


def split_params(args):
    """'(a<b, c>, d)' -> ['a<b, c>', 'd']"""
    inner = args[1:args.rfind(')')]
    out, cur, d = [], [], 0
    for c in inner:
        if c in '<(':
            d += 1
        elif c in '>)':
            d -= 1
        if c == ',' and d == 0:
            out.append(''.join(cur).strip())
            cur = []
        else:
            cur.append(c)
    if cur:
        out.append(''.join(cur).strip())
    return out


class StrongRule(AliasRule):
    name = 'R05'

    def __init__(self, eng, cfg):
        AliasRule.__init__(self, eng, cfg)
        self.judged = 0
        self.cur_f = None
        self.cur_end0 = None
        self.sliced_opaque = set()

    def init(self, f, eng):
        return None

    def live_arg(self, ev, f, eng, only_sources=False):
        tys = ev.argtys or [None] * len(ev.args)
        for i, a in enumerate(ev.args):
            if not sym.is_lin(a):
                continue
            # public entry points: only pointers based on the data pointer this container held on
            # entry address its elements; parameters (and pointers loaded from the caller's iterators
            # or other containers) address the caller's objects (positions are seeded, see below)
            based = False
            for r, c in a[2]:
                if r[0] == 'init' and len(r) == 2 and r[1][2] == THIS and eng.field_tag.get(r[1]) == 0:
                    based = True
            if not based:
                continue
            if self.maybe_live(a, tys[i] if i < len(tys) else None, eng):
                return True
        return False

    def based_on_data0(self, a, eng):
        for r, c in a[2]:
            if r[0] == 'init' and len(r) == 2 and r[1][2] == THIS and eng.field_tag.get(r[1]) == 0:
                return True
        return False

    def empty_range(self, ev):
        ptrs = [a for a in (ev.args or []) if sym.is_lin(a) and a[2]]
        return len(ptrs) >= 2 and ptrs[0] == ptrs[1]

    def on_event(self, rs, ev, st, f, eng):
        self.cur_conds = st.conds
        k = ev.kind
        if k == 'store' and ev.field in (0, 1, 2) and obj_of(ev.addr) == THIS:
            if rs is None:
                cur = atom(('init', ev.addr))
                if ev.val != cur:
                    return 'write of %s at %s' % (('data pointer', 'capacity', 'size')[ev.field], where(ev, self.orc))
            return rs
        if k not in ('call', 'throw') or ev.args is None or ev.callee is None:
            return rs
        name = ev.callee
        if k == 'call' and self.cur_end0 is not None and self.orc.is_gch(name) and len(ev.args) >= 2 \
                and ev.args[1] == self.cur_end0 and self.orc.writes_fields.get(name):
            self.sliced_opaque.add(name)
        kind = self.orc.kind.get(name)
        eff = self.orc.effects.get(name, frozenset())
        th = self.orc.throws.get(name, frozenset())
        bn = base_name(f.pretty)
        if name.startswith('llvm.'):
            if (name.startswith('llvm.memmove') or name.startswith('llvm.memcpy')) and rs is None:
                if self.based_on_data0(ev.args[0], eng) and self.maybe_live(ev.args[0], next(iter(self.elem_ptr_types)), eng):
                    return 'raw copy over existing elements at %s' % where(ev, self.orc)
            return rs
        if self.empty_range(ev):
            return rs
        # R05.1
        if self.cfg.elem == 'TM' and 'ELEM_MOVE' in eff and 'ELEM_MOVE' in th and self.live_arg(ev, f, eng):
            dk = ('R05.1', f.name, where(ev, self.orc))
            if dk not in self.reports:
                self.reports[dk] = Report(
                    'R05.1', False, {'function': bn, 'defect': 'relocation by a throwing move'},
                    'R05.1: %s relocates existing elements with a move constructor that may throw although the element is '
                    'copyable (at %s): a throw leaves moved-from elements behind (%s)' % (bn, where(ev, self.orc), self.cfg.name),
                    {'function': f.pretty[:300], 'config': self.cfg.name, 'file': 'source/include/gch/small_vector.hpp'})
        # R05.2: a throw after a mutation
        if k == 'throw' and rs is not None:
            bad = sorted(x for x in th if x in STRONG_KINDS)
            if self.orc.kind.get(name) == 'CXA_THROW':
                bad = ['THROW_LENGTH']
            if bad:
                dk = ('R05.2', f.name, where(ev, self.orc), rs)
                if dk not in self.reports:
                    self.reports[dk] = Report(
                        'R05.2', False, {'function': bn, 'defect': 'throw after an observable mutation'},
                        'R05.2: in %s a call that can throw (%s, at %s) follows an observable mutation of the container (%s): '
                        'the container is not unchanged if it throws (%s)' % (bn, '/'.join(bad), where(ev, self.orc), rs, self.cfg.name),
                        {'function': f.pretty[:300], 'config': self.cfg.name, 'mutation': rs,
                         'throwing_call': where(ev, self.orc), 'file': 'source/include/gch/small_vector.hpp'})
            return rs
        if rs is not None:
            return rs
        # mutation by a call?
        if kind == 'DEALLOC':
            if len(ev.args) > 1 and self.based_on_data0(ev.args[1], eng):
                return 'release of the old buffer at %s' % where(ev, self.orc)
            return rs
        modifies = bool(eff & MODIFY) or (('ELEM_DTOR' in eff) and not (eff & CTORS)) or kind == 'ELEM_DTOR'
        if modifies and self.live_arg(ev, f, eng):
            return '%s over existing elements at %s' % (base_name(self.orc.pretty.get(name, name)), where(ev, self.orc))
        return rs

    def on_exit(self, rs, kind, st, f, eng, rv=None):
        if kind in ('ret', 'unwind'):
            self.judged += 1
            dk = (f.name, 'ok', kind)
            if dk not in self.reports:
                self.reports[dk] = Report('R05.2', True, None,
                                          sample={'function': base_name(f.pretty), 'exit': kind, 'config': self.cfg.name})


def analyse_tu(eng, cfg):
    orc = eng.oracle
    rule = StrongRule(eng, cfg)
    rule.tracked = ()
    n = 0
    skipped = 0
    sliced_pub = []
    for f in irrules.gch_roots(eng):
        bn = base_name(f.pretty)
        if getattr(cfg, 'canary', False) and 'canary_' in (f.pretty or ''):
            n += 1
            eng.walk(f, [rule])
            continue
        if not is_public(f) or bn not in LISTED:
            continue
        args = f.pretty[f.pretty.find('('):]
        if 'svp::InIt<' in args:
            skipped += 1      # single-pass append/insert: roll-back handlers are not modelled (DESIGN C05)
            continue
        seed = None
        if bn in ('insert', 'emplace'):
            # only the single-element overloads, sliced to pos == end()
            plist = split_params(args)
            if bn == 'insert' and (len(plist) != 2 or 'std::initializer_list' in plist[1]):
                continue
            eng.summary(f.name)
            paths = []
            eng.walk(f, (), collect=paths, path_limit=20000)
            tags = eng.summary_tags.get(f.name, {})
            pa = sa = None
            for a, k in tags.items():
                if a[2] == THIS:
                    if k == 0:
                        pa = a
                    elif k == 2:
                        sa = a
            if pa is None or sa is None:
                continue
            end0 = lin_add(atom(('init', pa)), lin_scale(atom(('init', sa)), ESIZE[cfg.elem]))
            seed = {1: end0}
        n += 1
        rule.cur_end0 = seed[1] if seed is not None else None
        eng.walk(f, [rule], seed=seed)
        rule.cur_end0 = None
    # helpers that a sliced walk reached as *opaque* callees with the position (== end on this
    # slice) as their raw element-pointer argument are walked on their own with the same slice: a
    # public entry point that is too large to expand completely would otherwise hide what its
    # helper does.  (Helpers only reachable mid-sequence are not reached on the slice.)
    ept = next(iter(rule.elem_ptr_types))
    nint = 0
    done = set()
    while rule.sliced_opaque - done:
        name = sorted(rule.sliced_opaque - done)[0]
        done.add(name)
        f = eng.mod.funcs.get(name)
        if f is None or len(f.params) < 2:
            continue
        ty, nm, at = f.params[1]
        if ty.strip() != ept or 'dereferenceable' in at:
            continue
        paths = []
        eng.walk(f, (), collect=paths, path_limit=20000)
        tags = eng.summary_tags.get(f.name, {})
        pa = sa = None
        for a, k in tags.items():
            if a[2] == THIS:
                if k == 0:
                    pa = a
                elif k == 2:
                    sa = a
        if pa is None or sa is None:
            continue
        end0 = lin_add(atom(('init', pa)), lin_scale(atom(('init', sa)), ESIZE[cfg.elem]))
        nint += 1
        rule.cur_end0 = end0
        eng.walk(f, [rule], seed={1: end0})
    rule.cur_end0 = None
    return {'reports': list(rule.reports.values()), 'entry_points': n, 'paths': rule.judged,
            'single_pass_skipped': skipped, 'sliced_helpers': nint}
