"""C07 rules over IR (custom probe allocator configurations only: its assignment / swap / ==
are undefined externals, hence visible events).

R07.2  must-pass-through: on every normal path of copy assignment the container's allocator is
       assigned from the source's exactly once iff propagate_on_container_copy_assignment, of move
       assignment exactly once (move-assigned) iff ..._move_assignment, of swap exactly once
       (swapped) iff ..._swap; no other non-constructor operation writes the allocator.
R07.3  allocator epoch: once the allocator has been replaced, the buffer held on entry is not
       released through it any more, and a buffer kept after the replacement was allocated through
       the incoming allocator (or a copy of it) - unless the allocators compared equal on the path
       or are always equal.
"""
from .. import sym, cg, irrules
from ..sym import single_atom, atom
from ..irrules import Report, base_name, obj_of, where
from .ir_growth import is_public

THIS = ((('arg', 0), 1),)
WRITES = {'ALLOC_COPY_ASSIGN': 'copy', 'ALLOC_MOVE_ASSIGN': 'move', 'ALLOC_SWAP': 'swap'}


def rooted(t, obj):
    return sym.is_lin(t) and t[2] == obj


class FlowRule(sym.Rule):
    name = 'R07'

    def __init__(self, eng, cfg):
        self.orc = eng.oracle
        self.cfg = cfg
        self.reports = {}
        self.family = None      # 'copy' | 'move' | 'swap' | 'other'
        self.paths = 0
        self.delegated = 0
        self.pending_roots = set()
        self.soccc = set()

    def init(self, f, eng):
        # (writes: tuple of (kind, src obj), allocs: frozenset (p, recv obj), copies: frozenset (dst obj, src obj),
        #  eq: frozenset of (ret atom, kind), released_after: str|None)
        return ((), frozenset(), frozenset(), frozenset(), None)

    def on_event(self, rs, ev, st, f, eng):
        writes, allocs, copies, eqs, rel = rs
        if ev.kind != 'call' or not ev.callee or ev.args is None:
            return rs
        k = self.orc.kind.get(ev.callee)
        if k is None and (self.orc.effects.get(ev.callee, frozenset()) & set(WRITES)):
            # an opaque helper that may write the allocator itself: this path is judged in that
            # helper (it is walked as a root of the same family)
            if self.orc.is_gch(ev.callee):
                self.pending_roots.add((ev.callee, self.family))
            return (writes + (('delegated', None),), allocs, copies, eqs, rel)
        if k == 'ALLOC_SOCCC' and ev.args:
            # select_on_container_copy_construction: its result (returned into the first argument
            # slot) is an allocator for a NEW container, not a copy of the source's allocator
            self.soccc.add(obj_of(ev.args[0]))
            return rs
        if k in WRITES and len(ev.args) >= 2:
            a, b = ev.args[0], ev.args[1]
            if rooted(a, THIS):
                src = obj_of(b)
                tainted = src in self.soccc or any(d == src and s_ in self.soccc for (d, s_) in copies)
                if tainted and self.family in ('copy', 'move'):
                    dk = ('R07.5', f.name)
                    if dk not in self.reports:
                        self.reports[dk] = Report(
                            'R07.5', False, {'function': base_name(f.pretty), 'defect': 'assignment installs select_on_container_copy_construction (source allocator)'},
                            'R07.5: %s: the allocator installed by the assignment is the result of select_on_container_copy_construction () '
                            'applied to the source\'s allocator, not the source\'s allocator itself (that function is for copy CONSTRUCTION only) (%s)'
                            % (base_name(f.pretty), self.cfg.name),
                            {'function': f.pretty[:300], 'config': self.cfg.name, 'file': 'source/include/gch/small_vector.hpp',
                             'where': where(ev, self.orc)})
                return (writes + ((WRITES[k], src),), allocs, copies, eqs, rel)
            if k == 'ALLOC_SWAP' and rooted(b, THIS):
                return (writes + (('swap', obj_of(a)),), allocs, copies, eqs, rel)
            return rs
        if k == 'ALLOC' and len(ev.args) >= 2:
            return (writes, allocs | {(ev.ret, obj_of(ev.args[0]))}, copies, eqs, rel)
        if k in ('ALLOC_COPY', 'ALLOC_MOVE') and len(ev.args) >= 2:
            return (writes, allocs, copies | {(obj_of(ev.args[0]), obj_of(ev.args[1]))}, eqs, rel)
        if k in ('ALLOC_EQ', 'ALLOC_NE') and ev.ret is not None:
            return (writes, allocs, copies, eqs | {(single_atom(ev.ret), k)}, rel)
        if k == 'DEALLOC' and len(ev.args) >= 3 and writes and rooted(ev.args[0], THIS):
            p = single_atom(ev.args[1])
            if p is not None and p[0] == 'init' and len(p) == 2 and eng.field_tag.get(p[1]) == 0 and p[1][2] == THIS:
                return (writes, allocs, copies, eqs, where(ev, self.orc))
        return rs

    def equal_on_path(self, eqs, st):
        for (c, v) in st.conds:
            pos, pol = sym.strip_not(c)
            a = single_atom(pos)
            for (ea, ek) in eqs:
                if a is not None and a == ea:
                    val = v if pol else (not v)
                    if (ek == 'ALLOC_EQ' and val) or (ek == 'ALLOC_NE' and not val):
                        return True
        return False

    def on_exit(self, rs, kind, st, f, eng, rv=None):
        if kind != 'ret':
            return
        self.paths += 1
        writes, allocs, copies, eqs, rel = rs
        bits = self.cfg.alloc
        bn = base_name(f.pretty)
        fam = self.family
        expect = {'copy': bool(bits & 1), 'move': bool(bits & 2), 'swap': bool(bits & 4)}.get(fam)
        # self-assignment guard: `&other != this` false
        selfp = False
        for (c, v) in st.conds:
            a = single_atom(c)
            if a is not None and a[0] == 'cmp' and a[1] == 'eq' and v is True:
                ats = [x for x, co in a[2][2]]
                if len(ats) == 2 and all(x[0] == 'arg' for x in ats):
                    selfp = True

        def rep(rule, ok, what, detail=None):
            dk = (rule, f.name, what, ok)
            if dk in self.reports:
                return
            if ok:
                self.reports[dk] = Report(rule, True, None, sample={'function': bn, 'family': fam, 'what': what, 'config': self.cfg.name})
            else:
                d = {'function': f.pretty[:300], 'config': self.cfg.name, 'file': 'source/include/gch/small_vector.hpp'}
                d.update(detail or {})
                self.reports[dk] = Report(rule, False, {'function': bn, 'defect': what},
                                          '%s: %s: %s (%s)' % (rule, bn, what, self.cfg.name), d)
        if any(w[0] == 'delegated' for w in writes):
            self.delegated += 1
            return
        mine = [w for w in writes]
        if fam == 'other':
            if mine:
                rep('R07.2', False, 'an operation other than assignment/swap writes the container\'s allocator')
            else:
                rep('R07.2', True, 'no allocator write')
            return
        if selfp and not mine:
            return
        right = [w for w in mine if w[0] == fam]
        if expect:
            if len(mine) == 1 and len(right) == 1:
                rep('R07.2', True, 'propagated once')
            elif not mine:
                rep('R07.2', False, 'allocator not propagated on a normal path although propagate_on_container_%s is true'
                    % {'copy': 'copy_assignment', 'move': 'move_assignment', 'swap': 'swap'}[fam])
            else:
                rep('R07.2', False, 'allocator written %d times / by the wrong operation (%s)' % (len(mine), ','.join(w[0] for w in mine)))
        else:
            if mine:
                rep('R07.2', False, 'allocator replaced although propagate_on_container_%s is false'
                    % {'copy': 'copy_assignment', 'move': 'move_assignment', 'swap': 'swap'}[fam])
            else:
                rep('R07.2', True, 'not propagated')
        # R07.3
        if mine and fam in ('copy', 'move') and not (bits & 8) and not self.equal_on_path(eqs, st):
            src = mine[0][1]
            if rel is not None:
                rep('R07.3', False, 'old buffer released after the allocator was replaced', {'release': rel})
            # buffer kept: allocated through the incoming allocator (or a copy of it)?
            pa = None
            for a, k in eng.field_tag.items():
                if k == 0 and a[2] == THIS:
                    pa = a
            P = st.mem.get(pa) if pa is not None else None
            if P is not None:
                for (p, recv) in allocs:
                    if P == p:
                        ok = recv == src or any(d == recv and s == src for (d, s) in copies) or \
                            any(d == recv and any(d2 == s and s2 == src for (d2, s2) in copies) for (d, s) in copies)
                        if ok:
                            rep('R07.3', True, 'buffer from the incoming allocator')
                        else:
                            rep('R07.3', False, 'the buffer kept after the allocator was replaced was allocated through the old allocator')
            if rel is None:
                rep('R07.3', True, 'release before replacement')


def analyse_tu(eng, cfg):
    if cfg.alloc == 'std':
        return {'reports': [], 'functions': 0, 'paths': 0, 'soccc_functions': 0}
    orc = eng.oracle
    rule = FlowRule(eng, cfg)
    n = 0
    for f in irrules.gch_roots(eng):
        if not is_public(f) or irrules.is_ctor(f) or irrules.is_dtor(f):
            continue
        bn = base_name(f.pretty)
        args = f.pretty[f.pretty.find('('):]
        fam = 'other'
        if bn in ('operator=', 'assign') and 'small_vector<' in args:
            fam = 'move' if '&&' in args else 'copy'
        elif bn == 'swap':
            fam = 'swap'
        eff = orc.effects.get(f.name, frozenset())
        if fam == 'other' and not (eff & set(WRITES)):
            # cannot reach an allocator write at all: one obligation, no walk needed
            rule.family = fam
            dk = ('R07.2', f.name, 'unreachable', True)
            rule.reports[dk] = Report('R07.2', True, None, sample={'function': bn, 'family': fam,
                                                                   'what': 'cannot reach an allocator write', 'config': cfg.name})
            n += 1
            continue
        rule.family = fam
        rule.soccc = set()
        n += 1
        eng.walk(f, [rule])
    done = set()
    while rule.pending_roots - done:
        name, fam = sorted(rule.pending_roots - done)[0]
        done.add((name, fam))
        rule.family = fam
        n += 1
        eng.walk(eng.mod.funcs[name], [rule])
    soccc_fns = sum(1 for fn in orc.effects if 'ALLOC_SOCCC' in orc.effects.get(fn, ()))
    return {'reports': list(rule.reports.values()), 'functions': n, 'paths': rule.paths,
            'delegated_paths': rule.delegated, 'soccc_functions': soccc_fns}
