"""R06.3 / R03.5: size covers only constructed elements.

On paths that keep the container's buffer (the data pointer is not rewritten):
* a size increase is preceded, since the previous size change, by a construction that starts at
  the old end (data + old size); where the end of that construction is a closed term it must be
  the new end (length agreement), otherwise the instance is counted as order-only;
* a size decrease has a destruction of exactly [new end, old end) on the path;
* when an exception leaves the function, every range that was constructed but not yet covered by
  the size has been destroyed.
"""
from .. import sym, cg, irrules
from ..sym import const_of, single_atom, atom, lin_add, lin_sub, lin_scale, L
from ..irrules import Report, base_name, obj_of, where

ESIZE = {'NM': 4, 'TM': 4, 'MO': 4, 'MOT': 4, 'CO': 4}


class SizeRule(sym.Rule):
    name = 'R06.3'

    def __init__(self, eng, cfg):
        self.orc = eng.oracle
        self.cfg = cfg
        self.reports = {}
        self.s = ESIZE[cfg.elem]
        self.elem_ptr = '%%"struct.svp::%s"*' % cfg.elem
        self.updates = 0
        self.order_only = 0
        self.is_ctor = False

    def init(self, f, eng):
        # (constructs since last size change: frozenset (start, end|None, desc),
        #  destroys on the path: frozenset (a, b),
        #  pending decreases: frozenset (obj, newEND, oldEND, desc),
        #  objects whose pointer was rewritten)
        return (frozenset(), frozenset(), frozenset(), frozenset())

    def cells(self, obj, eng):
        pa = sa = None
        for a, k in eng.field_tag.items():
            if a[2] == obj:
                if k == 0:
                    pa = a
                elif k == 2:
                    sa = a
        return pa, sa

    def cur_end(self, obj, st, eng):
        pa, sa = self.cells(obj, eng)
        if pa is None or sa is None:
            return None, None, None
        d = eng.load(st, pa)
        s = eng.load(st, sa)
        return d, s, lin_add(d, lin_scale(s, self.s))

    def on_event(self, rs, ev, st, f, eng):
        cons, dest, dec, reptr = rs
        if ev.kind == 'store' and ev.field == 0:
            return (cons, dest, dec, reptr | {obj_of(ev.addr)})
        if ev.kind == 'havoc' and ev.args:
            # a loop re-entry forgot the words: later updates on this path cannot be related to
            # the end observed before (they are judged in the callee that performs them)
            return (frozenset(), dest, dec, reptr | {'*'})
        if ev.kind == 'store' and ev.field == 2:
            obj = obj_of(ev.addr)
            if obj in reptr or '*' in reptr or self.is_ctor:
                return (frozenset(), dest, dec, reptr)
            pa, sa = self.cells(obj, eng)
            if pa is None or sa is None or sa != ev.addr:
                return rs
            old = ev.old
            data = eng.load(st, pa)
            return self.size_change(rs, obj, data, old, ev.val, ev, st, f, eng)
        if ev.kind in ('call', 'throw') and ev.callee and ev.args is not None:
            name = ev.callee
            eff = self.orc.effects.get(name, frozenset())
            kind = self.orc.kind.get(name)
            tys = ev.argtys or []
            eptrs = [a for i, a in enumerate(ev.args) if sym.is_lin(a) and i < len(tys) and tys[i] and tys[i].strip() == self.elem_ptr]
            if ev.kind == 'call':
                ctor_only = bool(eff & cg.ELEM_CTOR) and not (eff & (cg.ELEM_ASSIGN | {'ELEM_SWAP'})) \
                    and not self.orc.writes_fields.get(name)
                if kind in cg.ELEM_CTOR and eptrs:
                    p = eptrs[0]
                    cons = cons | {(p, lin_add(p, L(self.s)), where(ev, self.orc))}
                elif ctor_only and eptrs:
                    # construct helpers take (first/last of the source ..., destination [, end])
                    # uninitialized_fill (first, last[, val]); uninitialized_copy/move (f, l, dest)
                    endt = None
                    if 'ELEM_DTOR' in eff or True:
                        pretty = self.orc.pretty.get(name, '')
                    startc = eptrs[:]   # any element-pointer argument may be the start
                    rets = ev.ret
                    for p in startc:
                        cons = cons | {(p, None, where(ev, self.orc))}
                    # fill-style helpers: both ends are arguments
                    if len(eptrs) == 2 and ev.ret is not None:
                        cons = cons | {(eptrs[0], eptrs[1], where(ev, self.orc))}
                dtor_only = ('ELEM_DTOR' in eff or kind == 'ELEM_DTOR') and not (eff & (cg.ELEM_CTOR | cg.ELEM_ASSIGN | {'ELEM_SWAP'}))
                if dtor_only and eptrs:
                    if kind == 'ELEM_DTOR':
                        dest = dest | {(eptrs[0], lin_add(eptrs[0], L(self.s)))}
                    elif len(eptrs) >= 2:
                        dest = dest | {(eptrs[-2], eptrs[-1])}
            return (cons, dest, dec, reptr)
        return rs

    def size_change(self, rs, obj, data, old, new, ev, st, f, eng):
        cons, dest, dec, reptr = rs
        bn = base_name(f.pretty)
        self.updates += 1
        if old is None:
            return (frozenset(), dest, dec, reptr)
        d = lin_sub(new, old)
        old_end = lin_add(data, lin_scale(old, self.s))
        new_end = lin_add(data, lin_scale(new, self.s))
        if d == sym.ZERO:
            return (frozenset(), dest, dec, reptr)
        neg = (d[1] <= 0 and all(c < 0 for a, c in d[2]) and (d[1] < 0 or d[2])) or const_of(new) == 0
        pos = d[1] >= 0 and all(c > 0 for a, c in d[2])
        desc = where(ev, self.orc)
        if neg:
            return (frozenset(), dest, dec | {(obj, new_end, old_end, desc)}, reptr)
        # increase (or unknown direction): a construction starting at the old end must precede
        starts = [c for c in cons if c[0] == old_end]
        if starts:
            closed = [c for c in starts if c[1] is not None and single_atom(c[1]) is None or (c[1] is not None and c[1] == new_end)]
            exact = [c for c in starts if c[1] is not None and c[1] == new_end]
            known = [c for c in starts if c[1] is not None and not any(a[0] == 'ret' for a in sym.atoms_of(c[1]))]
            if known and not exact and pos:
                self._rep(f, 'size advanced by a different amount than was constructed', ev,
                          {'constructed_to': repr(known[0][1])[:200], 'new_end': repr(new_end)[:200]})
            else:
                if not exact:
                    self.order_only += 1
                self._ok(f, 'increase')
            return (frozenset(), dest, dec, reptr)
        if pos:
            self._rep(f, 'size advanced over storage in which nothing was constructed', ev,
                      {'old_end': repr(old_end)[:200], 'constructs': [c[2] for c in cons][:4]})
            return (frozenset(), dest, dec, reptr)
        # direction unknown (sizes exchanged): either a construction at the old end or a
        # destruction down to the new end must exist; checked at exit like a decrease
        return (frozenset(), dest, dec | {(obj, new_end, old_end, desc + ' (exchange)')}, reptr)

    def _ok(self, f, what):
        dk = (f.name, what)
        if dk not in self.reports:
            self.reports[dk] = Report('R06.3', True, None, sample={'function': base_name(f.pretty), 'update': what, 'config': self.cfg.name})

    def _rep(self, f, what, ev, detail=None):
        bn = base_name(f.pretty)
        dk = (f.name, what, where(ev, self.orc) if ev is not None else '')
        if dk in self.reports:
            return
        d = {'function': f.pretty[:300], 'config': self.cfg.name, 'file': 'source/include/gch/small_vector.hpp'}
        d.update(detail or {})
        self.reports[dk] = Report('R06.3', False, {'function': bn, 'defect': what},
                                  'R06.3: %s: %s (at %s) (%s)' % (bn, what, where(ev, self.orc) if ev is not None else 'exit', self.cfg.name), d)

    def on_exit(self, rs, kind, st, f, eng, rv=None):
        cons, dest, dec, reptr = rs
        if kind not in ('ret', 'unwind'):
            return
        for (obj, new_end, old_end, desc) in dec:
            if obj in reptr or '*' in reptr:
                continue
            ok = any(a == new_end and b == old_end for (a, b) in dest)
            if not ok and any(b == old_end and any(x[0] == 'ret' for x in sym.atoms_of(a)) for (a, b) in dest):
                # destroyed down from the old end, starting at the position an opaque algorithm
                # returned (move_left's result): the length is not a closed term
                self.order_only += 1
                ok = True
            if ok:
                self._ok(f, 'decrease')
            else:
                dk = (f.name, 'dec', desc)
                if dk not in self.reports:
                    self.reports[dk] = Report(
                        'R06.3', False, {'function': base_name(f.pretty), 'defect': 'size decreased without destroying the elements it no longer covers'},
                        'R06.3: %s: the size is decreased (at %s) but no destruction of exactly [new end, old end) is on the path: the '
                        'elements cut off are never destroyed (or others are) (%s)' % (base_name(f.pretty), desc, self.cfg.name),
                        {'function': f.pretty[:300], 'config': self.cfg.name, 'destroyed': [repr(x)[:150] for x in dest][:4],
                         'file': 'source/include/gch/small_vector.hpp'})


def analyse_tu(eng, cfg):
    if cfg.elem not in ESIZE:
        return {'reports': [], 'functions': 0, 'size_updates': 0, 'order_only': 0}
    orc = eng.oracle
    rule = SizeRule(eng, cfg)
    n = 0
    for f in irrules.maximal_roots(eng):
        if not orc.writes_fields.get(f.name):
            continue
        rule.is_ctor = irrules.is_ctor(f)
        if rule.is_ctor:
            continue
        n += 1
        eng.walk(f, [rule])
    return {'reports': list(rule.reports.values()), 'functions': n, 'size_updates': rule.updates,
            'order_only': rule.order_only}
