"""R06.3 / R03.5: size covers only constructed elements.

On paths that keep the container's buffer (the data pointer is not rewritten):
* a size increase is preceded, since the previous size change, by a construction that starts at
  the old end (data + old size); where the end of that construction is a closed term it must be
  the new end (length agreement), otherwise the instance is counted as order-only;
* a size decrease has a destruction of exactly [new end, old end) on the path;
* when an exception leaves the function, every range that was constructed but not yet covered by
  the size has been destroyed.
"""
from .. import sym, cg, irrules
from ..sym import const_of, single_atom, atom, lin_add, lin_sub, lin_scale, L
from ..irrules import Report, base_name, obj_of, where

ESIZE = {'NM': 4, 'NA': 4, 'TM': 4, 'MO': 4, 'MOT': 4, 'CO': 4}


class SizeRule(sym.Rule):
    name = 'R06.3'

    def __init__(self, eng, cfg):
        self.orc = eng.oracle
        self.cfg = cfg
        self.reports = {}
        self.s = ESIZE[cfg.elem]
        self.elem_ptr = '%%"struct.svp::%s"*' % cfg.elem
        self.updates = 0
        self.order_only = 0
        self.is_ctor = False

    def init(self, f, eng):
        # (constructs since last size change: frozenset (start, end|None, desc),
        #  destroys on the path: frozenset (a, b),
        #  pending decreases: frozenset (obj, newEND, oldEND, desc),
        #  objects whose pointer was rewritten)
        #  ..., a size store whose verdict waits for the end of the straight-line run of word stores)
        return (frozenset(), frozenset(), frozenset(), frozenset(), frozenset(), frozenset(), frozenset(), None)

    def cells(self, obj, eng):
        pa = sa = None
        for a, k in eng.field_tag.items():
            if a[2] == obj:
                if k == 0:
                    pa = a
                elif k == 2:
                    sa = a
        if pa is None and sa is not None:
            # the data pointer has not been touched yet on this walk: its cell is at a fixed
            # distance from the size cell (layout of small_vector_data_base)
            for t in eng.data_base_types():
                fl = eng.layout.fields(t)
                if fl and len(fl) >= 3:
                    pa = lin_add(sa, L(fl[0][0] - fl[2][0]))
                    eng.field_tag[pa] = 0
                    break
        return pa, sa

    def cur_end(self, obj, st, eng):
        pa, sa = self.cells(obj, eng)
        if pa is None or sa is None:
            return None, None, None
        d = eng.load(st, pa)
        s = eng.load(st, sa)
        return d, s, lin_add(d, lin_scale(s, self.s))

    def flush(self, rs, f, eng):
        """Judge the size store that was waiting (see on_event)."""
        cons, dest, dec, reptr, newbuf, allocs, freed, pend = rs
        if pend is None:
            return rs
        obj, data, old, new, desc = pend
        r4 = self.size_change((cons, dest, dec, reptr), obj, data, old, new, desc, f, eng)
        return r4 + (newbuf, allocs, freed, None)

    def on_event(self, rs, ev, st, f, eng):
        pend = rs[7]
        if pend is not None:
            # A size store is judged against the buffer the container holds when the run of plain word
            # stores it belongs to ends (the next call, loop re-entry, size store or exit): the three
            # words of a buffer replacement may be written in any order, and until something can observe
            # or throw, the intermediate combinations do not exist for anybody.
            if ev.kind == 'store' and ev.field == 0 and obj_of(ev.addr) == pend[0]:
                cons, dest, dec, reptr, newbuf, allocs, freed, _ = rs
                return (frozenset(), dest, dec, reptr | {pend[0]}, newbuf, allocs, freed, None)
            if ev.kind in ('call', 'throw', 'havoc') or (ev.kind == 'store' and ev.field == 2):
                rs = self.flush(rs, f, eng)
        cons, dest, dec, reptr, newbuf, allocs, freed, pend = rs
        rs7 = self.on_event7((cons, dest, dec, reptr, newbuf, allocs, freed), ev, st, f, eng, pend)
        return rs7 if len(rs7) == 8 else rs7 + (pend,)

    def on_event7(self, rs, ev, st, f, eng, pend):
        cons, dest, dec, reptr, newbuf, allocs, freed = rs
        if ev.kind == 'store' and ev.field == 0:
            return (cons, dest, dec, reptr | {obj_of(ev.addr)}, newbuf, allocs, freed)
        if ev.kind == 'havoc' and ev.args:
            # a loop re-entry forgot the words: later updates on this path cannot be related to
            # the end observed before (they are judged in the callee that performs them)
            return (frozenset(), dest, dec, reptr | {'*'}, newbuf, allocs, freed)
        if ev.kind == 'store' and ev.field == 2:
            obj = obj_of(ev.addr)
            if obj in reptr or '*' in reptr or self.is_ctor:
                return (frozenset(), dest, dec, reptr, newbuf, allocs, freed)
            pa, sa = self.cells(obj, eng)
            if pa is None or sa is None or sa != ev.addr:
                return rs
            old = ev.old
            data = eng.load(st, pa)
            return (cons, dest, dec, reptr, newbuf, allocs, freed, (obj, data, old, ev.val, where(ev, self.orc)))
        if ev.kind in ('call', 'throw') and ev.callee and ev.args is not None:
            name = ev.callee
            eff = self.orc.effects.get(name, frozenset())
            kind = self.orc.kind.get(name)
            tys = ev.argtys or []
            eptrs = [a for i, a in enumerate(ev.args) if sym.is_lin(a) and i < len(tys) and tys[i] and tys[i].strip() == self.elem_ptr]
            if ev.kind == 'call' and kind == 'ALLOC' and ev.ret is not None:
                return (cons, dest, dec, reptr, newbuf, allocs | {single_atom(ev.ret)}, freed)
            if ev.kind == 'call' and kind == 'DEALLOC' and len(ev.args) >= 2:
                a0 = single_atom(ev.args[1])
                if a0 is not None:
                    freed = freed | {a0}
                return (cons, dest, dec, reptr, newbuf, allocs, freed)
            cons0 = cons
            if ev.kind == 'call':
                ctor_only = bool(eff & cg.ELEM_CTOR) and not (eff & (cg.ELEM_ASSIGN | {'ELEM_SWAP'})) \
                    and not self.orc.writes_fields.get(name)
                if kind in cg.ELEM_CTOR and eptrs:
                    p = eptrs[0]
                    cons = cons | {(p, lin_add(p, L(self.s)), where(ev, self.orc))}
                elif ctor_only and eptrs:
                    # construct helpers take (first/last of the source ..., destination [, end])
                    # uninitialized_fill (first, last[, val]); uninitialized_copy/move (f, l, dest)
                    endt = None
                    if 'ELEM_DTOR' in eff or True:
                        pretty = self.orc.pretty.get(name, '')
                    # any element-pointer argument may be the start of the construction, except a
                    # pair that is exactly [begin, end) of a container (that is the source range)
                    startc = eptrs[:]
                    objs = set(a[2] for a, k2 in eng.field_tag.items() if k2 == 0)
                    for o in objs:
                        d0, s0, e0 = self.cur_end(o, st, eng)
                        if d0 is not None and d0 in startc and e0 in startc and d0 != e0:
                            startc = [x for x in startc if x != d0 and x != e0]
                    rets = ev.ret
                    for p in startc:
                        cons = cons | {(p, None, where(ev, self.orc))}
                    # fill-style helpers: both ends are arguments
                    if len(eptrs) == 2 and ev.ret is not None:
                        cons = cons | {(eptrs[0], eptrs[1], where(ev, self.orc))}
                dtor_only = ('ELEM_DTOR' in eff or kind == 'ELEM_DTOR') and not (eff & (cg.ELEM_CTOR | cg.ELEM_ASSIGN | {'ELEM_SWAP'}))
                if dtor_only and eptrs:
                    if kind == 'ELEM_DTOR':
                        dest = dest | {(eptrs[0], lin_add(eptrs[0], L(self.s)))}
                    elif len(eptrs) >= 2:
                        dest = dest | {(eptrs[-2], eptrs[-1])}
            if ev.kind == 'call' and eptrs and (kind in cg.ELEM_CTOR or (
                    bool(eff & cg.ELEM_CTOR) and not (eff & (cg.ELEM_ASSIGN | {'ELEM_SWAP'})) and not self.orc.writes_fields.get(name))):
                # destinations in a buffer allocated on this path: one such pointer = start of a
                # construction of unknown length; two = the [first, last) of a fill
                nb = [a for a in eptrs if any(r in allocs for r, co in a[2])]
                desc = where(ev, self.orc)
                if kind in cg.ELEM_CTOR:
                    if nb and nb[0] is eptrs[0]:
                        newbuf = newbuf | {(nb[0], lin_add(nb[0], L(self.s)), desc)}
                elif len(nb) == 1:
                    newbuf = newbuf | {(nb[0], None, desc)}
                elif len(nb) == 2:
                    newbuf = newbuf | {(nb[0], nb[1], desc)}
            return (cons, dest, dec, reptr, newbuf, allocs, freed)
        return rs

    def size_change(self, rs, obj, data, old, new, desc, f, eng):
        cons, dest, dec, reptr = rs
        bn = base_name(f.pretty)
        self.updates += 1
        if old is None:
            return (frozenset(), dest, dec, reptr)
        d = lin_sub(new, old)
        old_end = lin_add(data, lin_scale(old, self.s))
        new_end = lin_add(data, lin_scale(new, self.s))
        if d == sym.ZERO:
            # the size is stored with the value it had: nothing is covered or uncovered by it, and what
            # was constructed beyond it stays pending
            return (cons, dest, dec, reptr)
        neg = (d[1] <= 0 and all(c < 0 for a, c in d[2]) and (d[1] < 0 or d[2])) or const_of(new) == 0
        pos = d[1] >= 0 and all(c > 0 for a, c in d[2])
        if neg:
            return (frozenset(), dest, dec | {(obj, new_end, old_end, desc)}, reptr)
        # increase (or unknown direction): a construction starting at the old end must precede
        starts = [c for c in cons if c[0] == old_end]
        if starts:
            closed = [c for c in starts if c[1] is not None and single_atom(c[1]) is None or (c[1] is not None and c[1] == new_end)]
            exact = [c for c in starts if c[1] is not None and c[1] == new_end]
            known = [c for c in starts if c[1] is not None and not any(a[0] == 'ret' for a in sym.atoms_of(c[1]))]
            if known and not exact and pos:
                self._rep(f, 'size advanced by a different amount than was constructed', desc,
                          {'constructed_to': repr(known[0][1])[:200], 'new_end': repr(new_end)[:200]})
            else:
                if not exact:
                    self.order_only += 1
                self._ok(f, 'increase')
            return (frozenset(), dest, dec, reptr)
        if pos:
            self._rep(f, 'size advanced over storage in which nothing was constructed', desc,
                      {'old_end': repr(old_end)[:200], 'constructs': [c[2] for c in cons][:4]})
            return (frozenset(), dest, dec, reptr)
        # direction unknown (sizes exchanged): either a construction at the old end or a
        # destruction down to the new end must exist; checked at exit like a decrease
        return (frozenset(), dest, dec | {(obj, new_end, old_end, desc + ' (exchange)')}, reptr)

    def _ok(self, f, what):
        dk = (f.name, what)
        if dk not in self.reports:
            self.reports[dk] = Report('R06.3', True, None, sample={'function': base_name(f.pretty), 'update': what, 'config': self.cfg.name})

    def _rep(self, f, what, at, detail=None):
        bn = base_name(f.pretty)
        dk = (f.name, what, at or '')
        if dk in self.reports:
            return
        d = {'function': f.pretty[:300], 'config': self.cfg.name, 'file': 'source/include/gch/small_vector.hpp'}
        d.update(detail or {})
        self.reports[dk] = Report('R06.3', False, {'function': bn, 'defect': what},
                                  'R06.3: %s: %s (at %s) (%s)' % (bn, what, at or 'exit', self.cfg.name), d)

    def nonneg(self, t, eng=None):
        if t[1] < 0:
            return False
        neg = [(a, c) for a, c in t[2] if c < 0]
        if not neg:
            return True
        # (position parameter - data pointer on entry) is an offset into the buffer: non-negative
        if eng is not None and len(neg) == 1 and neg[0][1] == -1 and neg[0][0][0] == 'init' \
                and eng.field_tag.get(neg[0][0][1]) == 0:
            pos = [(a, c) for a, c in t[2] if c == 1 and a[0] == 'arg']
            if len(pos) >= 1:
                return all(c >= 0 for a, c in t[2] if (a, c) != neg[0])
        return False

    def on_exit(self, rs, kind, st, f, eng, rv=None):
        cons, dest, dec, reptr, newbuf, allocs, freed, _ = self.flush(rs, f, eng)
        if kind not in ('ret', 'unwind'):
            return
        if kind == 'unwind':
            bn = base_name(f.pretty)
            # (a) constructed behind the end, not yet covered by the size, and not destroyed
            if '*' not in reptr and not self.is_ctor:
                this = ((('arg', 0), 1),)
                if this not in reptr:
                    d, sz, end = self.cur_end(this, st, eng)
                    if end is not None:
                        for (start, e, desc) in cons:
                            # (a destruction of the empty range [x, x) destroys nothing)
                            if start == end and not any(a == start and b != a for (a, b) in dest):
                                dk = (f.name, 'uncommitted', desc)
                                if dk not in self.reports:
                                    self.reports[dk] = Report(
                                        'R06.3', False, {'function': bn, 'defect': 'elements constructed beyond size are abandoned when a later call throws'},
                                        'R06.3: %s: elements were constructed at the end of the container (%s) but the size had not been advanced '
                                        'when a later call threw, and the handler does not destroy them: they are never destroyed (%s)'
                                        % (bn, desc, self.cfg.name),
                                        {'function': f.pretty[:300], 'config': self.cfg.name, 'file': 'source/include/gch/small_vector.hpp'})
            # (b) elements constructed into a new buffer that is released on this path
            for (start, e, desc) in newbuf:
                if '*' in reptr or any(x[0] == 'loopvar' for x in sym.atoms_of(start)):
                    continue      # constructions inside loops are the self-cleaning helpers' business (R03.2)
                base = [r for r, co in start[2] if r in allocs]
                if not base or base[0] not in freed:
                    continue
                covered = False
                for (a, b) in dest:
                    opaque_end = any(x[0] == 'ret' and x not in allocs for x in sym.atoms_of(b))
                    if (a == start or (any(r == base[0] for r, co in a[2]) and self.nonneg(lin_sub(start, a), eng))) \
                            and (e is None or b == e or opaque_end or self.nonneg(lin_sub(b, e), eng)):
                        covered = True
                dk = (f.name, 'newbuf', desc, covered)
                if dk in self.reports:
                    continue
                if covered:
                    self.reports[dk] = Report('R03.6', True, None, sample={'function': bn, 'constructed': desc, 'config': self.cfg.name})
                else:
                    self.reports[dk] = Report(
                        'R03.6', False, {'function': bn, 'defect': 'element built in a new buffer is not destroyed before the buffer is released'},
                        'R03.6: %s: an element constructed in the newly allocated buffer (%s) is not covered by any destruction on the '
                        'exception path that releases that buffer: it is never destroyed (%s)' % (bn, desc, self.cfg.name),
                        {'function': f.pretty[:300], 'config': self.cfg.name, 'destroyed': [repr(x)[:150] for x in dest][:4],
                         'file': 'source/include/gch/small_vector.hpp'})
        for (obj, new_end, old_end, desc) in dec:
            if obj in reptr or '*' in reptr:
                continue
            ok = any(a == new_end and b == old_end for (a, b) in dest)
            if not ok and any(b == old_end and any(x[0] == 'ret' for x in sym.atoms_of(a)) for (a, b) in dest):
                # destroyed down from the old end, starting at the position an opaque algorithm
                # returned (move_left's result): the length is not a closed term
                self.order_only += 1
                ok = True
            if ok:
                self._ok(f, 'decrease')
            else:
                dk = (f.name, 'dec', desc)
                if dk not in self.reports:
                    self.reports[dk] = Report(
                        'R06.3', False, {'function': base_name(f.pretty), 'defect': 'size decreased without destroying the elements it no longer covers'},
                        'R06.3: %s: the size is decreased (at %s) but no destruction of exactly [new end, old end) is on the path: the '
                        'elements cut off are never destroyed (or others are) (%s)' % (base_name(f.pretty), desc, self.cfg.name),
                        {'function': f.pretty[:300], 'config': self.cfg.name, 'destroyed': [repr(x)[:150] for x in dest][:4],
                         'file': 'source/include/gch/small_vector.hpp'})


def analyse_tu(eng, cfg):
    if cfg.elem not in ESIZE:
        return {'reports': [], 'functions': 0, 'size_updates': 0, 'order_only': 0}
    orc = eng.oracle
    rule = SizeRule(eng, cfg)
    n = 0
    for f in irrules.maximal_roots(eng):
        if not orc.writes_fields.get(f.name):
            continue
        rule.is_ctor = irrules.is_ctor(f)
        if rule.is_ctor:
            continue
        n += 1
        eng.walk(f, [rule])
    return {'reports': list(rule.reports.values()), 'functions': n, 'size_updates': rule.updates,
            'order_only': rule.order_only}
