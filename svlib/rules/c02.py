"""C02 — storage invariants after every operation (DESIGN section 6, C02)."""
from .. import common, corpus, irrules


def assert_flavour(cfgs):
    """The same corpus compiled without NDEBUG: the header's own asserts become path facts."""
    out = []
    for c in cfgs:
        out.append(corpus.Cfg(c.elem, c.n, c.m, c.alloc, std=c.std, ndebug=False, sizet=c.sizet,
                              defines=c.defines))
    return out


def run(tier):
    ck = common.Check('C02', tier)
    cfgs = corpus.corpus(tier)
    # R02.1 / R02.2 on both flavours: NDEBUG (what users get) for R02.1, and the assert flavour,
    # in which `assert (get_capacity () <= other.get_capacity ())` etc. are available as facts
    res = corpus.run_over(assert_flavour(cfgs), 'svlib.rules.ir_pair', 'analyse_tu')
    irrules.aggregate(ck, res)
    res = [r for r in res if r['ok']]
    ck.floor('functions writing container words (summed over TUs)', sum(r['res']['functions'] for r in res),
             1000 if tier == 'quick' else 10000)
    ck.floor('exits at which a (pointer, capacity) pair was checked', sum(r['res']['writer_exits'] for r in res),
             300 if tier == 'quick' else 3000)
    ck.floor('functions containing a buffer hand-over', sum(r['res']['steal_functions'] for r in res),
             40 if tier == 'quick' else 400)
    # R02.5 also on the NDEBUG flavour: with asserts on, a path that violates an internal consistency
    # assert ends in __assert_fail and is not a returning path; what users run has no such cut
    # The same for R02.1 (the pair written must be consistent whatever an assert would have said);
    # R02.2 needs the asserts as facts (swap_default) and stays on the assert flavour only.
    res2 = corpus.run_over(cfgs, 'svlib.rules.ir_pair', 'analyse_tu')
    for r in res2:
        if r['ok']:
            r['res']['reports'] = [x for x in r['res']['reports'] if x.rule in ('R02.1', 'R02.5')]
    irrules.aggregate(ck, res2)
    ck.floor('returning paths of shrink_to_fit judged (NDEBUG flavour)', sum(r['res']['shrink_paths'] for r in res2 if r['ok']),
             30 if tier == 'quick' else 300)
    # R04.6 (ir_steal): "data () is a block of an allocator equal to get_allocator ()" - a heap buffer changes
    # owner only together with its allocator or between allocators that compared equal / are always equal
    res6 = corpus.run_over(cfgs, 'svlib.rules.ir_steal', 'analyse_tu')
    for r in res6:
        if r['ok']:
            r['res']['reports'] = [x for x in r['res']['reports'] if x.rule == 'R04.6']
    irrules.aggregate(ck, res6)
    irrules.run_canaries(ck, {'ir_pair': [('R02.1', 'canary_unpaired'), ('R02.2', 'canary_steal_unguarded')]},
                         silent=('canary_ok_alloc',), assert_flavour=True)
    for part in ('c02_observers',):
        try:
            mod = __import__('svlib.rules.' + part, fromlist=['collect'])
        except ImportError:
            ck.note('part %s not available' % part)
            continue
        mod.collect(ck, tier)
    ck.assumptions += ['clang 14 -O0 lowering; struct layouts computed from the module\'s own type definitions',
                       'the header\'s assert()s hold at function entry (they are the callers\' obligations)',
                       'summary inlining bound as in C04']
    ck.finish(
        'R02.1/R06.5: at every normal and exceptional exit of every instantiated gch:: function, each container whose '
        'm_data_ptr or m_capacity was written ends with a (pointer, capacity) pair of matching provenance (inline buffer + '
        'constant, allocation result + its count, both words of one other container, or unchanged). R02.2: every buffer '
        'hand-over happens on a path whose conditions imply capacity(source) > InlineCapacity(destination). R04.6: a heap buffer changes '
        'owner only together with its allocator or between allocators that compared equal (so data () stays a block of an allocator '
        'equal to get_allocator ()). R02.6/R02.3: '
        'observers reduce (clang -O2 normal forms) to the stated formulas over the three words. Not decided: liveness of '
        'the block data() points to (see C04) and size <= capacity beyond C10\'s guard-commit rule.')
