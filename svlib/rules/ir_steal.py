"""C09 rules: moves and swaps steal heap buffers without touching elements, steal whenever
permitted, and leave a clean source.

R09.1  on a path that adopts another container's buffer, no call that can construct, assign,
       move, swap or destroy elements receives a pointer based on that buffer.
R09.2  a path that transfers elements one by one from another container carries evidence that
       stealing was not permitted: capacity(source) <= K for K the destination's or the source's
       inline capacity (source not heap / buffer too small), or an allocator inequality.
R09.3  after a steal by a move operation the source's words are the inline representation and its
       size is 0.
"""
import re

from .. import sym, cg, irrules
from ..sym import const_of, single_atom, atom
from ..irrules import Report, base_name, obj_of, where
from .ir_pair import PairRule, class_n, init_of
from .ir_bounds import cmp_atom
from .ir_growth import is_public, versioned

THIS = ((('arg', 0), 1),)
ELEM = cg.ELEM_ANY


def all_ns(f):
    return set(int(x) for x in re.findall(r'small_vector(?:_base)?<[^()]*?(\d+)u', f.pretty or '')) | \
        set(int(x) for x in re.findall(r', (\d+)u[,>]', f.pretty or ''))


class StealRule(PairRule):
    name = 'R09'

    def __init__(self, eng, cfg, ctor_ctx):
        PairRule.__init__(self, eng, cfg, ctor_ctx)
        self.steal_paths = 0
        self.elementwise_paths = 0
        self.public = False

    def init(self, f, eng):
        self.awrites = set()
        return (frozenset(), frozenset(), frozenset(), frozenset())   # written, allocs, touches, eqrets

    def on_event(self, rs, ev, st, f, eng):
        written, allocs, touches, eqrets = rs
        if ev.kind == 'store' and ev.field in (0, 1, 2):
            return (written | {obj_of(ev.addr)}, allocs, touches, eqrets)
        if ev.kind in ('call', 'throw') and ev.callee:
            k = self.orc.kind.get(ev.callee)
            if k == 'ALLOC' and ev.kind == 'call' and ev.args and len(ev.args) >= 2:
                return (written, allocs | {(ev.ret, ev.args[1])}, touches, eqrets)
            if k in ('ALLOC_EQ', 'ALLOC_NE') and ev.ret is not None:
                return (written, allocs, touches, eqrets | {(single_atom(ev.ret), k)})
            if k in ('ALLOC_COPY_ASSIGN', 'ALLOC_MOVE_ASSIGN', 'ALLOC_SWAP', 'ALLOC_MOVE', 'ALLOC_COPY') and len(ev.args) >= 2 and ev.kind == 'call':
                # recorded as a pseudo "touch" so that it travels with the path state
                return (written, allocs, touches | {(frozenset([obj_of(ev.args[0]), obj_of(ev.args[1])]), 'ALLOCATOR:' + k, False)}, eqrets)
            eff = self.orc.effects.get(ev.callee, frozenset())
            if (eff & ELEM) or k in ELEM:
                bases = set()
                for a in ev.args or ():
                    if not sym.is_lin(a):
                        continue
                    for r, c in a[2]:
                        if r[0] == 'init' and len(r) == 2 and eng.field_tag.get(r[1]) == 0:
                            bases.add(r[1][2])
                if bases:
                    desc = '%s at %s' % (base_name(self.orc.pretty.get(ev.callee, ev.callee)), where(ev, self.orc))
                    ctor_like = bool(eff & (cg.ELEM_CTOR | cg.ELEM_ASSIGN | {'ELEM_SWAP'}))
                    return (written, allocs, touches | {(frozenset(bases), desc, ctor_like)}, eqrets)
        if ev.kind == 'havoc' and written and ev.args:
            keep = frozenset(o for o in written if not any(a in ev.args for a, c in o))
            return (keep, allocs, touches, eqrets)
        return rs

    def check_allocator(self, stolen_from, touches, eqrets, st, f):
        """R04.6: a buffer changes owner only together with its allocator, or between containers
        whose allocators are interchangeable (compared equal on the path, always equal)."""
        bits = self.cfg.alloc
        if bits == 'std' or (bits & 8):
            return
        bn = base_name(f.pretty)
        for dst, src in stolen_from.items():
            moved = any(d.startswith('ALLOCATOR:') and dst in b and src in b for (b, d, cl) in touches)
            equal = False
            tested = False
            for (c, v) in st.conds:
                pos, pol = sym.strip_not(c)
                a = single_atom(pos)
                for (ea, ek) in eqrets:
                    if a is not None and a == ea:
                        tested = True
                        val = v if pol else (not v)
                        if (ek == 'ALLOC_EQ' and val) or (ek == 'ALLOC_NE' and not val):
                            equal = True
            ok = moved or equal
            if not ok and not self.public and not tested:
                continue     # decided by a caller (run-time equality test / overload selection)
            dk = ('R04.6', f.name, repr(dst)[:40], ok)
            if dk in self.reports:
                continue
            if ok:
                self.reports[dk] = Report('R04.6', True, None,
                                          sample={'function': bn, 'evidence': 'allocator transferred' if moved else 'allocators compared equal',
                                                  'config': self.cfg.name})
            else:
                self.reports[dk] = Report(
                    'R04.6', False, {'function': bn, 'defect': 'buffer changes owner without its allocator'},
                    'R04.6: %s hands a heap buffer from one container to another on a path where the allocators were neither '
                    'exchanged/assigned nor compared equal: the block will be released through an allocator that did not produce it (%s)'
                    % (bn, self.cfg.name),
                    {'function': f.pretty[:300], 'config': self.cfg.name, 'file': 'source/include/gch/small_vector.hpp'})

    def words(self, obj, st, eng):
        P = C = S = None
        pa = ca = sa = None
        for a, k in eng.field_tag.items():
            if a[2] == obj:
                if k == 0:
                    pa = a
                elif k == 1:
                    ca = a
                elif k == 2:
                    sa = a
        if pa is not None:
            P = st.mem.get(pa)
        if ca is not None:
            C = st.mem.get(ca)
        if sa is not None:
            S = st.mem.get(sa)
        return P, C, S, pa, ca, sa

    def on_exit(self, rs, kind, st, f, eng, rv=None):
        if kind != 'ret':
            return
        written, allocs, touches, eqrets = rs
        bn = base_name(f.pretty)
        stolen_from = {}
        for obj in written:
            P, C, S, pa, ca, sa = self.words(obj, st, eng)
            if P is None or C is None or versioned(P) or versioned(C):
                continue
            cls, why = self.classify(obj, P, C, pa, ca, allocs, st, f, eng)
            if cls == 'stolen':
                stolen_from[obj] = why
        is_swap = len(stolen_from) == 2 and all(stolen_from.get(s) == d for d, s in stolen_from.items())
        if stolen_from:
            self.steal_paths += 1
            self.check_allocator(stolen_from, touches, eqrets, st, f)
            for dst, src in stolen_from.items():
                # R09.1
                bad = [d for (bases, d, cl) in touches if src in bases and not d.startswith('ALLOCATOR:')]
                dk = ('R09.1', f.name, repr(src), bool(bad))
                if dk not in self.reports:
                    if bad:
                        self.reports[dk] = Report(
                            'R09.1', False, {'function': bn, 'defect': 'element operation on a transferred buffer'},
                            'R09.1: %s adopts another container\'s buffer but also runs element operations on that buffer (%s) (%s)'
                            % (bn, bad[0], self.cfg.name),
                            {'function': f.pretty[:300], 'config': self.cfg.name, 'operations': bad[:5],
                             'file': 'source/include/gch/small_vector.hpp'})
                    else:
                        self.reports[dk] = Report('R09.1', True, None,
                                                  sample={'function': bn, 'steal': 'swap' if is_swap else 'move',
                                                          'config': self.cfg.name})
                # R09.3
                P, C, S, pa, ca, sa = self.words(src, st, eng)
                dsz = [a for a, k in eng.field_tag.items() if k == 2 and a[2] == dst]
                exchange = is_swap or (S is not None and dsz and S == atom(('init', dsz[0])))
                if not exchange:
                    ok = P is not None and C is not None and S is not None and const_of(C) is not None \
                        and const_of(S) == 0 and (P[2] == src or (const_of(P) == 0 and const_of(C) == 0))
                    dk = ('R09.3', f.name, repr(src), ok)
                    if dk not in self.reports:
                        if ok:
                            self.reports[dk] = Report('R09.3', True, None, sample={'function': bn, 'config': self.cfg.name})
                        elif src in written or self.public:
                            self.reports[dk] = Report(
                                'R09.3', False, {'function': bn, 'defect': 'source not reset after its buffer was taken'},
                                'R09.3: %s takes another container\'s buffer and returns without putting the source back into the '
                                'empty inline representation (%s)' % (bn, self.cfg.name),
                                {'function': f.pretty[:300], 'config': self.cfg.name,
                                 'source_words': [repr(x)[:120] for x in (P, C, S)],
                                 'file': 'source/include/gch/small_vector.hpp'})
            return
        # no steal on this path: element-wise transfer from another container?
        others = set()
        for (bases, d, cl) in touches:
            if cl:
                others |= set(b for b in bases)
        # a buffer of another container (a parameter other than *this) is read or written element-wise
        others = [o for o in others if o != THIS and any(a[0] == 'arg' for a, c in o)]
        if not others:
            return
        self.elementwise_paths += 1
        # evidence that stealing was not permitted for at least one direction
        ns = all_ns(f)
        why = None
        tested = False
        from .ir_bounds import facts
        for (kind, x, y) in facts(st):
            # capacity(source) <= K  (spelled `!(K < cap)` or `cap <= K`)
            if kind == 'le' and const_of(y) is not None and const_of(y) in ns:
                i = init_of(x)
                if i and eng.field_tag.get(i[0]) == 1 and i[0][2] in others:
                    why = 'capacity(source) <= %d' % const_of(y)
        for (c, v) in st.conds:
            pos, pol = sym.strip_not(c)
            sa_ = single_atom(pos)
            for (ea, ek) in eqrets:
                if sa_ is not None and sa_ == ea:
                    tested = True
                    val = v if pol else (not v)
                    if (ek == 'ALLOC_EQ' and val is False) or (ek == 'ALLOC_NE' and val is True):
                        why = why or 'allocators compared unequal'
        if why is None and not self.public and not tested:
            return     # the decision was taken by a caller; judged where this function is expanded
        dk = ('R09.2', f.name, why is None)
        if dk in self.reports:
            return
        if why is not None:
            self.reports[dk] = Report('R09.2', True, None, sample={'function': bn, 'evidence': why, 'config': self.cfg.name})
        else:
            self.reports[dk] = Report(
                'R09.2', False, {'function': bn, 'defect': 'element-wise transfer where stealing may be permitted'},
                'R09.2: %s transfers elements one by one between two containers on a path without evidence that the source is '
                'inline / too small / owned by an unequal allocator (%s)' % (bn, self.cfg.name),
                {'function': f.pretty[:300], 'config': self.cfg.name,
                 'conditions': [repr(c)[:150] + '=' + str(v) for c, v in st.conds][-8:],
                 'file': 'source/include/gch/small_vector.hpp'})


def analyse_tu(eng, cfg):
    orc = eng.oracle
    rule = StealRule(eng, cfg, irrules.constructor_context(eng))
    pub = []
    for f in irrules.gch_roots(eng):
        bn = base_name(f.pretty)
        args = f.pretty[f.pretty.find('('):]
        if is_public(f) and (bn in ('swap',) or (bn in ('small_vector::small_vector', 'operator=', 'assign')
                                                   and 'small_vector<' in args and '&&' in args)):
            pub.append(f)
        elif bn == 'swap' and f.pretty.startswith('void gch::swap<'):
            pub.append(f)
    reach = set()
    work = [f.name for f in pub]
    while work:
        x = work.pop()
        if x in reach:
            continue
        reach.add(x)
        for (cn, lb, ins) in orc._calls.get(x, ()):
            g = eng.mod.funcs.get(cn)
            if g is not None and orc.is_gch(cn) and not irrules.is_dtor(g):
                work.append(cn)
    if getattr(cfg, 'canary', False):
        reach |= set(f.name for f in irrules.gch_roots(eng) if 'canary_' in (f.pretty or ''))
    n = 0
    for name in sorted(reach):
        f = eng.mod.funcs[name]
        if not orc.writes_fields.get(name):
            continue
        rule.public = is_public(f) or f.pretty.startswith('void gch::swap<')
        n += 1
        eng.walk(f, [rule])
    return {'reports': list(rule.reports.values()), 'roots': n, 'steal_paths': rule.steal_paths,
            'elementwise_paths': rule.elementwise_paths}
