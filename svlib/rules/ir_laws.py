"""C01 (structural clauses) - operation laws over IR.

What is decided: for every public member operation, on every normal-return path the engine can
follow to the end, the *element count* and the *returned position* are the ones std::vector
specifies, as a linear form over what the caller passed and the container held on entry:

R01.1  size law      size() after the call  ==  spec(op)(size before, arguments)
                     (push_back: +1, insert(pos, n, v): +n, erase(first, last): -(last-first),
                      resize(n): n, assign(n, v): n, clear: 0, copy/move: size of the source, ...)
R01.2  position law  the returned iterator/reference, taken relative to data() after the call, is
                     the spec's offset:  insert/emplace/erase return the position of `pos`/`first`
                     (rv - data_after == pos - data_before), append returns the old end,
                     emplace_back returns the new last element, operator= returns *this.
R01.3  at()          returns data()[i] on paths on which i < size() is established and raises
                     std::out_of_range on the paths on which it is refuted.

What is NOT decided: element values and their order (run-time data), and the laws of overloads
whose count is not a linear form of the arguments (single-pass ranges).

Method (compositional, no table of internal helper names): a function the engine cannot expand
(loops / large) gets an inferred *law* - its final size and its result relative to the final data
pointer as terms over its own arguments and entry state - when ALL its normal exits agree modulo
the linear equalities established on each path (rational Gaussian elimination over atoms; no
solver).  Laws are applied at call sites in callers, bottom-up, up to the public entry points,
where the result is compared with the spec table below.  Leaf loops (`for (; first != last; ++first,
++d) construct (d, *first); return d;`) are handled by co-induction variables in the engine
(sym.Engine._coind_*): variables that advance by a constant per iteration are tied to one iteration
count, the inductive step is checked on the generic iteration, and the exit test `first == last`
then determines the count.  The standard library's copy/move loops count down a signed integer;
their specified results (`std::move(f, l, d) == d + (l - f)` etc.) are the only trusted models.
"""
import re
from fractions import Fraction

from .. import sym, irrules
from ..sym import const_of, single_atom, atom, L, lin_sub, lin_add, lin_scale, subst, atoms_of
from ..irrules import Report, base_name, obj_of
from .ir_bounds import facts
from .ir_strong import split_params
from .ir_growth import is_public

THIS = ((('arg', 0), 1),)
import os
DEBUG = bool(os.environ.get('SV_LAWS_DEBUG'))


# ---------------------------------------------------------------------------------------------
# linear reasoning
# ---------------------------------------------------------------------------------------------
def clean(t):
    """Only entry atoms: arguments and the unversioned initial contents of cells addressed by them."""
    if t is None:
        return False
    for a in atoms_of(t):
        tag = a[0]
        if tag == 'arg' or tag in ('divx', 'cmp', 'not'):
            continue
        if tag == 'init' and len(a) == 2:
            continue
        return False
    return True


def path_eqs(st):
    out = []
    for (c, v) in st.conds:
        a = single_atom(c)
        if a is not None and a[0] == 'cmp' and a[1] == 'eq' and v:
            out.append(lin_sub(a[2], a[3]))
    les = set()
    for (k, x, y) in facts(st):
        if k == 'le':
            les.add((x, y))
    for (x, y) in les:
        if const_of(y) == 0:
            out.append(x)                     # unsigned x <= 0
        elif (y, x) in les:
            out.append(lin_sub(x, y))
    return out


def _vec(t):
    d = {}
    if t[1]:
        d[None] = Fraction(t[1])
    for at, c in t[2]:
        d[at] = Fraction(c)
    return d


def in_span(target, eqs):
    """Is the linear form `target` a rational combination of the forms in eqs (all known == 0)?"""
    if const_of(target) == 0:
        return True
    rows = [_vec(e) for e in eqs if const_of(e) is None]
    tv = _vec(target)
    # eliminate
    basis = []       # (pivot key, row)
    for r in rows:
        r = dict(r)
        for (pk, br) in basis:
            if pk in r:
                f = r[pk] / br[pk]
                for k, v in br.items():
                    nv = r.get(k, 0) - f * v
                    if nv == 0:
                        r.pop(k, None)
                    else:
                        r[k] = nv
        keys = [k for k in r if k is not None]
        if not keys:
            continue
        pk = sorted(keys, key=repr)[0]
        basis.append((pk, r))
    r = dict(tv)
    for (pk, br) in basis:
        if pk in r:
            f = r[pk] / br[pk]
            for k, v in br.items():
                nv = r.get(k, 0) - f * v
                if nv == 0:
                    r.pop(k, None)
                else:
                    r[k] = nv
    return not r


def reduce_by(target, eqs):
    """Use each equality that determines an argument (coefficient +-1) as a substitution, also inside
    nested atoms (exact quotients, cell addresses): `first == last` makes (last - first) / k vanish,
    `&other == this` makes other's cells this's cells."""
    eqs0 = list(eqs)
    eqs = []
    for e in eqs0:
        eqs.append(e)
        for at, c in e[2]:
            if at[0] == 'divx':
                eqs.append(lin_scale(e, at[2]))      # k * (X / k) == X for an exact quotient
    for i in range(len(eqs)):
        e = eqs[i]
        pick = None
        for at, c in e[2]:
            if c in (1, -1) and at[0] == 'arg' and (pick is None or at[1] > pick[0][1]):
                pick = (at, c)
        if pick is None:
            continue
        at, c = pick
        repl = lin_scale(lin_sub(e, ('L', 0, ((at, c),))), -c)
        if at in atoms_of(repl):
            continue

        def f(a, at=at, repl=repl):
            return repl if a == at else None
        target = subst(target, f, {})
        eqs = [subst(x, f, {}) for x in eqs]
    out = []
    for e in eqs:
        if const_of(e) is not None:
            continue
        out.append(e)
        for at, c in e[2]:
            if at[0] == 'divx':
                out.append(lin_scale(e, at[2]))      # k * (X / k) == X for an exact quotient
    return target, out


def same(a, b, eqs):
    if a is None or b is None:
        return False
    d = sym.canon_divx_sign(lin_sub(a, b))
    if const_of(d) == 0:
        return True
    d, eqs = reduce_by(d, [sym.canon_divx_sign(e) for e in eqs])
    d = sym.canon_divx_sign(d)
    if const_of(d) == 0:
        return True
    return in_span(d, [sym.canon_divx_sign(e) for e in eqs])


# ---------------------------------------------------------------------------------------------
# trusted models: results the C++ standard specifies for the library's own copy loops
# ---------------------------------------------------------------------------------------------
STD_MODELS = [
    # (regex on the demangled name of the opaque callee, index triple (first, last, dest), direction)
    (re.compile(r'^\S* ?std::__copy_move<[^>]*>::__copy_m<'), (0, 1, 2), +1),
    (re.compile(r'^\S* ?std::__copy_move_backward<[^>]*>::__copy_move_b<'), (0, 1, 2), -1),
]


class Law(object):
    """What a call of a function the engine cannot expand does to the container words of its first
    two arguments, what it returns and which element operations it performs.  `alts` is a list of
    cases (one when all normal exits agree):
      case = {'size': {k: term}, 'ret': ('abs', t) | ('rel', k, rho) | None,
              'effects': tuple of range effects | None (unknown), 'dataf': {k: final data term},
              'conds': ((cond, bool), ...)}
    `keep[k]` = field tags of object k that are unchanged on every exit."""
    __slots__ = ('name', 'cells', 'keep', 'alts', 'exits', 'why')

    def __init__(self, name):
        self.name = name
        self.cells = {}       # arg index k -> {tag: address term (callee's terms)}
        self.keep = {}
        self.alts = []
        self.exits = 0
        self.why = ''


MAX_ALTS = 16
MAX_COMBOS = 64
ELEM_EFFECTS = ('ELEM_COPY', 'ELEM_MOVE', 'ELEM_DEFAULT', 'ELEM_CONV', 'ELEM_COPY_ASSIGN', 'ELEM_MOVE_ASSIGN',
                'ELEM_CONV_ASSIGN', 'ELEM_DTOR', 'ELEM_SWAP')

# A range effect: (what, how, a, b, srckind, sa, sb, direction)
#   what in construct/assign/destroy/swap, how in copy/move/default/conv/'' ;
#   [a, b) destination bytes; srckind None | 'fill' (sa = the one source object) | 'range' ([sa, sb));
#   direction +1 ascending / -1 descending order of the element-wise operation.


def eff_subst(e, f):
    (what, how, a_, b_, sk, sa, sb, d) = e
    return (what, how, subst(a_, f, {}), subst(b_, f, {}), sk,
            subst(sa, f, {}) if sa is not None else None, subst(sb, f, {}) if sb is not None else None, d)


def eff_empty(e, eqs):
    return e[3] is not None and same(e[2], e[3], eqs)


def same_opt(a, b, eqs):
    if a is None or b is None:
        return a is None and b is None
    return same(a, b, eqs)


def effects_same(E, C, eqs):
    """Is the effect list C, read under the equalities eqs, the list E (empty ranges dropped)?"""
    if E is None or C is None:
        return E is None and C is None
    E2 = [e for e in E if not eff_empty(e, eqs)]
    C2 = [e for e in C if not eff_empty(e, eqs)]
    if len(E2) != len(C2):
        return False
    for x, y in zip(E2, C2):
        if x[0] != y[0] or x[1] != y[1] or x[4] != y[4]:
            return False
        if not (same(x[2], y[2], eqs) and same_opt(x[3], y[3], eqs)):
            return False
        if x[4] is not None and not same(x[5], y[5], eqs):
            return False
        if x[4] == 'range' and not same_opt(x[6], y[6], eqs):
            return False
    return True


def solve_for(at, eqs):
    """at == term, from one of the equalities (all == 0) that mentions the atom linearly."""
    for e in eqs:
        for a, c in e[2]:
            if a == at:
                rest = lin_sub(e, ('L', 0, ((at, c),)))
                if at in atoms_of(rest):
                    continue
                return sym.mk_divx(lin_scale(rest, -1), c) if c > 0 else sym.mk_divx(rest, -c)
    return None


def finalize_ops(ops, loop_gen, fname, eqs, itmap=None):
    """Operation records of one path -> list of range effects, or None when something on the path
    is not understood (an opaque callee that may touch elements, a loop without a regular body)."""
    out = []
    i = 0
    n = len(ops)
    while i < n:
        op = ops[i]
        tag = op[0]
        if tag == 'unknown':
            return None
        if tag == 'eff':
            if op[1] is None:
                return None
            out.extend(op[1])
            i += 1
            continue
        if tag == 'prim':
            _, what, how, dst, src = op
            out.append((what, how, dst, None, 'fill' if src is not None else None, src, None, 1))
            i += 1
            continue
        if tag == 'bytes':
            _, fn, dst, src, nb = op
            if fn == 'memset':
                out.append(('bytefill', '', dst, lin_add(dst, nb), None, None, None, 1))
            else:
                out.append(('bytecopy', fn, dst, lin_add(dst, nb), 'range', src, lin_add(src, nb), 0))
            i += 1
            continue
        if tag == 'approx':
            i += 1
            continue
        if tag == 'lr':
            return None          # re-entry without its head on this path: not understood
        if tag == 'lh':
            hdr = op[1]
            j = None
            for k in range(i + 1, n):
                if ops[k][0] == 'lr' and ops[k][1] == hdr:
                    j = k
                    break
                if ops[k][0] == 'lh' and ops[k][1] == hdr:
                    break
            if j is None:
                i += 1           # no complete iteration: what follows is straight-line code
                continue
            first = ops[i + 1:j]
            gens = loop_gen.get((fname, hdr))
            if not gens or len(gens) != 1:
                return None
            gen = list(gens)[0]
            if len(gen) != len(first) or any(o[0] != 'prim' for o in first) or any(o[0] != 'prim' for o in gen):
                return None
            kappa = ('iter', fname, hdr)
            K = (itmap or {}).get(kappa)
            if K is None:
                K = solve_for(kappa, eqs)
            if K is None:
                return None
            zero = lambda a: sym.ZERO if a == kappa else None
            for fo, go in zip(first, gen):
                if fo[1] != go[1] or fo[2] != go[2]:
                    return None
                if subst(go[3], zero, {}) != fo[3]:
                    return None
                if (go[4] is None) != (fo[4] is None) or (go[4] is not None and subst(go[4], zero, {}) != fo[4]):
                    return None
                bd = dict(go[3][2]).get(kappa, 0)
                if bd == 0 or kappa in atoms_of(lin_sub(go[3], ('L', 0, ((kappa, bd),)))):
                    return None
                a0 = fo[3]
                if bd > 0:
                    ra, rb, d = a0, lin_add(a0, lin_scale(K, bd)), 1
                else:
                    ra, rb, d = lin_add(a0, lin_scale(lin_sub(K, L(1)), bd)), lin_add(a0, L(-bd)), -1
                if go[4] is None:
                    out.append((fo[1], fo[2], ra, rb, None, None, None, d))
                    continue
                sd = dict(go[4][2]).get(kappa, 0)
                if kappa in atoms_of(lin_sub(go[4], ('L', 0, ((kappa, sd),)))):
                    return None
                s0 = fo[4]
                if sd == 0:
                    out.append((fo[1], fo[2], ra, rb, 'fill', s0, None, d))
                elif (sd > 0) != (bd > 0):
                    return None
                elif sd > 0:
                    out.append((fo[1], fo[2], ra, rb, 'range', s0, lin_add(s0, lin_scale(K, sd)), d))
                else:
                    out.append((fo[1], fo[2], ra, rb, 'range', lin_add(s0, lin_scale(lin_sub(K, L(1)), sd)), lin_add(s0, L(-sd)), d))
            i = j + 1
            continue
        i += 1
    return tuple(out)


class Laws(object):
    """Inference and application of laws; one per engine (TU)."""

    def __init__(self, eng, cfg):
        self.eng = eng
        self.cfg = cfg
        self.orc = eng.oracle
        self.memo = {}
        self.in_progress = set()
        self.stats = {'laws': 0, 'multi_case_laws': 0, 'no_law': 0, 'restarts': 0, 'laws_with_effects': 0}
        self.stride = None
        self.ledgered_unwind = 0
        self.unwind_reports = {}

    def may_touch_elements(self, name):
        if name is None:
            return True
        if name not in self.eng.mod.funcs:
            # an undefined external that is not an element primitive (allocator, iterator, ...)
            return False
        return bool(self.orc.effects.get(name, frozenset()) & set(ELEM_EFFECTS)) or name.startswith('llvm.mem')

    def unwind_ledger(self, ex, f):
        """R03.8 (reported under C03): on an exceptional exit of any function compiled from the header,
        whatever was constructed in a block obtained on the path that is not a container's buffer
        afterwards has been destroyed exactly - the destructions that follow tile the constructions in
        that block.  (Elements a throwing helper built itself are that helper's business: its own walk.)"""
        effs = ex['effects']
        if effs is None or ex.get('approx') or self.stride is None:
            return
        s = self.stride
        eqs = ex['eqs']
        keep = set()
        for obj, cs in ex['cells'].items():
            if 0 in cs:
                d = ex['val'](cs[0])
                if d is not None and sym.is_lin(d):
                    keep |= set(at for at, co in d[2])
        blocks = {}
        for i_, e in enumerate(effs):
            if e[0] not in ('construct', 'destroy') or not sym.is_lin(e[2]):
                continue
            roots = [at for at, co in e[2][2] if at[0] in ('ret', 'newbuf')]
            if len(roots) != 1 or roots[0] in keep:
                continue
            b_ = e[3] if e[3] is not None else lin_add(e[2], L(s))
            if same(e[2], b_, eqs):
                continue
            blocks.setdefault(roots[0], {'construct': [], 'destroy': []})[e[0]].append([e[2], b_, False, i_])
        bn = base_name(f.pretty)

        def rd(t):
            r = re.sub(r"'_Z[^']*'", "'fn'", repr(t))
            return r[:160]
        for root, bd in blocks.items():
            if not bd['construct']:
                continue
            self.ledgered_unwind += 1
            bad = None
            # every destruction is tiled by constructions that precede it (one destroy_range may cover
            # several constructed pieces), and no construction is left over
            for d_ in bd['destroy']:
                cur = d_[0]
                steps = 0
                while not same(cur, d_[1], eqs) and steps < 8:
                    steps += 1
                    nx = None
                    for c_ in bd['construct']:
                        if not c_[2] and c_[3] < d_[3] and same(c_[0], cur, eqs):
                            nx = c_
                            break
                    if nx is None:
                        bad = 'destroyed-not-constructed'
                        break
                    nx[2] = True
                    cur = nx[1]
                if bad:
                    break
            if bad is None and [c_ for c_ in bd['construct'] if not c_[2]]:
                bad = 'constructed-not-destroyed'
            dk = (f.name, bad)
            if dk in self.unwind_reports:
                continue
            if bad is None:
                self.unwind_reports[dk] = Report('R03.8', True, None, sample={'function': bn, 'config': self.cfg.name})
            else:
                what = ('elements constructed in a block obtained on the path are not all destroyed before the exception leaves'
                        if bad == 'constructed-not-destroyed' else
                        'the destructions in a block obtained on the path do not match what was constructed there (a range is '
                        'destroyed that is not exactly made of constructed pieces)')
                self.unwind_reports[dk] = Report(
                    'R03.8', False, {'function': bn, 'defect': what},
                    'R03.8: %s: on an exceptional exit %s (%s)' % (bn, what, self.cfg.name),
                    {'function': f.pretty[:300], 'function_line': f.src_line, 'config': self.cfg.name,
                     'file': 'source/include/gch/small_vector.hpp',
                     'constructed': [[rd(x[0]), rd(x[1])] for x in bd['construct']][:4],
                     'destroyed': [[rd(x[0]), rd(x[1])] for x in bd['destroy']][:4]})

    # -- inference --------------------------------------------------------------------------
    def law(self, name):
        if name in self.memo:
            return self.memo[name]
        f = self.eng.mod.funcs.get(name)
        if f is None or name in self.in_progress:
            return None
        pretty = self.orc.pretty.get(name, '') or (f.pretty or '')
        for (rx, (i0, i1, i2), sgn) in STD_MODELS:
            if rx.search(pretty) and len(f.params) >= 3:
                lw = Law(name)
                A0, A1, A2 = atom(('arg', i0)), atom(('arg', i1)), atom(('arg', i2))
                d = lin_sub(A1, A0)
                how = 'move' if re.search(r'__copy_move(_backward)?<true', pretty) else 'copy'
                if sgn > 0:
                    eff = ('assign', how, A2, lin_add(A2, d), 'range', A0, A1, 1)
                else:
                    eff = ('assign', how, lin_sub(A2, d), A2, 'range', A0, A1, -1)
                lw.alts = [{'size': {}, 'ret': ('abs', lin_add(A2, lin_scale(d, sgn))), 'conds': (),
                            'effects': (eff,), 'dataf': {}}]
                lw.why = 'standard-library model'
                self.memo[name] = lw
                return lw
        if not f.params or not f.blocks or not (self.orc.is_gch(name) or self.may_touch_elements(name)):
            self.memo[name] = None
            return None
        self.in_progress.add(name)
        try:
            lw = self._infer(f)
        finally:
            self.in_progress.discard(name)
        self.memo[name] = lw
        if lw is None:
            self.stats['no_law'] += 1
        else:
            self.stats['laws'] += 1
            if len(lw.alts) > 1:
                self.stats['multi_case_laws'] += 1
            if all(a['effects'] is not None for a in lw.alts):
                self.stats['laws_with_effects'] += 1
        return lw

    def walk(self, f, rule_factory):
        """Walk f with a fresh rule; repeat when an induction assumption is withdrawn."""
        eng = self.eng
        for _ in range(12):
            rule = rule_factory()
            old = (eng.coind, eng.precall_hook)
            eng.coind = True
            eng.precall_hook = self.precall
            try:
                eng.walk(f, [rule], path_limit=4000)
                rule.finish(f)
                return rule
            except sym.RestartWalk:
                self.stats['restarts'] += 1
                continue
            finally:
                eng.coind, eng.precall_hook = old
        return None

    def _infer(self, f):
        from .. import common
        try:
            rule = self.walk(f, lambda: LawRule(self, None))
        except common.AnalysisBroken:
            return None
        if rule is None or not rule.exits:
            return None
        exits = rule.exits
        lw = Law(f.name)
        lw.exits = len(exits)
        objs = []
        for k in (0, 1):
            obj = ((('arg', k), 1),)
            cells = {}
            for ex in exits:
                for tag, addr in ex['cells'].get(obj, {}).items():
                    cells[tag] = addr
            if not cells:
                continue
            lw.cells[k] = cells
            keep = set()
            for tag in (0, 1, 2):
                if tag in cells:
                    init = atom(('init', cells[tag]))
                    if all(ex['val'](cells[tag]) == init for ex in exits):
                        keep.add(tag)
            lw.keep[k] = keep
            objs.append((k, obj, cells))

        def unify(vals):
            """-> one term all exits agree on (modulo their path equalities), or None"""
            cands = []
            for v in vals:
                if clean(v) and v not in cands:
                    cands.append(v)
            # prefer the candidate that mentions the most atoms (size + count rather than size + 1)
            cands.sort(key=lambda t: (-len(t[2]), repr(t)))
            for c in cands:
                if all(same(v, c, ex['eqs']) for v, ex in zip(vals, exits)):
                    return c
            return None
        # per-exit description
        descr = []
        for ex in exits:
            d = {'size': {}, 'ret': None, 'dataf': {}}
            for (k, obj, cells) in objs:
                if 2 in cells and 2 not in lw.keep[k]:
                    d['size'][k] = ex['val'](cells[2])
                if 0 in cells and 0 not in lw.keep[k]:
                    d['dataf'][k] = ex['val'](cells[0])
            rv = ex['rv']
            if rv is not None:
                if clean(rv):
                    d['ret'] = ('abs', rv)
                else:
                    for (k, obj, cells) in objs:
                        if 0 in cells:
                            rho = lin_sub(rv, ex['val'](cells[0]))
                            if clean(rho):
                                d['ret'] = ('rel', k, rho)
                                break
                    if d['ret'] is None:
                        d['ret'] = ('dirty',)
            descr.append(d)
        # a buffer obtained inside the callee is the same thing on every path that obtains one: give
        # it one name, so that paths that differ only in where it was allocated are one case
        effs = []
        for d, ex in zip(descr, exits):
            E = ex['effects']
            ren = {}
            for k, t in d['dataf'].items():
                ta = single_atom(t)
                if ta is not None and not clean(t):
                    ren[ta] = atom(('newbuf', k))
            if ren:
                if E is not None:
                    E = tuple(eff_subst(e, lambda x: ren.get(x)) for e in E)
                d['dataf'] = {k: subst(t, lambda x: ren.get(x), {}) for k, t in d['dataf'].items()}
            effs.append(E)
        single = {'size': {}, 'ret': None, 'conds': ()}
        multi = False
        for (k, obj, cells) in objs:
            if 2 in cells and 2 not in lw.keep[k]:
                vals = [d['size'][k] for d in descr]
                u = unify(vals)
                if u is not None:
                    single['size'][k] = u
                elif all(clean(v) for v in vals):
                    multi = True
        if any(d['ret'] is not None for d in descr):
            rvs = [ex['rv'] for ex in exits]
            u = unify(rvs) if all(r is not None for r in rvs) else None
            if u is not None:
                single['ret'] = ('abs', u)
            else:
                for (k, obj, cells) in objs:
                    if 0 not in cells or not all(r is not None for r in rvs):
                        continue
                    rhos = [lin_sub(ex['rv'], ex['val'](cells[0])) for ex in exits]
                    u = unify(rhos)
                    if u is not None:
                        single['ret'] = ('rel', k, u)
                        break
                if single['ret'] is None and all(d['ret'] is not None and d['ret'][0] != 'dirty' for d in descr):
                    multi = True
        # cases by (sizes, result); components that unify are shared
        groups = []       # [alt, [exit indices]]
        for i, (d, ex) in enumerate(zip(descr, exits)):
            alt = {'size': {}, 'ret': single['ret'], 'conds': (), 'effects': None, 'dataf': {}}
            if multi:
                for k, v in d['size'].items():
                    t = single['size'].get(k, v if clean(v) else None)
                    if t is not None:
                        alt['size'][k] = t
                if alt['ret'] is None and d['ret'] is not None and d['ret'][0] != 'dirty':
                    alt['ret'] = d['ret']
            else:
                alt['size'] = dict(single['size'])
            key = (tuple(sorted(alt['size'].items())), alt['ret'])
            for g in groups:
                if g[2] == key:
                    g[1].append(i)
                    break
            else:
                groups.append([alt, [i], key])
        # refine by element effects where every exit's effects are understood.  Cases are merged
        # exactly: two cases with the same outcome whose guards are equal, or differ in ONE condition
        # they decide oppositely, become one case ((c and P) or (not c and P) == P); "same outcome"
        # may use the equalities of the absorbed path (its outcome is the other's formula there).
        refined = []
        approx = False
        all_known = all(E is not None for E in effs)
        if all_known:
            for (alt, idxs, key) in groups:
                items = []
                for i in idxs:
                    ci = frozenset((c, v) for (c, v) in exits[i]['conds'] if clean(c))
                    items.append({'E': effs[i], 'df': dict(descr[i]['dataf']), 'c': ci, 'eqs': list(exits[i]['eqs']), 'ids': [i]})

                def formula_covers(A, B):
                    """A's outcome formula, read in B's states, is B's outcome"""
                    return effects_same(B['E'], A['E'], B['eqs']) and set(A['df']) == set(B['df']) and \
                        all(same(B['df'].get(k), v, B['eqs']) for k, v in A['df'].items())

                def try_merge(items, exact):
                    for x in range(len(items)):
                        for y in range(x + 1, len(items)):
                            A, B = items[x], items[y]
                            sd = A['c'] ^ B['c']
                            if exact:
                                if len(sd) == 2:
                                    (c1, v1), (c2, v2) = tuple(sd)
                                    if c1 != c2 or v1 == v2:
                                        continue
                                elif len(sd) != 0:
                                    continue
                            if len(A['E']) < len(B['E']):
                                A, B = B, A
                            if formula_covers(A, B):
                                rep_, oth = A, B
                            elif formula_covers(B, A):
                                rep_, oth = B, A
                            else:
                                continue
                            m = {'E': rep_['E'], 'df': rep_['df'], 'c': A['c'] & B['c'],
                                 'eqs': [q for q in rep_['eqs'] if q in oth['eqs']], 'ids': A['ids'] + B['ids']}
                            items = [it for k2, it in enumerate(items) if k2 not in (x, y)] + [m]
                            return items, True
                    return items, False
                ch = True
                while ch:
                    items, ch = try_merge(items, True)
                if len(items) > MAX_ALTS:
                    # too many exact cases: join equal outcomes under the conditions they share (the
                    # joint guard then covers states of neither; verdicts through such a case are not
                    # reported as violations)
                    ch = True
                    while ch:
                        items, ch = try_merge(items, False)
                        if ch:
                            approx = True
                for it in items:
                    a2 = dict(alt)
                    a2['effects'] = it['E']
                    a2['dataf'] = it['df']
                    a2['conds'] = tuple(sorted(it['c'], key=repr))
                    a2['approx'] = approx or any(exits[i].get('approx') for i in it['ids'])
                    refined.append((a2, it['ids']))
        if all_known and len(refined) <= MAX_ALTS:
            # guards are the clean part of the path conditions.  Two cases whose guards do not exclude
            # each other (no condition decided one way in one and the other way in the other) were
            # separated by something the guard does not say: a caller would explore them in states of
            # the other, so verdicts through either are not reported as violations
            alts_ = [alt for (alt, ids) in refined]
            for i_, a_ in enumerate(alts_):
                ca = set(a_['conds'])
                for j_, b_ in enumerate(alts_):
                    if j_ <= i_:
                        continue
                    if not any((c_, not v_) in ca for (c_, v_) in b_['conds']):
                        a_['approx'] = True
                        b_['approx'] = True
            for (alt, ids) in refined:
                lw.alts.append(alt)
        else:
            final = [(alt, idxs) for (alt, idxs, key) in groups]
            if len(final) > MAX_ALTS:
                return None
            for (alt, ids) in final:
                conds = None
                for i in ids:
                    cs = tuple((c, v) for (c, v) in exits[i]['conds'] if clean(c))
                    conds = cs if conds is None else tuple(x for x in conds if x in cs)
                alt['conds'] = conds or ()
                alt['approx'] = True
                lw.alts.append(alt)
        useful = any(a['size'] or a['ret'] is not None or a['effects'] for a in lw.alts) or any(lw.keep.values())
        return lw if useful else None

    # -- application ------------------------------------------------------------------------
    def precall(self, st, name, args, site):
        """Engine hook: runs before the havoc of an opaque call; the values the law needs are read
        from the state as it is at the call."""
        st.aux.pop('pend', None)
        if name is None:
            return
        lw = self.law(name)
        if lw is None:
            return
        eng = self.eng
        memo = {}

        def rep(at):
            tag = at[0]
            if tag == 'arg':
                k = at[1]
                return args[k] if k < len(args) else atom(('undef',))
            if tag == 'init' and len(at) == 2:
                return eng.load(st, subst(at[1], rep, memo))
            if tag == 'alloca' or tag == 'ret':
                # the callee's own temporaries and allocations, made distinct per call site
                return atom((tag, (site, at[1])) + tuple(at[2:]))
            return None
        pend = {'site': site, 'keep': [], 'tags': [], 'alts': [], 'name': name}
        cellmap = {}
        for k, cells in lw.cells.items():
            for tag, addr in cells.items():
                a2 = subst(addr, rep, memo)
                cellmap[(k, tag)] = a2
                pend['tags'].append((a2, tag))
                if tag in lw.keep.get(k, ()):
                    pend['keep'].append((a2, eng.load(st, a2)))
        for alt in lw.alts:
            feasible = True
            conds = []
            for (c, v) in alt['conds']:
                c2 = subst(c, rep, memo)
                cv = eng.cond_value(st, c2)
                if cv is not None and cv != v:
                    feasible = False
                    break
                if cv is None:
                    conds.append((c2, v))
            if not feasible:
                continue
            a = {'stores': [], 'ret': None, 'conds': tuple(conds), 'effects': None, 'dataf': [],
                 'approx': bool(alt.get('approx'))}
            for k, t in alt['size'].items():
                a['stores'].append((cellmap[(k, 2)], subst(t, rep, memo)))
            r = alt['ret']
            if r is not None:
                if r[0] == 'abs':
                    a['ret'] = ('abs', subst(r[1], rep, memo))
                else:
                    a['ret'] = ('rel', cellmap[(r[1], 0)], subst(r[2], rep, memo))
            if alt['effects'] is not None:
                a['effects'] = tuple(eff_subst(e, rep) for e in alt['effects'])
            for k, t in alt.get('dataf', {}).items():
                a['dataf'].append((cellmap[(k, 0)], subst(t, rep, memo)))
            pend['alts'].append(a)
        if pend['alts']:
            st.aux['pend'] = pend


def eqs_of_conds(conds):
    out = []
    for (c, v) in conds:
        a = single_atom(c)
        if a is not None and a[0] == 'cmp' and a[1] == 'eq' and v:
            out.append(lin_sub(a[2], a[3]))
    return out


class LawRule(sym.Rule):
    """Applies callee laws at opaque calls; collects the exits of the walked function.
    Rule state: (retmap, choices, ops): retmap = ((result atom, value), ...); choices =
    ((site, slot atoms, cases, callee), ...) for multi-case laws; ops = element operation records
    in path order (see finalize_ops)."""
    name = 'R01'

    PRIMS = {'ELEM_COPY': ('construct', 'copy'), 'ELEM_MOVE': ('construct', 'move'), 'ELEM_DEFAULT': ('construct', 'default'),
             'ELEM_CONV': ('construct', 'conv'), 'ELEM_COPY_ASSIGN': ('assign', 'copy'), 'ELEM_MOVE_ASSIGN': ('assign', 'move'),
             'ELEM_CONV_ASSIGN': ('assign', 'conv'), 'ELEM_DTOR': ('destroy', ''), 'ELEM_SWAP': ('swap', '')}

    def __init__(self, laws, spec):
        self.laws = laws
        self.eng = laws.eng
        self.spec = spec
        self.exits = []
        self.loop_gen = {}
        self.raw = []

    def init(self, f, eng):
        return ((), (), ())

    def on_cut(self, rs, st, f, hdr):
        ops = rs[2]
        k = None
        for i in range(len(ops) - 1, -1, -1):
            if ops[i][0] == 'lr' and ops[i][1] == hdr:
                k = i
                break
        if k is None:
            return
        self.loop_gen.setdefault((f.name, hdr), set()).add(tuple(ops[k + 1:]))

    def on_event(self, rs, ev, st, f, eng):
        retmap, choices, ops = rs
        if ev.kind == 'loophead':
            return (retmap, choices, ops + (('lh', ev.site[2]),))
        if ev.kind == 'havoc' and ev.site and len(ev.site) == 3 and ev.site[1] == 'loop':
            return (retmap, choices, ops + (('lr', ev.site[2]),))
        if ev.kind != 'call' or ev.expanded:
            return rs
        if ev.callee is None:
            return (retmap, choices, ops + (('unknown', None),))
        k = self.laws.orc.kind.get(ev.callee)
        if k in self.PRIMS and ev.args:
            what, how = self.PRIMS[k]
            src = ev.args[1] if len(ev.args) > 1 and k not in ('ELEM_DEFAULT', 'ELEM_DTOR') else None
            return (retmap, choices, ops + (('prim', what, how, ev.args[0], src),))
        if ev.callee.startswith('llvm.mem') and ev.args and len(ev.args) >= 3:
            if sym.is_lin(ev.args[0]) and any(at[0] == 'alloca' for at, c in ev.args[0][2]):
                return rs      # aggregate copies between locals (iterator objects)
            return (retmap, choices, ops + (('bytes', ev.callee.split('.')[1], ev.args[0], ev.args[1], ev.args[2]),))
        pend = st.aux.get('pend')
        if pend is None or pend['site'] != ev.site:
            if self.laws.may_touch_elements(ev.callee):
                ops = ops + (('unknown', ev.callee),)
            return (retmap, choices, ops)
        st.aux.pop('pend', None)
        for (a, tag) in pend['tags']:
            eng.field_tag[a] = tag
        for (a, v) in pend['keep']:
            st.mem[a] = v
        alts = pend['alts']
        ra = single_atom(ev.ret) if ev.ret is not None else None
        direct = ev.ins is not None and ev.ins.res and ev.fn is f and st.env.get(ev.ins.res) == ev.ret

        def retval(r):
            if r is None:
                return None
            if r[0] == 'abs':
                return r[1]
            return lin_add(eng.load(st, r[1]), r[2])

        def effects_here(a):
            """the case's effects with the callee's final data pointer renamed to what this path
            reads from the data cell after the call"""
            E = a['effects']
            if E is None:
                return None
            m = {}
            for (cell, t) in a['dataf']:
                ta = single_atom(t)
                if ta is not None and not clean(t):
                    m[ta] = eng.load(st, cell)
            if m:
                E = tuple(eff_subst(e, lambda x: m.get(x)) for e in E)
            return E
        unknown_eff = self.laws.may_touch_elements(ev.callee)

        def stores_of(a):
            # the case's size, and its data pointer where the case says what it is: the entry value
            # (kept), or a buffer obtained in the callee = whatever the cell holds after the call
            out = list(a['stores'])
            for (cell, t) in a['dataf']:
                if clean(t):
                    out.append((cell, t))
                else:
                    out.append((cell, eng.load(st, cell)))
            return out
        if len(alts) == 1:
            a = alts[0]
            for (cell, v) in stores_of(a):
                st.mem[cell] = v
            val = retval(a['ret'])
            if val is not None and ra is not None:
                if direct:
                    st.env[ev.ins.res] = val
                retmap = retmap + ((ra, val),)
            E = effects_here(a)
            if E is not None:
                ops = ops + (('eff', E),)
            elif unknown_eff:
                ops = ops + (('unknown', ev.callee),)
            if a.get('approx'):
                ops = ops + (('approx', ev.callee),)
            return (retmap, choices, ops)
        # several cases: the written cells, the result and the effects become choice slots that are
        # expanded case by case at the exits
        cells = []
        astores = [stores_of(a) for a in alts]
        for sts in astores:
            for (cell, v) in sts:
                if cell not in cells:
                    cells.append(cell)
        slots = [atom(('choice', ev.site, j)) for j in range(len(cells) + 1)]
        olds = [eng.load(st, c) for c in cells]
        for j, c in enumerate(cells):
            st.mem[c] = slots[j]
        cases = []
        for a, sts in zip(alts, astores):
            vals = []
            d = dict(sts)
            for j, c in enumerate(cells):
                vals.append(d.get(c, olds[j]))
            rv = retval(a['ret'])
            vals.append(rv if rv is not None else atom(('unknown-result', ev.site)))
            E = effects_here(a)
            if E is None and not unknown_eff:
                E = ()
            cases.append((tuple(vals), tuple(a['conds']), E, bool(a.get('approx'))))
        if ra is not None:
            if direct:
                st.env[ev.ins.res] = slots[-1]
            retmap = retmap + ((ra, slots[-1]),)
        choices = choices + ((ev.site, tuple(single_atom(x) for x in slots), tuple(cases), pend['name']),)
        return (retmap, choices, ops + (('choice', ev.site),))

    def resolve(self, t, retmap):
        if t is None or not retmap:
            return t
        m = dict(retmap)
        for _ in range(4):
            t2 = subst(t, lambda a: m.get(a), {})
            if t2 == t:
                break
            t = t2
        return t

    def on_exit(self, rs, kind, st, f, eng, rv=None):
        retmap, choices, ops = rs
        if kind != 'ret':
            if kind != 'unwind':
                return
            if self.spec is not None:
                self.spec.on_unwind(self, rs, st, f, eng)
        cells = {}
        for a, tag in eng.field_tag.items():
            if tag in (0, 1, 2):
                cells.setdefault(obj_of(a), {})[tag] = a
        # loops are generalised once the whole function has been walked (finish): keep what is needed
        snap = State_snapshot(st, eng)
        self.raw.append((retmap, choices, ops, cells, rv, path_eqs(st), st.conds, snap, facts(st), kind))

    def finish(self, f):
        eng = self.eng
        for (retmap, choices, ops, cells, rv, peqs, conds0, snap, fs0, xkind) in self.raw:
            rv0 = self.resolve(rv, retmap)
            eqs0 = [self.resolve(q, retmap) for q in peqs]
            combos = [({}, [], [], {})]
            for (site, slots, cases, name) in choices:
                nxt = []
                for (m, extra, via, effs) in combos:
                    for ci, (vals, cconds, E, apx) in enumerate(cases):
                        m2 = dict(m)
                        for sa, v in zip(slots, vals):
                            m2[sa] = v
                        e2 = dict(effs)
                        e2[site] = E
                        if apx:
                            e2['approx'] = True
                        nxt.append((m2, extra + list(cconds), via + [(name, ci, len(cases))], e2))
                combos = nxt
                if len(combos) > MAX_COMBOS:
                    combos = None
                    break
            if combos is None:
                combos = [({}, [], [('too many case combinations', 0, 0)], None)]
            for (m, extra, via, effs) in combos:
                def fix(t, m=m):
                    if t is None or not m:
                        return t
                    for _ in range(4):
                        t2 = subst(t, lambda a: m.get(a), {})
                        if t2 == t:
                            break
                        t = t2
                    return t

                def val(addr, fix=fix, snap=snap, retmap=retmap):
                    return fix(self.resolve(snap.load(addr), retmap))
                xconds = tuple((fix(self.resolve(c_, retmap)), v_) for (c_, v_) in extra)
                allconds = _Conds(tuple(conds0) + xconds)
                eqs = [fix(q) for q in eqs0] + [fix(q) for q in path_eqs(_Conds(xconds))]
                fs = facts(_Conds(tuple((fix(self.resolve(c_, retmap)), v_) for (c_, v_) in conds0) + xconds))
                # entry contract (the container invariant, C02): size <= capacity, so a container whose
                # capacity is known to be zero on this path is empty
                for obj, cs in cells.items():
                    if 1 in cs and 2 in cs:
                        if same(atom(('init', cs[1])), L(0), eqs) and not same(atom(('init', cs[2])), L(0), eqs):
                            eqs.append(atom(('init', cs[2])))
                # iteration counts of generalised loops are determined by the loop's exit test
                its = set(a for q in eqs for a in atoms_of(q) if a[0] == 'iter')
                itmap = {}
                if its:
                    for it in sorted(its, key=repr):
                        K = solve_for(it, eqs)
                        if K is not None and not any(x[0] == 'iter' for x in atoms_of(K)):
                            m[it] = K
                            itmap[it] = K
                    eqs = [fix(q) for q in eqs]
                    eqs = [q for q in eqs if const_of(q) is None]
                ops2 = []
                bad = effs is None
                for op in ops:
                    if op[0] == 'choice':
                        E = effs.get(op[1]) if effs is not None else None
                        ops2.append(('eff', E))
                    else:
                        ops2.append(op)
                effects = None if bad else finalize_ops(tuple(ops2), self.loop_gen, f.name, eqs, itmap)
                if effects is not None:
                    def fx(t):
                        return fix(self.resolve(t, retmap)) if t is not None else None
                    effects = tuple((e[0], e[1], fx(e[2]), fx(e[3]), e[4], fx(e[5]), fx(e[6]), e[7]) for e in effects)
                apx = bool(effs and effs.get('approx')) or any(op[0] == 'approx' for op in ops)
                ex = {'cells': cells, 'val': val, 'rv': fix(rv0), 'eqs': eqs, 'conds': tuple(conds0) + xconds, 'via': via,
                      'effects': effects, 'facts': fs, 'approx': apx}
                if xkind == 'unwind':
                    self.laws.unwind_ledger(ex, f)
                elif self.spec is not None:
                    self.spec.on_ret(self, ex, f, eng)
                else:
                    self.exits.append(ex)
        self.raw = []


class _Conds(object):
    __slots__ = ('conds',)

    def __init__(self, conds):
        self.conds = conds


class State_snapshot(object):
    """The part of a finished path's state that is read after the walk."""
    __slots__ = ('mem', 'hv', 'eng')

    def __init__(self, st, eng):
        self.mem = dict(st.mem)
        self.hv = dict(st.hv)
        self.eng = eng

    def load(self, addr):
        v = self.mem.get(addr)
        if v is not None:
            return v
        if self.hv:
            vers = tuple(sorted((repr(self.hv[at]) for at, c in addr[2] if at in self.hv)))
            if vers:
                return atom(('init', addr, vers))
        return atom(('init', addr))


# ---------------------------------------------------------------------------------------------
# the specification (std::vector's, [vector.modifiers] / [vector.capacity] / [sequence.reqmts])
# ---------------------------------------------------------------------------------------------
def class_of(f):
    p = f.pretty or ''
    head = p[:p.rfind('(')] if '(' in p else p
    # text up to the last top-level '::'
    depth = 0
    cut = -1
    i = 0
    h = p
    # find the parameter list start
    close = p.rfind(')')
    d = 0
    j = close
    while j >= 0:
        if p[j] == ')':
            d += 1
        elif p[j] == '(':
            d -= 1
            if d == 0:
                break
        j -= 1
    head = p[:j]
    depth = 0
    for i in range(len(head) - 1):
        c = head[i]
        if c in '<(':
            depth += 1
        elif c in '>)':
            depth -= 1
        elif c == ':' and head[i + 1] == ':' and depth == 0:
            cut = i
    cls = head[:cut] if cut >= 0 else ''
    # drop a return type in front ("small_vector<..>& small_vector<..>::append<..>"): the class is what
    # follows the last blank outside template brackets
    depth = 0
    sp = -1
    for i, ch in enumerate(cls):
        if ch in '<(':
            depth += 1
        elif ch in '>)':
            depth -= 1
        elif ch == ' ' and depth == 0:
            sp = i
    cls = cls[sp + 1:]
    k = cls.find('gch::small_vector<')
    return cls[k:] if k >= 0 else cls


def param_list(f):
    p = f.pretty or ''
    close = p.rfind(')')
    d = 0
    j = close
    while j >= 0:
        if p[j] == ')':
            d += 1
        elif p[j] == '(':
            d -= 1
            if d == 0:
                break
        j -= 1
    return split_params(p[j:close + 1])


def kind_of(p, elem):
    q = p.strip()
    if q.startswith('gch::small_vector_iterator<'):
        return 'it'
    if q.startswith('std::initializer_list<'):
        return 'il'
    if q in ('unsigned long', 'unsigned int', 'unsigned char', 'unsigned short', 'unsigned long long'):
        return 'n'
    if q.startswith('gch::small_vector<') and (q.endswith('&&') or q.endswith('const&')):
        return 'other_move' if q.endswith('&&') else 'other'
    e = elem.strip()
    if q in (e + ' const&', e + '&&', e + '&'):
        return 'val'
    if q in (e + '*', e + ' const*'):
        return 'ptr'
    if q.endswith('const&') and ('PA<' in q or 'allocator<' in q):
        return 'alloc'
    return 'x'


def elem_of(cls):
    inner = cls[cls.find('<') + 1:]
    depth = 0
    out = []
    for c in inner:
        if c in '<(':
            depth += 1
        elif c in '>)':
            depth -= 1
        if c == ',' and depth == 0:
            break
        out.append(c)
    return ''.join(out)


class Spec(object):
    def __init__(self, laws, cfg, perturb=False):
        self.laws = laws
        self.cfg = cfg
        self.perturb = perturb      # negative control: a deliberately wrong specification
        self.reports = {}
        self.layouts = {}
        self.cur = None
        self.decided = 0
        self.undecided = 0
        self.undecided_ops = {}
        self.placed = 0
        self.ledgered_unwind = 0
        self.directions = 0
        self.ledgered = 0
        self.unplaced = 0
        self.unplaced_ops = {}

    # -- layout of a class: cell addresses relative to `this`, stride -----------------------------
    def layout(self, cls):
        if cls in self.layouts:
            return self.layouts[cls]
        eng = self.laws.eng
        got = {}
        for f in irrules.gch_roots(eng):
            if not is_public(f) or class_of(f) != cls:
                continue
            bn = base_name(f.pretty)
            if bn not in ('size', 'data', 'capacity', 'operator[]') or len(f.params) > 2:
                continue
            if bn in got and bn != 'operator[]':
                continue
            rule = self.laws.walk(f, lambda: LawRule(self.laws, None))
            if rule is None or len(rule.exits) != 1:
                continue
            rv = rule.exits[0]['rv']
            if rv is None:
                continue
            if bn == 'operator[]':
                co = [c for at, c in rv[2] if at == ('arg', 1)]
                if len(co) == 1 and co[0] > 0:
                    got['stride'] = co[0]
            else:
                a = single_atom(rv)
                if a is not None and a[0] == 'init' and len(a) == 2:
                    got[bn] = a[1]
        lay = None
        if all(k in got for k in ('size', 'data', 'capacity', 'stride')):
            lay = {2: got['size'], 0: got['data'], 1: got['capacity'], 'stride': got['stride']}
        self.layouts[cls] = lay
        return lay

    def start(self, f):
        cls = class_of(f)
        lay = self.layout(cls)
        if lay is None:
            return False
        elem = elem_of(cls)
        ps = param_list(f)
        kinds = [kind_of(p, elem) for p in ps]
        width = sum(2 if k == 'il' else 1 for k in kinds)
        if len(f.params) != 1 + width:
            return False
        pos = []
        i = 1
        for k in kinds:
            pos.append(i)
            i += 2 if k == 'il' else 1
        self.cur = {'f': f, 'cls': cls, 'lay': lay, 'kinds': tuple(kinds), 'pos': pos, 'bn': base_name(f.pretty)}
        return self.expected() is not None

    def cell(self, tag, k=0):
        a = self.cur['lay'][tag]
        if k == 0:
            return a
        return subst(a, lambda at: atom(('arg', k)) if at == ('arg', 0) else None, {})

    def expected(self):
        """-> dict(size=term|None, other_size=term|None, ret=('rel', rho)|('abs', t)|None) or None"""
        c = self.cur
        bn, kinds, pos = c['bn'], c['kinds'], c['pos']
        s = c['lay']['stride']
        S0 = atom(('init', self.cell(2)))
        D0 = atom(('init', self.cell(0)))

        def A(i):
            return atom(('arg', pos[i]))

        def LEN(i):      # initializer_list length word
            return atom(('arg', pos[i] + 1))

        def DIST(i, j):
            d = lin_sub(A(j), A(i))
            return sym.mk_divx(d, s)

        def OS(i):
            return atom(('init', self.cell(2, pos[i])))
        rel_pos = lambda i: ('rel', lin_sub(A(i), D0))
        e = {'size': None, 'other_size': None, 'ret': None}
        ptrish = ('ptr', 'it')
        k = kinds
        if bn == 'push_back' and k == ('val',):
            e['size'] = lin_add(S0, L(1))
        elif bn == 'emplace_back':
            e['size'] = lin_add(S0, L(1))
            e['ret'] = ('rel', lin_scale(S0, s))
        elif bn == 'pop_back' and k == ():
            e['size'] = lin_sub(S0, L(1))
        elif bn == 'insert' and k and k[0] == 'it':
            e['ret'] = rel_pos(0)
            if k == ('it', 'val'):
                e['size'] = lin_add(S0, L(1))
            elif k == ('it', 'n', 'val'):
                e['size'] = lin_add(S0, A(1))
            elif k == ('it', 'il'):
                e['size'] = lin_add(S0, LEN(1))
            elif len(k) == 3 and k[1] in ptrish and k[2] in ptrish:
                e['size'] = lin_add(S0, DIST(1, 2))
        elif bn == 'emplace' and k and k[0] == 'it':
            e['ret'] = rel_pos(0)
            e['size'] = lin_add(S0, L(1))
        elif bn == 'erase' and k == ('it',):
            e['ret'] = rel_pos(0)
            e['size'] = lin_sub(S0, L(1))
        elif bn == 'erase' and k == ('it', 'it'):
            e['ret'] = rel_pos(0)
            e['size'] = lin_sub(S0, DIST(0, 1))
        elif bn == 'clear' and k == ():
            e['size'] = L(0)
        elif (bn == 'reserve' and k == ('n',)) or (bn == 'shrink_to_fit' and k == ()):
            e['size'] = S0
        elif bn == 'resize' and k and k[0] == 'n':
            e['size'] = A(0)
        elif bn in ('assign', 'operator=', 'small_vector::small_vector', 'append'):
            ctor = bn == 'small_vector::small_vector'
            base = S0 if bn == 'append' else L(0)
            kk = k[:-1] if (k and k[-1] == 'alloc') else k
            if bn in ('operator=', 'append'):
                e['ret'] = ('abs', atom(('arg', 0)))
            if kk == () and ctor:
                e['size'] = L(0)
            elif kk in (('n',), ('n', 'val')) and bn != 'operator=':
                if kk == ('n',) and not ctor:
                    return None
                e['size'] = lin_add(base, A(0))
            elif kk == ('il',):
                e['size'] = lin_add(base, LEN(0))
            elif len(kk) == 2 and kk[0] in ptrish and kk[1] in ptrish:
                e['size'] = lin_add(base, DIST(0, 1))
            elif kk in (('other',), ('other_move',)):
                e['size'] = lin_add(base, OS(0))
                if bn == 'append' and kk == ('other_move',):
                    e['other_size'] = L(0)
            elif len(kk) == 2 and kk[0] not in ('n',):
                pass      # other iterator categories: only the result is specified linearly
            else:
                return None
        elif bn == 'swap' and k == ('other',) or bn == 'swap' and len(k) == 1 and 'gch::small_vector<' in param_list(c['f'])[0]:
            e['size'] = atom(('init', self.cell(2, 1)))
            e['other_size'] = S0
        elif bn == 'at' and k == ('n',):
            e['at'] = True
        else:
            return None
        e['place'] = self.placement_spec(bn, k, A, LEN, S0, D0, s, OS)
        if self.perturb:
            if e.get('at'):
                return None
            if e['size'] is not None:
                e['size'] = lin_add(e['size'], L(1))
            if e['other_size'] is not None:
                e['other_size'] = lin_add(e['other_size'], L(1))
            if e['ret'] is not None:
                e['ret'] = (e['ret'][0], lin_add(e['ret'][1], L(s)))
            if e.get('place') is not None and not e['place']:
                e['place'] = None       # nothing to get wrong in an empty sequence
            if isinstance(e.get('place'), tuple):
                e['place'] = None
            if e.get('place'):
                # wrong placement specification: every source one element further, values from elsewhere
                pl = []
                for (a_, b_, src) in e['place']:
                    if src[0] == 'old':
                        src = ('old', lin_add(src[1], L(s)))
                    elif src[0] == 'input':
                        src = ('input', lin_add(src[1], L(s)))
                    elif src[0] == 'val':
                        src = ('val', lin_add(src[1], L(s)))
                    elif src[0] == 'default':
                        src = ('val', atom(('arg', 0)))
                    pl.append((a_, b_, src))
                e['place'] = pl
        return e

    def placement_spec(self, bn, k, A, LEN, S0, D0, s, OS):
        """Where every element of the final sequence comes from (std::vector's specification), as
        segments of byte offsets relative to data() after the call:
          (start, end, source) with source =
            ('old', d)      the element the entry buffer held at (offset - d)
            ('val', addr)   the value argument at addr (or a temporary constructed from it)
            ('input', p)    consecutive elements of the caller's array starting at p
            ('default',)    a value-initialised element
            ('args',)       constructed from forwarded arguments (emplace)
        or None when the operation is not described."""
        ptrish = ('ptr', 'it')
        E0 = lin_scale(S0, s)

        def P(i):
            return lin_sub(A(i), D0)
        Z = L(0)
        if bn == 'push_back' and k == ('val',):
            return [(Z, E0, ('old', Z)), (E0, lin_add(E0, L(s)), ('val', A(0)))]
        if bn == 'emplace_back':
            src = ('val', A(0)) if k == ('val',) else ('args',)
            return [(Z, E0, ('old', Z)), (E0, lin_add(E0, L(s)), src)]
        if bn in ('insert', 'emplace') and k and k[0] == 'it':
            if k == ('it', 'val'):
                N, src = L(s), ('val', A(1))
            elif bn == 'emplace':
                N, src = L(s), ('args',)
            elif k == ('it', 'n', 'val'):
                N, src = lin_scale(A(1), s), ('val', A(2))
            elif k == ('it', 'il'):
                N, src = lin_scale(LEN(1), s), ('input', A(1))
            elif len(k) == 3 and k[1] in ptrish and k[2] in ptrish:
                N, src = lin_sub(A(2), A(1)), ('input', A(1))
            else:
                return None
            p = P(0)
            return [(Z, p, ('old', Z)), (p, lin_add(p, N), src), (lin_add(p, N), lin_add(E0, N), ('old', N))]
        if bn == 'erase' and k == ('it',):
            p = P(0)
            return [(Z, p, ('old', Z)), (p, lin_sub(E0, L(s)), ('old', L(-s)))]
        if bn == 'erase' and k == ('it', 'it'):
            p = P(0)
            N = lin_sub(A(1), A(0))
            return [(Z, p, ('old', Z)), (p, lin_sub(E0, N), ('old', lin_scale(N, -1)))]
        if bn == 'resize' and k in (('n',), ('n', 'val')):
            return ('resize', lin_scale(A(0), s), ('default',) if k == ('n',) else ('val', A(1)))
        if bn == 'pop_back' and k == ():
            return [(Z, lin_sub(E0, L(s)), ('old', Z))]
        if bn == 'clear' and k == ():
            return []
        if (bn == 'reserve' and k == ('n',)) or (bn == 'shrink_to_fit' and k == ()):
            return [(Z, E0, ('old', Z))]          # the same elements, wherever the buffer is afterwards
        if bn == 'swap' and len(k) == 1:
            return ('swap', self.cur['pos'][0])
        if bn in ('assign', 'small_vector::small_vector', 'operator=') :
            kk = k[:-1] if (k and k[-1] == 'alloc') else k
            ctor = bn == 'small_vector::small_vector'
            if kk == ('n', 'val') and bn != 'operator=':
                return [(Z, lin_scale(A(0), s), ('val', A(1)))]
            if kk == ('n',) and ctor:
                return [(Z, lin_scale(A(0), s), ('default',))]
            if kk == ('il',):
                return [(Z, lin_scale(LEN(0), s), ('input', A(0)))]
            if len(kk) == 2 and kk[0] in ptrish and kk[1] in ptrish:
                return [(Z, lin_sub(A(1), A(0)), ('input', A(0)))]
            if kk in (('other',), ('other_move',)):
                # copies, and moves that either adopt the source's buffer (then nothing is written and
                # data() is the source's data()) or transfer element by element
                od = atom(('init', self.cell(0, self.cur['pos'][0])))
                return [(Z, lin_scale(OS(0), s), ('input', od))]
            if kk == () and ctor:
                return []
        return None

    def order_prover(self, ex, k, ctor, D0):
        """-> prove_le(x, y): x <= y from the path's order facts, the unsignedness of sizes and the API
        preconditions on position arguments."""
        c = self.cur
        s = c['lay']['stride']
        eqs = ex['eqs']
        fs = list(ex.get('facts') or [])
        # API precondition: position arguments are iterators into [begin(), end()] of this container
        if k == 0 and not ctor:
            E0_ = lin_add(D0, lin_scale(atom(('init', self.cell(2))), s))
            neq = []
            for (cnd, v_) in ex.get('conds', ()):
                a_ = single_atom(cnd)
                if a_ is not None and a_[0] == 'cmp' and a_[1] == 'eq' and v_ is False:
                    neq.append(lin_sub(a_[2], a_[3]))
            for i_, kd in enumerate(c['kinds']):
                if kd == 'it' and c['bn'] in ('insert', 'emplace', 'erase'):
                    Ai = atom(('arg', c['pos'][i_]))
                    fs.append(('le', D0, Ai))
                    fs.append(('le', Ai, E0_))
                    dd = lin_sub(Ai, E0_)
                    if any(same(q, dd, eqs) or same(q, lin_scale(dd, -1), eqs) for q in neq):
                        fs.append(('le', lin_add(Ai, L(s)), E0_))     # not end(): at least one element follows
            if c['bn'] == 'erase' and c['kinds'] == ('it', 'it'):
                fs.append(('le', atom(('arg', c['pos'][0])), atom(('arg', c['pos'][1]))))     # [first, last) is a range

        def prove_le(x, y):
            """x <= y from the path's order facts: y - x == k * (v - u) + c for a fact u <= v / u < v"""
            d = sym.canon_divx_sign(lin_sub(y, x))
            d, _ = reduce_by(d, [sym.canon_divx_sign(q) for q in eqs])
            cd = const_of(d)
            if cd is not None:
                return cd >= 0
            szcells = [atom(('init', self.cell(2)))[2][0][0], atom(('init', self.cell(1)))[2][0][0]]
            for i_, kd in enumerate(c['kinds']):
                if kd == 'n':
                    szcells.append(('arg', c['pos'][i_]))          # counts are unsigned
                elif kd == 'il':
                    szcells.append(('arg', c['pos'][i_] + 1))
            if d[1] >= 0 and all(co > 0 and at in szcells for at, co in d[2]):
                return True        # sizes and capacities are unsigned
            for (kind, u, v) in fs:
                if (const_of(u) is not None and const_of(u) < 0) or (const_of(v) is not None and const_of(v) < 0):
                    continue       # an unsigned comparison with a wrapped constant (x <= ~0): says nothing
                g = sym.canon_divx_sign(lin_sub(v, u))
                g, _ = reduce_by(g, [sym.canon_divx_sign(q) for q in eqs])
                for k in (1, 2, 4, 8, 16, s):
                    r = sym.canon_divx_sign(lin_sub(d, lin_scale(g, k)))
                    cr = const_of(r)
                    if cr is not None and (cr >= 0 or (kind == 'lt' and cr >= -k)):
                        return True
            return False

        return prove_le

    def check_placement(self, ex, segs, eng, k=0, strays=True):
        """-> (verdict, text, detail): verdict 'ok' | 'undecided' | 'bad'.  k: which argument is the
        container whose final sequence is judged (0 = *this)."""
        c = self.cur
        s = c['lay']['stride']
        eqs = ex['eqs']
        effs = ex['effects']
        if effs is None:
            return ('undecided', 'an element operation on the path is not understood', None)
        if isinstance(segs, tuple) and segs and segs[0] == 'swap':
            # both containers: each ends up with the other's entry sequence
            S0 = atom(('init', self.cell(2)))
            ko = segs[1]
            OS0 = atom(('init', self.cell(2, ko)))
            v1 = self.check_placement(ex, [(L(0), lin_scale(OS0, s), ('input', atom(('init', self.cell(0, ko)))))], eng, 0, False)
            if v1[0] != 'ok':
                return v1
            return self.check_placement(ex, [(L(0), lin_scale(S0, s), ('input', atom(('init', self.cell(0)))))], eng, ko, False)
        D0 = atom(('init', self.cell(0, k)))
        D1 = ex['val'](self.cell(0, k))
        if D1 is None:
            return ('undecided', 'data pointer unknown', None)
        ctor = c['bn'] == 'small_vector::small_vector' and k == 0
        inplace = (not ctor) and same(D1, D0, eqs)
        # otherwise the sequence lives somewhere else afterwards (a fresh buffer, the object's own
        # inline buffer, a buffer adopted from the argument): everything that is not already there
        # must be written
        prove_le = self.order_prover(ex, k, ctor, D0)
        if isinstance(segs, tuple) and segs and segs[0] == 'resize':
            # two-sided: which side this path is on must follow from the path's own order facts
            S0 = atom(('init', self.cell(2)))
            E0 = lin_scale(S0, s)
            cap0 = lin_scale(atom(('init', self.cell(1))), s)
            if prove_le(segs[1], E0):
                segs = [(L(0), segs[1], ('old', L(0)))]
            elif prove_le(E0, segs[1]) or prove_le(cap0, segs[1]):
                # (a request beyond the capacity is beyond the size: size <= capacity, C02)
                segs = [(L(0), E0, ('old', L(0))), (E0, segs[1], segs[2])]
            else:
                return ('undecided', 'the path does not say whether the container grows or shrinks', None)

        d_atoms = set(at for at, co in D1[2]) | set(at for at, co in D0[2])

        def is_temp(t):
            # a local of some function on the path, or a block obtained on the path that is not the
            # container's buffer afterwards (the heap temporary used under constant evaluation)
            if not sym.is_lin(t):
                return False
            return any(at[0] == 'alloca' or (at[0] in ('ret', 'newbuf') and at not in d_atoms) for at, co in t[2])
        temps = {}
        writes = []
        for i, e in enumerate(effs):
            what = e[0]
            if what == 'bytefill':
                return ('undecided', 'byte fill over element storage', None)
            if what == 'destroy':
                continue
            if what == 'swap':
                # each side receives what the other held
                if e[5] is None:
                    return ('undecided', 'swap without a second operand', None)
                b1 = e[3] if e[3] is not None else lin_add(e[2], L(s))
                sb1 = e[6] if e[6] is not None else lin_add(e[5], L(s))
                single = e[3] is None
                writes.append({'i': i, 'what': what, 'how': '', 'a': e[2], 'b': b1, 'sk': 'range', 'sa': e[5], 'sb': sb1,
                               'dir': 0, 'used': False, 'single': single})
                writes.append({'i': i, 'what': what, 'how': '', 'a': e[5], 'b': sb1, 'sk': 'range', 'sa': e[2], 'sb': b1,
                               'dir': 0, 'used': False, 'single': single})
                continue
            if is_temp(e[2]):
                temps[e[2]] = e
                continue
            b = e[3] if e[3] is not None else lin_add(e[2], L(s))
            if same(e[2], b, eqs):
                continue       # an empty range on this path
            writes.append({'i': i, 'what': what, 'how': e[1], 'a': e[2], 'b': b, 'sk': e[4], 'sa': e[5], 'sb': e[6],
                           'dir': e[7], 'used': False, 'single': e[3] is None})

        def from_val(w, addr, depth=0):
            if w['sk'] != 'fill' or w['sa'] is None:
                return False
            if same(w['sa'], addr, eqs):
                return True
            t = temps.get(w['sa'])
            if t is not None and depth < 3 and t[4] == 'fill' and t[5] is not None:
                return same(t[5], addr, eqs) or from_val({'sk': 'fill', 'sa': t[5]}, addr, depth + 1)
            return False

        def rd(t):
            return show(t, c)
        for (a_off, b_off, src) in segs:
            cur = lin_add(D1, a_off)
            end = lin_add(D1, b_off)
            steps = 0
            while not same(cur, end, eqs):
                steps += 1
                if steps > 12:
                    return ('bad', 'the writes do not tile the segment of the final sequence', {'segment': [rd(a_off), rd(b_off)]})
                w = None
                for x in writes:
                    if not x['used'] and same(x['a'], cur, eqs):
                        w = x
                        break
                if w is None:
                    off0 = lin_sub(cur, D1)
                    if src[0] == 'old':
                        stay = inplace and same(lin_sub(lin_add(D0, off0), src[1]), cur, eqs)
                    elif src[0] == 'input':
                        stay = same(lin_add(src[1], lin_sub(off0, a_off)), cur, eqs)
                    else:
                        stay = False
                    if stay and not any(not x['used'] and same(x['b'], end, eqs) for x in writes):
                        break      # elements that stay where they are and are not written
                    return ('bad', 'part of the final sequence [data()+%s, data()+%s) that must come from %s is not written '
                            'by any element operation starting at data()+%s' % (rd(a_off), rd(b_off), src[0], rd(lin_sub(cur, D1))),
                            {'segment': [rd(a_off), rd(b_off)], 'expected_source': src[0]})
                w['used'] = True
                off = lin_sub(cur, D1)
                # the source of this piece
                if src[0] == 'old':
                    want = lin_sub(lin_add(D0, off), src[1])
                    ok = w['sa'] is not None and w['sk'] in ('range', 'fill') and same(w['sa'], want, eqs) and \
                        (w['sk'] == 'range' or w['single'])
                    if ok and inplace and const_of(src[1]) != 0 and w['sk'] == 'range':
                        # overlapping shift inside one buffer: the direction must not overwrite what is
                        # still to be read, unless source and destination only touch
                        d = src[1]
                        right = all(co > 0 for at, co in d[2]) and d[1] >= 0      # moves towards the end
                        left = all(co < 0 for at, co in d[2]) and d[1] <= 0
                        touch = prove_le(w['sb'], w['a']) if right else prove_le(w['b'], w['sa'])
                        if (right or left) and not touch and w['dir'] != 0 and w['dir'] != (-1 if right else 1):
                            return ('bad', 'elements are shifted %s inside the buffer in %s order: sources are overwritten before '
                                    'they are read' % ('towards the end' if right else 'towards the front',
                                                       'ascending' if w['dir'] > 0 else 'descending'),
                                    {'write': [rd(w['a']), rd(w['b'])], 'from': [rd(w['sa']), rd(w['sb'])]})
                    if ok and inplace:
                        # an earlier write into what this one reads
                        for x in writes:
                            if x['i'] < w['i'] and (same(x['a'], w['sa'], eqs) or
                                                    (w['sb'] is not None and same(x['b'], w['sb'], eqs))):
                                return ('bad', 'existing elements are read after they have been overwritten',
                                        {'read': [rd(w['sa']), rd(w['sb'])], 'overwritten_by_write_to': [rd(x['a']), rd(x['b'])]})
                elif src[0] == 'val':
                    ok = from_val(w, src[1])
                elif src[0] == 'input':
                    want = lin_add(src[1], lin_sub(off, a_off))
                    ok = w['sa'] is not None and same(w['sa'], want, eqs) and (w['sk'] == 'range' or w['single'])
                elif src[0] == 'default':
                    ok = w['sk'] is None and w['how'] == 'default'
                else:      # forwarded arguments
                    ok = True
                if not ok:
                    return ('bad', 'the elements written to [data()+%s, data()+%s) do not come from where std::vector takes them (%s)'
                            % (rd(lin_sub(w['a'], D1)), rd(lin_sub(w['b'], D1)), src[0]),
                            {'write': [rd(w['a']), rd(w['b'])], 'source': [w['sk'], rd(w['sa']) if w['sa'] is not None else None],
                             'expected_source': [src[0]] + [rd(x) for x in src[1:]]})
                cur = w['b']
        stray = [x for x in writes if not x['used'] and not same(x['a'], x['b'], eqs)] if strays else []
        if stray:
            x = stray[0]
            return ('bad', 'an element operation writes [%s, %s), which is not part of what the operation specifies'
                    % (rd(x['a']), rd(x['b'])), {'write': [rd(x['a']), rd(x['b'])], 'kind': x['what']})
        # ---- the value argument may refer to an element of this container (v.insert (p, n, v[0])) --------
        if k == 0 and strays and c['bn'] in ('push_back', 'insert', 'resize', 'emplace_back', 'emplace'):
            plist = param_list(c['f'])
            for (a_off, b_off, src) in segs:
                if src[0] != 'val':
                    continue
                V = src[1]
                va = single_atom(V)
                if va is None or va[0] != 'arg':
                    continue
                pi = [i_ for i_, p_ in enumerate(c['pos']) if p_ == va[1]]
                if not pi or not plist[pi[0]].strip().endswith('const&'):
                    continue          # rvalue arguments need not survive the operation
                reads = [i_ for i_, e in enumerate(effs) if e[4] == 'fill' and e[5] is not None and same(e[5], V, eqs)]
                dist = None
                for i_, e in enumerate(effs):
                    if is_temp(e[2]):
                        continue
                    moved_from_old = e[1] == 'move' and e[5] is not None and not is_temp(e[5]) and not same(e[5], V, eqs)
                    if e[0] == 'destroy' or moved_from_old or (e[0] == 'assign' and inplace):
                        dist = i_
                        break
                if dist is not None and any(r_ > dist for r_ in reads):
                    return ('bad', 'the value argument is read after elements of the container were moved from, overwritten or destroyed; '
                            'if it refers to one of them (v.%s (..., v[i])) the new elements do not get its value' % c['bn'],
                            {'first_disturbance': self.eff_text(effs[dist], c),
                             'later_read': self.eff_text(effs[[r_ for r_ in reads if r_ > dist][0]], c)})
        # ---- lifetime ledger of this path (reported under C03 as R03.7) -------------------------------
        if k == 0 and strays:
            E0 = lin_add(D0, lin_scale(atom(('init', self.cell(2))), s))
            S1 = ex['val'](self.cell(2))
            newE = lin_add(D1, lin_scale(S1, s)) if S1 is not None and clean(lin_sub(S1, L(0))) else None
            led = None
            kinds = self.cur['kinds']
            others = any(x in ('other', 'other_move') for x in kinds)
            adopted = (not inplace) and clean(D1) and any(at[0] == 'init' for at, co in D1[2])
            # destroy-then-construct at the same address replaces an element (it is an assignment as
            # far as lifetimes are concerned)
            replaced = set()
            for i_, e in enumerate(effs):
                if e[0] != 'destroy' or is_temp(e[2]):
                    continue
                eb = e[3] if e[3] is not None else lin_add(e[2], L(s))
                for w in writes:
                    if w['what'] == 'construct' and w['i'] > i_ and id(w) not in replaced and \
                            same(w['a'], e[2], eqs) and same(w['b'], eb, eqs):
                        replaced.add(id(w))
                        replaced.add(('d', i_))
                        break
            for w in writes:
                if not w['used'] or w['what'] in ('swap', 'bytecopy'):
                    continue
                if id(w) in replaced:
                    w = dict(w)
                    w['what'] = 'assign'
                if inplace:
                    if prove_le(w['b'], E0) and w['what'] != 'assign':
                        led = ('an element is constructed over storage that holds a live element (the old one is never destroyed)',
                               {'write': [rd(w['a']), rd(w['b'])], 'kind': w['what']})
                    elif prove_le(E0, w['a']) and w['what'] != 'construct':
                        led = ('an element is assigned in storage beyond the live range (no object lives there)',
                               {'write': [rd(w['a']), rd(w['b'])], 'kind': w['what']})
                elif not adopted and w['what'] != 'construct':
                    led = ('an element is assigned in a buffer in which nothing has been constructed',
                           {'write': [rd(w['a']), rd(w['b'])], 'kind': w['what']})
                if led:
                    break
            if led is None and not others and newE is not None:
                dst = []
                for i_, e in enumerate(effs):
                    if e[0] == 'destroy' and not is_temp(e[2]) and ('d', i_) not in replaced:
                        b = e[3] if e[3] is not None else lin_add(e[2], L(s))
                        if not same(e[2], b, eqs):
                            dst.append([e[2], b, False])
                want = None
                if not inplace and not ctor:
                    want = (D0, E0)
                elif inplace and prove_le(newE, E0):
                    want = (newE, E0)
                elif (inplace and prove_le(E0, newE)) or ctor:
                    want = (E0, E0)
                if want is not None:
                    cur = want[0]
                    steps = 0
                    while not same(cur, want[1], eqs) and steps < 8:
                        steps += 1
                        nx = None
                        for d_ in dst:
                            if not d_[2] and same(d_[0], cur, eqs):
                                nx = d_
                                break
                        if nx is None:
                            led = ('elements that leave the sequence are not destroyed: [%s, %s) has no destruction starting at %s'
                                   % (rd(want[0]), rd(want[1]), rd(cur)), {'expected_destroyed': [rd(want[0]), rd(want[1])]})
                            break
                        nx[2] = True
                        cur = nx[1]
                    if led is None:
                        extra = [d_ for d_ in dst if not d_[2]]
                        if extra:
                            led = ('elements that stay in the sequence (or raw storage) are destroyed: [%s, %s)'
                                   % (rd(extra[0][0]), rd(extra[0][1])), {'destroyed': [rd(extra[0][0]), rd(extra[0][1])]})
            self._ledger = ('bad',) + led if led else ('ok', '', None)
        return ('ok', '', None)

    # -- verdicts -------------------------------------------------------------------------------
    def rep(self, rule, ok, what, detail=None):
        c = self.cur
        f = c['f']
        dk = (rule, f.name, what if not ok else '', ok)
        if dk in self.reports:
            return
        bn = c['bn']
        sig = '%s(%s)' % (bn, ', '.join(c['kinds']))
        if ok:
            self.reports[dk] = Report(rule, True, None, sample={'operation': sig, 'config': self.cfg.name, 'law': what})
        else:
            d = {'function': f.pretty[:300], 'function_line': f.src_line, 'config': self.cfg.name,
                 'file': 'source/include/gch/small_vector.hpp'}
            d.update(detail or {})
            self.reports[dk] = Report(rule, False, {'operation': sig, 'defect': what},
                                      '%s: %s: %s (%s)' % (rule, sig, what, self.cfg.name), d)

    def placement_ok(self, c):
        # element types with opaque special members: every element operation is an explicit call.
        # Scalars and trivial aggregates are written by plain stores / memset / memcpy of single
        # objects, which are not modelled as element operations
        return self.cfg.elem not in ('int', 'intp', 'TR')

    def eff_text(self, e, c):
        b = show(e[3], c) if e[3] is not None else 'one element'
        srcs = ''
        if e[4] == 'fill':
            srcs = ' <- the object at %s' % show(e[5], c)
        elif e[4] == 'range':
            srcs = ' <- [%s, %s)' % (show(e[5], c), show(e[6], c))
        return '%s %s [%s, %s)%s%s' % (e[0], e[1], show(e[2], c), b, srcs, ' descending' if e[7] < 0 else '')

    def via(self, ex):
        orc = self.laws.orc
        out = []
        for (nm, ci, n) in ex.get('via', []):
            fn = self.laws.eng.mod.funcs.get(nm)
            out.append('case %d of %d of %s (small_vector.hpp:%s)' % (ci + 1, n, base_name(orc.pretty.get(nm, nm)),
                                                                   fn.src_line if fn is not None else '?'))
        return out

    def on_unwind(self, lr, rs, st, f, eng):
        e = self.expected()
        if e and e.get('at'):
            # the throwing exit of at(): i < size refuted on the path
            S0 = atom(('init', self.cell(2)))
            i = atom(('arg', 1))
            fs = facts(st)
            if any(k == 'le' and x == S0 and y == i for (k, x, y) in fs):
                self.rep('R01.3', True, 'at() raises only where i < size() is refuted')
            else:
                self.rep('R01.3', False, 'at() raises on a path on which `size() <= i` is not established')

    def on_unwind_exit(self, lr, ex, f, eng):
        self.laws.unwind_ledger(ex, f)

    def on_ret(self, lr, ex, f, eng):
        e = self.expected()
        c = self.cur
        eqs = ex['eqs']
        D0 = atom(('init', self.cell(0)))
        if e.get('at'):
            S0 = atom(('init', self.cell(2)))
            i = atom(('arg', 1))
            fs = ex['facts']
            if not any(k == 'lt' and x == i and y == S0 for (k, x, y) in fs):
                self.rep('R01.3', False, 'at() returns on a path on which `i < size()` is not established')
            elif not same(ex['rv'], lin_add(D0, lin_scale(i, c['lay']['stride'])), eqs):
                self.rep('R01.3', False, 'at(i) does not return data()[i]', {'returned': repr(ex['rv'])[:300]})
            else:
                self.rep('R01.3', True, 'at(i) returns data()[i] where i < size() holds')
            return

        dirty = False
        if e['size'] is not None:
            got = ex['val'](self.cell(2))
            if not clean(got):
                dirty = True
            elif same(got, e['size'], eqs):
                self.rep('R01.1', True, 'size law')
                self.decided += 1
            else:
                self.rep('R01.1', False, 'size() after the call is not what std::vector specifies on some path',
                         {'size_after': show(got, c), 'specified': show(e['size'], c),
                          'path_equalities': [show(q, c) for q in eqs][:6], 'through': self.via(ex)})
                self.decided += 1
        if e['other_size'] is not None:
            got = ex['val'](self.cell(2, 1))
            if not clean(got):
                dirty = True
            elif same(got, e['other_size'], eqs):
                self.rep('R01.1', True, 'size law (argument container)')
                self.decided += 1
            else:
                self.rep('R01.1', False, 'size() of the argument container after the call is not the specified one',
                         {'size_after': show(got, c), 'specified': show(e['other_size'], c)})
                self.decided += 1
        if e['ret'] is not None and ex['rv'] is not None:
            if e['ret'][0] == 'abs':
                got, want = ex['rv'], e['ret'][1]
            else:
                d1 = ex['val'](self.cell(0))
                got, want = lin_sub(ex['rv'], d1), e['ret'][1]
            if not clean(got):
                dirty = True
                if e['ret'][0] == 'rel' and clean(ex['rv']) and not clean(d1) and \
                        any(at == atom(('init', self.cell(0)))[2][0][0] for at, co in ex['rv'][2]):
                    # the result is an address in the buffer the container had on entry, but on this
                    # path something (a loop of single insertions, an internal helper) may have
                    # replaced the buffer: the data pointer afterwards is not known to be the old one
                    self.rep('R01.2', False, 'the returned position is computed from the data pointer read before a step that may '
                             'replace the buffer (it dangles whenever that step reallocates)',
                             {'returned': show(ex['rv'], c), 'through': self.via(ex)})
                    self.decided += 1
            elif same(got, want, eqs):
                self.rep('R01.2', True, 'position law')
                self.decided += 1
            else:
                self.rep('R01.2', False, 'the returned position is not the one std::vector specifies on some path',
                         {'returned_minus_data_after' if e['ret'][0] == 'rel' else 'returned': show(got, c),
                          'specified': show(want, c), 'path_equalities': [show(q, c) for q in eqs][:6],
                          'through': self.via(ex)})
                self.decided += 1
        # ---- R01.5: a range copied within one buffer must run in the direction that does not overwrite
        # what is still to be read (any element type: the effects of the library's own copy loops and of
        # memmove/memcpy are known even where single stores are not) -----------------------------------
        if ex.get('effects') and not ex.get('approx'):
            D0_ = atom(('init', self.cell(0)))
            prove_le = self.order_prover(ex, 0, c['bn'] == 'small_vector::small_vector', D0_)
            nd = 0
            for x in ex['effects']:
                if x[4] != 'range' or x[3] is None or x[6] is None or x[0] not in ('assign', 'construct', 'bytecopy'):
                    continue
                if x[0] == 'bytecopy' and x[1] == 'memmove':
                    continue
                a_, b_, sa_, sb_, dr = x[2], x[3], x[5], x[6], x[7]
                if same(a_, sa_, eqs) or same(a_, b_, eqs):
                    continue
                right = prove_le(sa_, a_) and not prove_le(sb_, a_)
                left = prove_le(a_, sa_) and not prove_le(b_, sa_)
                # provably overlapping is more than can be shown in general; "starts inside the other
                # range's span and is not provably disjoint" is the structural condition
                if right and (dr == 1 or (x[0] == 'bytecopy' and x[1] == 'memcpy')):
                    self.rep('R01.5', False, 'elements are copied towards the end of the same buffer in ascending order although source '
                             'and destination may overlap: sources are overwritten before they are read',
                             {'operation': self.eff_text(x, c), 'through': self.via(ex)})
                    nd += 1
                elif left and (dr == -1 or (x[0] == 'bytecopy' and x[1] == 'memcpy')):
                    self.rep('R01.5', False, 'elements are copied towards the front of the same buffer in descending order although source '
                             'and destination may overlap: sources are overwritten before they are read',
                             {'operation': self.eff_text(x, c), 'through': self.via(ex)})
                    nd += 1
                elif right or left:
                    self.rep('R01.5', True, 'overlapping copy runs in the safe direction')
                    nd += 1
            self.directions += nd
        segs = e.get('place')
        if segs is not None and self.placement_ok(c):
            self._ledger = None
            verdict, text, detail = self.check_placement(ex, segs, eng)
            if verdict == 'ok' and self._ledger is not None and not ex.get('approx'):
                lv, lt, ld = self._ledger
                if lv == 'ok':
                    self.rep('R03.7', True, 'lifetime ledger')
                else:
                    d = dict(ld or {})
                    d['through'] = self.via(ex)
                    if ex['effects'] is not None:
                        d['element_operations'] = [self.eff_text(x, c) for x in ex['effects']][:10]
                    self.rep('R03.7', False, lt, d)
                self.ledgered += 1
            if verdict == 'bad' and ex.get('approx'):
                verdict, text = 'undecided', 'a case of an internal function was approximated (too many distinct cases)'
            if verdict == 'ok':
                self.rep('R01.4', True, 'placement law')
                self.placed += 1
            elif verdict == 'bad':
                d = dict(detail or {})
                d['through'] = self.via(ex)
                d['path_equalities'] = [show(q, c) for q in eqs][:6]
                if ex['effects'] is not None:
                    d['element_operations'] = [self.eff_text(x, c) for x in ex['effects']][:10]
                self.rep('R01.4', False, text, d)
                self.placed += 1
            else:
                self.unplaced += 1
                sig = '%s(%s)' % (c['bn'], ', '.join(c['kinds']))
                self.unplaced_ops[sig + ': ' + text] = self.unplaced_ops.get(sig + ': ' + text, 0) + 1
        if dirty:
            self.undecided += 1
            sig = '%s(%s)' % (c['bn'], ', '.join(c['kinds']))
            self.undecided_ops[sig] = self.undecided_ops.get(sig, 0) + 1
            if DEBUG:
                print('DIRTY', sig, 'size', show(ex['val'](self.cell(2)), c), 'rv', show(ex['rv'], c))


def show(t, c):
    """Readable rendering of a term in the vocabulary of the operation."""
    if t is None:
        return 'unknown'
    lay = c['lay']
    names = {atom(('init', lay[2]))[2][0][0]: 'size0', atom(('init', lay[0]))[2][0][0]: 'data0',
             atom(('init', lay[1]))[2][0][0]: 'capacity0'}

    def at_s(a):
        if a in names:
            return names[a]
        if a[0] == 'arg':
            return 'arg%d' % a[1]
        if a[0] == 'divx':
            return '(%s)/%d' % (lin_s(a[1]), a[2])
        if a[0] == 'init' and len(a) == 2:
            return '*(%s)' % lin_s(a[1])
        if a[0] == 'cmp':
            return '(%s %s %s)' % (lin_s(a[2]), a[1], lin_s(a[3]))
        if a[0] == 'ret':
            return 'result-of-call'
        return re.sub(r"'_Z[^']*'", "'fn'", repr(a))[:80]

    def lin_s(t):
        if not sym.is_lin(t):
            return repr(t)[:80]
        parts = []
        for a, co in t[2]:
            x = at_s(a)
            if co == 1:
                parts.append('+ ' + x)
            elif co == -1:
                parts.append('- ' + x)
            else:
                parts.append('%s %d*%s' % ('+' if co > 0 else '-', abs(co), x))
        if t[1] or not parts:
            parts.append('%s %d' % ('+' if t[1] >= 0 else '-', abs(t[1])))
        r = ' '.join(parts)
        return r[2:] if r.startswith('+ ') else r
    return lin_s(t)[:400]


def analyse_tu(eng, cfg):
    laws = Laws(eng, cfg)
    spec = Spec(laws, cfg)
    # the element stride (for single-element operations of the exceptional-exit ledger)
    for f in irrules.gch_roots(eng):
        if is_public(f) and base_name(f.pretty) == 'operator[]':
            lay = spec.layout(class_of(f))
            if lay is not None:
                laws.stride = lay['stride']
                break
    n = 0
    ops = set()
    skipped = []
    from .. import common
    for f in irrules.gch_roots(eng):
        if not is_public(f):
            continue
        if not spec.start(f):
            continue
        n += 1
        ops.add('%s(%s)' % (spec.cur['bn'], ', '.join(spec.cur['kinds'])))
        try:
            laws.walk(f, lambda: LawRule(laws, spec))
        except common.AnalysisBroken:
            # too many paths for one operation: nothing is concluded about it (the floors of the
            # check catch a collapse of coverage)
            skipped.append('%s(%s)' % (spec.cur['bn'], ', '.join(spec.cur['kinds'])))
    control = None
    if cfg.elem == 'NM' and cfg.std == 'c++17' and not cfg.defines and cfg.sizet == 'u64':
        # negative control on every run: against a specification that is off by one everywhere
        # (size + 1, position + one element) every decided verdict must be a violation
        wrong = Spec(laws, cfg, perturb=True)
        for f in irrules.gch_roots(eng):
            if is_public(f) and wrong.start(f):
                laws.walk(f, lambda: LawRule(laws, wrong))
        # (R01.5 does not depend on the specification, R03.7 belongs to C03)
        ctl = ('R01.1', 'R01.2', 'R01.4')
        flagged = set((r.rule, r.key['operation']) for r in wrong.reports.values() if not r.ok and r.rule in ctl)
        passed = set((r.rule, r.sample['operation']) for r in wrong.reports.values() if r.ok and r.rule in ctl)
        control = {'flagged': len(flagged), 'wrongly_passed': sorted(passed - flagged)[:10], 'passed_somewhere': len(passed)}
    marker = any('heap_temporary' in (fn.pretty or '') for fn in eng.mod.funcs.values())
    return {'reports': list(spec.reports.values()) + list(laws.unwind_reports.values()), 'functions': n,
            'decided': spec.decided, 'control': control,
            'flavour_marker': marker,
            'undecided_paths': spec.undecided, 'undecided_ops': spec.undecided_ops,
            'placed': spec.placed, 'unplaced': spec.unplaced, 'ledgered': spec.ledgered, 'directions': spec.directions, 'ledgered_unwind': laws.ledgered_unwind, 'unplaced_ops': spec.unplaced_ops,
            'operations': sorted(ops), 'laws': laws.stats, 'skipped_operations': skipped,
            'law_functions': sorted(base_name(eng.oracle.pretty.get(k, k)) for k, v in laws.memo.items() if v is not None)}
